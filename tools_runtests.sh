#!/bin/bash
# Run the pinned test-suite against a scratch worktree of /repo HEAD (so /repo can be edited
# meanwhile), one pytest process per test file, in parallel.  Prints per-file summaries.
WT=$(mktemp -d /tmp/rsome_wt.XXXXXX)
git -C /repo worktree add -q --detach "$WT" HEAD
cd "$WT"
ls tests/test_*.py | xargs -P 16 -I{} sh -c '/venv/bin/python -m pytest -q -p no:cacheprovider --timeout=900 {} 2>&1 | tail -1 | sed "s|^|{}: |"'
cd /
git -C /repo worktree remove --force "$WT"
