#!/bin/sh
# usage: tools_adv.sh <adv-name> [function-qualname]   -- apply one red-team diff to a scratch copy, run its rule,
# optionally print the normalised body of a function (debugging aid; not part of any registered check)
set -e
here=$(cd "$(dirname "$0")" && pwd)
n=$1
rule=$(echo "$n" | sed "s/^[ABC][0-9]*_\\(R[0-9]*\\)_.*/\\1/")
tmp=$(mktemp -d /tmp/rsx_dbg_XXXX)
trap 'rm -rf "$tmp"' EXIT
cp -r "${RSOME_REPO:-/repo}/rsome" "$tmp/rsome"
patch -p1 -s -d "$tmp" -i "$here/selftest/adv/$n.diff"
cd "$here"
if [ -n "$2" ]; then
  RSOME_REPO=$tmp /venv/bin/python - "$2" <<'PY'
import sys, ast
from rsx.loader import Repo
r = Repo()
fi = r.func(sys.argv[1])
print(ast.unparse(fi.node))
PY
fi
RSOME_REPO=$tmp RSX_NO_EVIDENCE=1 ./check --rule ${3:-$rule} 2>&1 | grep -v '^OK' | head -${LINES_MAX:-12}
