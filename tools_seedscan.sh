#!/bin/bash
# Re-run every check against every kept seeded change (scratch copy of /repo/rsome, removed afterwards).
# usage: tools_seedscan.sh [id ...]     prints, per seed, the properties that fire (V) or go blind (E)
cd /verif
ids=${@:-$(ls seeded | grep -v SUMMARY)}
for id in $ids; do
  [ -f seeded/$id/patch.diff ] || continue
  tmp=$(mktemp -d /tmp/rsx_seed_XXXXXX)
  cp -r /repo/rsome $tmp/rsome
  if ! patch -p1 -s --no-backup-if-mismatch -d $tmp -i /verif/seeded/$id/patch.diff >/dev/null 2>&1; then
    echo "$id: patch does not apply"; rm -rf $tmp; continue
  fi
  out=$(RSX_NO_EVIDENCE=1 RSOME_REPO=$tmp ./check --all 2>&1)
  v=$(echo "$out" | grep -E "^VIOLATION" | sed -E 's/.*property=(C[0-9]+).*/\1/' | sort -u | tr '\n' ' ')
  e=$(echo "$out" | grep -E "^ANALYSIS-ERROR" | sed -E 's/.*property=(C[0-9]+).*/\1/' | sort -u | tr '\n' ' ')
  r=$(echo "$out" | grep -E "^  R[0-9]+" | awk '{print $1}' | sort -u | tr '\n' ' ')
  echo "$id: V=[$v] E=[$e] rules=[$r]"
  rm -rf $tmp
done
rm -rf /verif/replays
