"""Property -> rules.  `clauses` is the text of what is decided; `not_decided` what is not.

A rule listed under several properties reports under each (the same construct breaks all of
them); a finding may narrow this with Finding.detail['props'].
"""

PROPS = {
    'C01': {
        'rules': ['R09', 'R07', 'R08', 'R13', 'R01', 'R28', 'R29', 'R37'],
        'decided': 'support captured as the dual of exactly the given constraints after a reset; '
                   'every robust constraint lowered with its own or the default set; le_to_rc '
                   'consumes every part of the support (rows, sense, bound code, SOC, exp, LMI); '
                   'robust equalities split into +/- with the set kept; no earlier set leaks in; the random '
                   'coefficients enter the stationarity rows scaled by the support constant of the same rows; '
                   'a term added to a concave piecewise function carries its sign',
        'not_decided': 'signs and indices of the multiplier rows, i.e. feasibility itself',
    },
    'C03': {
        'rules': ['R08', 'R09', 'R01', 'R07', 'R27', 'R29', 'R32'],
        'decided': 'per-constraint ambiguity set survives splits; set selection (own, default, '
                   'else raise); shared pro/exp/sup models reset; mix_support consumes every '
                   'cone list of the probability and expectation supports',
        'not_decided': 'the alpha/beta dualisation and its expectations',
    },
    'C04': {
        'rules': ['R25', 'R07', 'R27', 'R32', 'R05'],
        'decided': 'expectation marker and event partition survive every shape-preserving '
                   'operation; expectation blocks of mix_support keep every cone list',
        'not_decided': 'everything numeric',
    },
    'C06': {
        'rules': ['R05', 'R06', 'R25', 'R28', 'R30', 'R24', 'R27'],
        'decided': 'every accepted atom / constraint class / objective form has a lowering branch '
                   'in some layer, no shadowed branch, unknown types raise; no constructor field '
                   'of an accepted expression is dropped on the way to its lowering',
        'not_decided': 'that each lowering is the right cone',
    },
    'C07': {
        'rules': ['R15', 'R33', 'R06', 'R36', 'R19'],
        'decided': 'integrality vector aligned with columns under every call history; '
                   'formulation-time variables are continuous; weight bookkeeping of the power-cone '
                   'tower (padding to a power of two exactly once, children of split() sum to half the '
                   'degree -- symbolic linear identities); the multiplier of a scaled atom is spent once, '
                   'for the power atom as multiplier ** (q/p) on the argument',
        'not_decided': 'exactness of rsocone and of the quadratic encodings, termination of the '
                       'recursion, brute-force agreement (numeric)',
    },
    'C08': {
        'rules': ['R14', 'R07', 'R35', 'R36', 'R39'],
        'decided': 'complete case analysis of the LP dual over the finite orderings of '
                   '(lb, ub, 0, +-inf); bound-row sign table; index searches in the dual builders run on sorted sequences',
        'not_decided': 'SOC/exp/LMI dual blocks, strong duality',
    },
    'C09': {
        'rules': ['R01', 'R02', 'R03', 'R04', 'R08', 'R15', 'R23', 'R38'],
        'decided': 'no container survives a reset; every declaration mutator invalidates every '
                   'cache that read it; expression constructors do not write their arguments; '
                   'cached formulas are not written by consumers; derived constraints keep their '
                   'set; column bookkeeping survives re-formulation',
        'not_decided': 'numerical equality of re-solve and from-scratch results',
    },
    'C10': {
        'rules': ['R11', 'R25', 'R37'],
        'decided': 'sign calculus of every convex family class x operator over the whole sign '
                   'domain; comparison guards; bilinear guards; the static/adaptive flag `fixed` of a '
                   'rebuilt DecAffine depends on self.fixed on every path; a term added to a piecewise function '
                   'carries self.sign on every definition',
        'not_decided': 'that each atom\'s base function is convex as labelled',
    },
    'C11': {
        'rules': ['R19', 'R04', 'R07', 'R17', 'R30'],
        'decided': 'every interface reads every formula field, translates or warns about every '
                   'cone list, does not edit the formula, reports failure as NaN/None',
        'not_decided': 'numerical agreement of optima, solver status semantics',
    },
    'C12': {
        'rules': ['R17', 'R18', 'R25', 'R27', 'R06', 'R31', 'R36'],
        'decided': 'read-back guards; sense applied exactly once each way; evaluator branch laws',
        'not_decided': 'index arithmetic of DecVar.get / rule_var, scenario labelling',
    },
    'C13': {
        'rules': ['R10', 'R02', 'R25', 'R27', 'R31'],
        'decided': 'illegal declarations raise; adaptation after rule expansion invalidates or '
                   'raises; partitions combined by comb_set in binary operations and propagated '
                   'by unary ones',
        'not_decided': 'partition refinement arithmetic, masks -> variable indices',
    },
    'C14': {
        'rules': ['R26', 'R17', 'R34', 'R19'],
        'decided': 'row/label agreement in lp do_math; dual() applies the model sign; y carries '
                   'pi/upi/lpi for every dual-capable interface; a bound object keeps the order of the '
                   'indices it was declared with',
        'not_decided': 'each solver\'s sign convention, complementary slackness',
    },
    'C15': {
        'rules': ['R12', 'R13', 'R08', 'R28', 'R34', 'R29', 'R14'],
        'decided': '>= is the mirror of <=; reflected operators; equality == two inequalities '
                   'including the attached set; bounds intersect in any order; the values of a bound '
                   'are broadcast, never recycled',
        'not_decided': 'value-level metamorphic relations',
    },
    'C16': {
        'rules': ['R21', 'R36'],
        'decided': 'exports read every formula field; General/Binary sections selected by the matching '
                   'vtype letter; sense codes agree; a leading sign is only stripped when it is a plus',
        'not_decided': 'number formatting, parse-back equality',
    },
    'C17': {
        'rules': ['R20', 'R17'],
        'decided': 'model-identity guard dominates every sink combining two model-bearing '
                   'operands, also when the store sits in a helper method (then the helper and every '
                   'caller are judged); objective redefinition and size guards; no shared mutated state',
        'not_decided': 'operator paths outside the sink table',
    },
    'C18': {
        'rules': ['R22', 'R04', 'R07', 'R38'],
        'decided': 'to_socp derives each field from the same field by prefix-preserving '
                   'operations, passes lmi through, does not write self; the head of every added cone '
                   'gets lower bound 0',
        'not_decided': 'the 1e-3 accuracy claim',
    },
    'C19': {
        'rules': ['R23', 'R03', 'R04'],
        'decided': 'no randomness / unordered iteration; no in-place effect on user arrays, '
                   'operand matrices or cached formulas',
        'not_decided': 'bit-identical numerics across processes',
    },
    'C05': {
        'rules': ['R24', 'R03', 'R34', 'R36'],
        'decided': 'shape law for the constant part of Affine/RoAffine results; operations build new '
                   'objects and never edit their operands in place (NumPy semantics), including through '
                   'shared sparse buffers (x + 0, csr_matrix(x.linear)); bound objects keep index order and '
                   'broadcast their values',
        'not_decided': 'values, the linear part, selector-matrix index arithmetic',
    },
}
