#!/venv/bin/python
"""Regenerate known_findings.json from the table below (commit hashes looked up in /repo)."""
import json, subprocess, os
HERE = os.path.dirname(os.path.abspath(__file__))
log = subprocess.run(['git', '-C', '/repo', 'log', '--format=%h %s'], capture_output=True, text=True).stdout.splitlines()


def h(sub):
    for l in log:
        if sub in l:
            return l.split()[0]
    raise SystemExit('no commit for ' + sub)


FIXED = [
    # id, properties, rule, function, construct, commit-subject fragment, what
    ('F01', ['C09', 'C01', 'C03'], 'R01', 'socp.Model.reset', 'self.ip_constr', 'reset() of the SOCP',
     'socp/gcp Model.reset() kept ip_constr and det_constr: a p-norm set given to one forall() leaked into the next set (x=0.317 instead of 4); findings/F01_reset_leak.py'),
    ('F01b', ['C09', 'C01', 'C03'], 'R01', 'gcp.Model.reset', 'self.ip_constr', 'reset() of the SOCP', 'same defect, gcp layer (ip_constr)'),
    ('F01c', ['C09', 'C01', 'C03'], 'R01', 'gcp.Model.reset', 'self.det_constr', 'reset() of the SOCP', 'same defect, gcp layer (det_constr)'),
    ('F02', ['C06'], 'R05', 'gcp.Model.do_math', 'objective:CvxConstr/N', 'lower a p-norm',
     'min(pnorm(x,2.5)) compiled to a program without cones; findings/F02_pnorm_objective.py'),
    ('F17', ['C06'], 'R05', 'socp.Model.st', 'route:CvxConstr/D->ip_constr', 'rejects root-determinant',
     'bare socp.Model accepted rootdet constraints and dropped them; findings/F17_socp_rootdet.py'),
    ('F03', ['C11', 'C19', 'C09'], 'R04', 'lp.def_sol', 'lb[bool_bin] = 0', 'default MILP interface',
     'def_sol overwrote binary bounds in the cached formula: max b.sum(), b[0]<=0 gave 3 instead of 2; findings/F03_binary_bounds.py'),
    ('F03b', ['C11', 'C19', 'C09'], 'R04', 'lp.def_sol', 'ub[bool_bin] = 1', 'default MILP interface', 'same defect (upper bounds)'),
    ('F11', ['C18', 'C19', 'C09'], 'R04', 'gcp.GCProg.to_socp',
     'qmat += [list(left_width + num_vars + np.array([2, 1, 0]) + q * 3) for q in range(3 + degree)]', 'to_socp() no longer',
     'to_socp aliased self.qmat: soc_solve() then solve() failed; findings/F11_to_socp_alias.py'),
    ('F24', ['C19', 'C09'], 'R04', 'lp.Model.do_math', 'dual_const[indices_neg] = -dual_const[indices_neg]', 'building the LP dual',
     'LP dual negated entries of the cached primal objective in place; findings/F24_lp_dual_obj.py'),
    ('F25', ['C19', 'C09'], 'R04', 'gcp.Model.do_math', "each['linear'] = each['linear'][:, keep_idx]", 'building the conic dual',
     'conic dual trimmed LMI blocks of the cached primal in place (coefficients shifted columns); findings/F25_gcp_dual_lmi.py'),
    ('F18', ['C11', 'C19', 'C09'], 'R04', 'cpt_solver.solve', 'lb[lb == -np.inf] = -cp.COPT.INFINITY', 'COPT interface',
     'COPT interface rewrote formula.lb/ub in place (shown with a stub coptpy); findings/F18_cpt_inplace.py'),
    ('F06', ['C09', 'C19'], 'R03', 'lp.ExpPiecewiseConvex.__init__', "piece.ctype = 'E'", 'E(piecewise) no longer',
     "E(maxof(e,0)) set e.ctype='E' on the caller's expression; findings/F06_exp_piecewise_mutates.py"),
    ('F16', ['C09'], 'R02', 'socp.Model.reset', 'token:dupdate', 'reset() invalidates',
     'reset() left the dual cache valid: forall() with no arguments re-used the previous set; findings/F16_empty_forall.py'),
    ('F08', ['C09'], 'R02', 'lp.Scen.suppset', 'token:pupdate', 'suppset/exptset/probset invalidate',
     'suppset/exptset/probset after a solve were ignored (1.0 instead of 3.0); findings/F08_ambiguity_after_solve.py'),
    ('F09', ['C13', 'C09'], 'R02', 'lp.DecVar.evtadapt', 'token:var_ev_list', 'declaring adaptation after',
     'adapt() after formulation was ignored and x.get() raised IndexError; now rejected; findings/F09_adapt_after_solve.py'),
]
FIXED += EXTRA_FIXED if 'EXTRA_FIXED' in globals() else []

KNOWN = [
    ('F10', ['C09', 'C13'], 'R02', 'dro.Model.dvar', 'token:var_ev_list',
     'dro: dvar() after the model was formulated keeps the stale event-wise expansion; the next solve raises ValueError (loud). '
     'Repairing it also needs every matrix of the older constraints widened in ro_to_roc/dro_to_roc (~12 sites; constraints built '
     'before a later dvar() fail the same way even without a prior solve), so it is recorded, not patched; findings/F10_dvar_after_solve.py'),
    ('F10b', ['C09', 'C13'], 'R02', 'dro.Model.dvar', 'token:pupdate', 'same construct (primal cache token)'),
    ('F10c', ['C09', 'C13'], 'R02', 'dro.Model.dvar', 'token:dupdate', 'same construct (dual cache token)'),
]


def main():
    extra_f, extra_k = [], []
    p = os.path.join(HERE, 'known_extra.py')
    if os.path.exists(p):
        ns = {}
        exec(open(p).read(), ns)
        extra_f, extra_k = ns.get('FIXED', []), ns.get('KNOWN', [])
    out = []
    for (i, props, rule, fn, cons, sub, what) in FIXED + extra_f:
        c = h(sub)
        out.append({'id': i, 'status': 'fixed', 'properties': props, 'rule': rule, 'function': fn,
                    'construct': cons, 'commit': c,
                    'what': 'fixed: property=%s %s %s' % (props[0], c, what)})
    for (i, props, rule, fn, cons, what) in KNOWN + extra_k:
        out.append({'id': i, 'status': 'known', 'properties': props, 'rule': rule, 'function': fn,
                    'construct': cons, 'what': what})
    doc = {'_comment': "Genuine defects of XiongPengNUS/rsome found by the checks. status=known: "
                       "reported as KNOWN-FINDING (exit 0) when the check finds exactly that (rule, "
                       "function, construct) under one of the listed properties; status=fixed: "
                       "repaired by a 'fix:' commit in /repo -- suppresses nothing, the violation is "
                       "reported again if it returns. Never written at run time.",
           'findings': out}
    json.dump(doc, open(os.path.join(HERE, 'known_findings.json'), 'w'), indent=1)
    print('%d fixed, %d known' % (len(FIXED + extra_f), len(KNOWN + extra_k)))


main()
