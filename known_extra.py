FIXED = [
    ('F14', ['C03', 'C09', 'C15'], 'R08', 'dro.Model.ro_to_roc', 'left = DecLinConstr(): ambset <- constr.ambset',
     'adaptive linear equality keeps', '(y == w).forall(S) with adaptive y, w lost S in the equality split: infeasible instead of feasible; findings/F14_declin_split_ambset.py'),
    ('F12', ['C04', 'C03'], 'R07', 'dro.Ambiguity.mix_support', 'exp_support.xmat ignored',
     'exponential-cone constraints in an expectation set', 'exptset(exp(E(z)) <= e) was dropped: worst-case mean 10 instead of 1; findings/F12_exptset_expcone.py'),
]
KNOWN = [
    ('F13', ['C04', 'C03'], 'R07', 'dro.Ambiguity.mix_support', 'exp_support.lmi ignored',
     'a semidefinite constraint inside exptset() is dropped by mix_support (no LMI block is copied into the lifted set). '
     'Repair needs the perspective of the LMI (linear @ mu - p * const >> 0) and cannot be validated here (no SDP solver installed)'),
    ('F13b', ['C04', 'C03'], 'R07', 'dro.Ambiguity.mix_support', 'pro_support.lmi ignored',
     'same for an LMI inside probset()'),
]
