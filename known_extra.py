FIXED = [
    ('F14', ['C03', 'C09', 'C15'], 'R08', 'dro.Model.ro_to_roc', 'left = DecLinConstr(): ambset <- constr.ambset',
     'adaptive linear equality keeps', '(y == w).forall(S) with adaptive y, w lost S in the equality split: infeasible instead of feasible; findings/F14_declin_split_ambset.py'),
    ('F12', ['C04', 'C03'], 'R07', 'dro.Ambiguity.mix_support', 'exp_support.xmat ignored',
     'exponential-cone constraints in an expectation set', 'exptset(exp(E(z)) <= e) was dropped: worst-case mean 10 instead of 1; findings/F12_exptset_expcone.py'),
    ('F07', ['C04', 'C13', 'C06'], 'R25', 'lp.DecAffine.sum', 'DecAffine(...): ctype not passed',
     'sum() and trace() of a dro expression', "E(y).sum().ctype was 'R': expectation constraint compiled as worst case; findings/F07_sum_drops_ctype.py"),
    ('F19', ['C12'], 'R18', 'lp.Convex.__call__', 'branch T: value_out is added 2 times',
     'evaluating a power atom adds', '(power(x,3)+5)() returned x**3+10; findings/F19_F20_evaluators.py'),
    ('F20', ['C12'], 'R18', 'lp.Convex.__call__', 'branch P: leading sign is +1 but the atom is created with sign -1',
     'evaluating a power atom adds', 'entropy(p)() returned minus the entropy (ro and dro evaluators); findings/F19_F20_evaluators.py'),
    ('F21', ['C10'], 'R11', 'lp.DecAffine.__le__', 'DecAffine.__le__',
     'dro comparisons with the affine operand first', 'dro: x <= maxof(y0, y1) accepted and compiled as x <= min(y0, y1); findings/F21_dro_piecewise_wrong_side.py'),
    ('F26', ['C10'], 'R11', 'lp.PiecewiseConvex.__le__', 'PiecewiseConvex.__le__',
     'piecewise expression scaled by zero', '0*maxof(x, y) <= -1 compiled as 0 <= 0 (sign 0 swallowed added terms); findings/F26_zero_scaled_piecewise.py'),
    ('F04', ['C08', 'C01'], 'R14', 'lp.Model.do_math', 'pattern lb=3 ub=3',
     'LP dual encodes a variable fixed by its bounds', 'LP dual of 1<=x0<=1 was infeasible (nan instead of -3); findings/F04_lp_dual_fixed.py'),
    ('F05', ['C07', 'C09'], 'R15', 'lp.Model.do_math', 'vtype by concatenation',
     'integrality vector is written per column block', 'solve -> st -> solve of an ro MILP gave len(vtype) < columns; findings/F05_vtype_misaligned.py'),
    ('F27', ['C12'], 'R27', 'lp.DecVar.get', 'series order: edict',
     'pairs per-scenario results with the right scenario labels', 'x.get() attached values to the wrong scenario labels after out-of-order adapt(); findings/F27_get_labels_out_of_order.py'),
]
KNOWN = [
    ('F13', ['C04', 'C03'], 'R07', 'dro.Ambiguity.mix_support', 'exp_support.lmi ignored',
     'a semidefinite constraint inside exptset() is dropped by mix_support (no LMI block is copied into the lifted set). '
     'Repair needs the perspective of the LMI (linear @ mu - p * const >> 0) and cannot be validated here (no SDP solver installed)'),
    ('F13b', ['C04', 'C03'], 'R07', 'dro.Ambiguity.mix_support', 'pro_support.lmi ignored',
     'same for an LMI inside probset()'),
    ('F22', ['C06', 'C12'], 'R25', 'lp.Convex.__init__', 'dead field self.sum_axis',
     'exp(x).sum() <= t (and log(x).sum() >= t, the objective form, any axis) is compiled as max_i exp(x_i) <= t: the axis stored by '
     'Convex.sum() is never read (2.718 instead of 5.472). Repair = carry sum_axis through neg/add/mul/le/ge/CvxConstr/DecCvxConstr/'
     'ro_to_roc and lower summed X/L atoms with per-entry epigraph variables (~40 lines, 8 sites): not small; findings/F22_summed_atom.py'),
    ('F22b', ['C06', 'C12'], 'R25', 'lp.Convex.__neg__', 'Convex(...): sum_axis not passed', 'same defect: -f.sum() forgets the axis'),
    ('F22c', ['C06', 'C12'], 'R25', 'lp.Convex.__add__', 'Convex(...): sum_axis not passed', 'same defect: f.sum() + a forgets the axis'),
    ('F22d', ['C06', 'C12'], 'R25', 'lp.Convex.__mul__', 'Convex(...): sum_axis not passed', 'same defect: c * f.sum() forgets the axis'),
    ('F23', ['C06', 'C12'], 'R25', 'lp.Convex.sum', 'PerspConvex inherits -> Convex',
     'pexp(x, s).sum() <= t loses the perspective scale (2.718 instead of 6.595); same repair as F22; findings/F23_persp_sum.py'),
]
