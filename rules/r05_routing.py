"""R05 atom routing is exhaustive.

Created  = (constraint class, xtype letter) pairs built anywhere in the package (string
           literals bound to the `xtype` parameter of Convex / PerspConvex / CvxConstr /
           PCvxConstr constructors), plus the non-letter constraint classes the front ends accept.
(a) every created pair is routed by st() of the layer the front ends instantiate (and of each
    lower layer when used alone) into a container, or st() raises;
(b) the container is consumed by a loop / comprehension of some do_math() along the MRO, and
    when that loop dispatches on class / letter, a branch matches the pair;
(c) as an objective, every created letter is routed by the epigraph block of some layer into a
    list whose lowering loop has a matching branch;
(d) no isinstance-chain tests a subclass after its superclass (shadowed branch);
(e) every class accepted by ro.Model.st / dro.Model.st is handled by the corresponding
    do_math loop (and by ro_to_roc / dro_to_roc), or that code raises.
"""
import ast

from rsx.ctor import bind_args
from rsx.dispatch import Ctx, dispatch, shadowed_branches
from .common import (AnalysisError, Finding, RuleResult, ClassInfo, ntext, walk_no_nested,
                     body_stmts, is_self_attr, call_name, const_str, single_defs, expand_locals)

RULE = 'R05'
TEXT = ('every (constraint class, atom letter) the package can create is routed by st() to a '
        'container that a do_math() loop lowers with a matching branch; every letter is lowered '
        'when used as objective; no shadowed isinstance branch; every class accepted by ro/dro '
        'st() is handled by do_math')

LETTER_CLASSES = {'lp.Convex': 'lp.CvxConstr', 'lp.PerspConvex': 'lp.PCvxConstr',
                  'lp.CvxConstr': 'lp.CvxConstr', 'lp.PCvxConstr': 'lp.PCvxConstr'}
PLAIN_KINDS = ['lp.LinConstr', 'lp.Bounds', 'lp.ConeConstr', 'lp.IPCone', 'lp.ExpConstr',
               'lp.KLConstr', 'lp.LMIConstr']
LAYERS = ['lp.Model', 'socp.Model', 'gcp.Model']


def created_letters(repo, res):
    out = {}     # (constraint kind fq, letter) -> [sites]
    for fi in repo.all_functions():
        for n in walk_no_nested(fi.node):
            if not (isinstance(n, ast.Call) and isinstance(n.func, ast.Name)):
                continue
            r = repo.resolve_name(fi.module, n.func.id)
            if not isinstance(r, ClassInfo) or r.fq not in LETTER_CLASSES:
                continue
            init = repo.resolve_method(r, '__init__')
            env = bind_args(init, n)
            if env is None or 'xtype' not in env:
                raise AnalysisError('cannot bind xtype at %s' % repo.where(fi, n))
            letter = const_str(env['xtype'])
            if letter is None:
                continue          # propagated (left.xtype), not created here
            if len(letter) != 1:
                raise AnalysisError('xtype literal %r is not one letter at %s' % (letter, repo.where(fi, n)))
            out.setdefault((LETTER_CLASSES[r.fq], letter), []).append('%s@%s' % (fi.fq, repo.where(fi, n)))
            res.functions.add(fi.fq)
    return out


def _st(repo, cls):
    st = repo.resolve_method(cls, 'st')
    if st is None:
        raise AnalysisError('%s has no st()' % cls.fq)
    return st


def route(repo, cls, kind, letter, trail=None):
    """-> ('container', owner_cls, name) | ('raise',) | ('fallthrough', fq)"""
    trail = trail or []
    st = cls.methods.get('st')
    if st is None:
        base = cls.bases[0] if cls.bases else None
        if base is None:
            return ('fallthrough', cls.fq)
        return route(repo, base, kind, letter, trail)
    var = st.params[1]
    ctx = Ctx(repo, st.module, var, kind, letter)
    leaf = dispatch(body_stmts(st), ctx, top_level_skip=True)
    if leaf is None:
        return ('fallthrough', st.fq)
    if leaf.raises():
        return ('raise', st.fq)
    apps = [a for a in leaf.appends(ctx.vars) if a.startswith('self.')]
    if apps:
        return ('container', cls, apps[0][5:], st.fq)
    for cn, _n in leaf.delegates(ctx.vars):
        if cn == 'super().st':
            if not cls.bases:
                raise AnalysisError('super().st in %s without base' % cls.fq)
            return route(repo, cls.bases[0], kind, letter, trail + [st.fq])
    raise AnalysisError('cannot interpret the st() leaf for %s/%s in %s: %s'
                        % (kind.fq, letter, st.fq, '; '.join(ntext(s)[:60] for s in leaf.stmts[:2])))


def _mentions(expr, name):
    """expr mentions self.<name> (name starts with 'self.') or the local <name>."""
    for n in ast.walk(expr):
        if name.startswith('self.'):
            if is_self_attr(n, name[5:]):
                return True
        elif isinstance(n, ast.Name) and n.id == name:
            return True
    return False


def consumers(repo, cls, listname, only_func=None):
    """For-loops and comprehension generators in do_math along MRO(cls) iterating over listname.
    -> [(FuncInfo, node, kind)], kind in 'for'|'comp'."""
    out = []
    for c in repo.mro(cls):
        dm = c.methods.get('do_math')
        if dm is None or (only_func is not None and dm is not only_func):
            continue
        defs = single_defs(dm.node)
        for n in walk_no_nested(dm.node):
            if isinstance(n, ast.For) and (_mentions(n.iter, listname) or
                                           _mentions(expand_locals(dm.node, n.iter, defs=defs), listname)):
                out.append((dm, n, 'for'))
            elif isinstance(n, (ast.ListComp, ast.GeneratorExp, ast.SetComp)):
                for g in n.generators:
                    if _mentions(g.iter, listname) or _mentions(expand_locals(dm.node, g.iter, defs=defs), listname):
                        out.append((dm, n, 'comp'))
    return out


def lowered(repo, cls, listname, kind, letter, only_func=None):
    """Does some consumer loop of `listname` have a matching, non-trivial branch for the pair?
    -> (True, where) | (False, reason)"""
    cons = consumers(repo, cls, listname, only_func)
    if not cons:
        # "never iterated" is a conclusion only if the container is not read into a working list the rule does not
        # follow (ws = list(self.X); ws.append(..) / ws = self.X.copy() / ws.extend(self.X) / ws += self.X ...)
        for c in repo.mro(cls):
            dm = c.methods.get('do_math')
            if dm is None or (only_func is not None and dm is not only_func):
                continue
            for n in walk_no_nested(dm.node):
                reads = isinstance(n, ast.Attribute) and ntext(n) == listname and isinstance(n.ctx, ast.Load)
                if reads:
                    raise AnalysisError('%s reads %s, but not in the header of a loop the rule follows (a working list '
                                        'built in several statements?)' % (dm.fq, listname))
        return False, 'no do_math loop iterates over %s' % listname
    reasons = []
    for dm, node, k in cons:
        if k == 'comp':
            return True, '%s (comprehension)' % dm.fq
        if not isinstance(node.target, ast.Name):
            raise AnalysisError('loop target not a name in %s' % dm.fq)
        ctx = Ctx(repo, dm.module, node.target.id, kind, letter)
        leaf = dispatch(node.body, ctx)
        if leaf is not None and leaf.nontrivial() and not leaf.raises():
            return True, dm.fq
        reasons.append('%s: loop over %s has no branch for %s%s'
                       % (dm.fq, ntext(node.iter), kind.name, '/' + letter if letter else ''))
    return False, '; '.join(reasons)


def objective_block(dm):
    """Statements of the `if self.obj is not None:` block of a do_math, and the variable that
    receives the epigraph comparison."""
    for n in walk_no_nested(dm.node):
        if isinstance(n, ast.If) and isinstance(n.test, ast.Compare) and \
                is_self_attr(n.test.left, 'obj') and isinstance(n.test.ops[0], ast.IsNot):
            from .common import expand_locals
            for st in n.body:
                # (a temporary for the difference -- epigraph = vars[0] - sign*obj -- is read through)
                if isinstance(st, ast.Assign) and isinstance(st.value, ast.Compare) and \
                        any(is_self_attr(x, 'obj') for x in ast.walk(expand_locals(dm.node, st.value))) and \
                        isinstance(st.targets[0], ast.Name):
                    return n.body, st.targets[0].id
    return None, None


def run(repo):
    res = RuleResult(RULE, 'atom routing is exhaustive', TEXT)
    res.floor = 60
    created = created_letters(repo, res)
    letters = sorted({l for (_k, l) in created})
    if len(letters) < 10:
        raise AnalysisError('only %d atom letters found: extractor blind' % len(letters))
    res.notes.append('created letters: ' + ' '.join('%s:%s' % (k.split('.')[1], l)
                                                     for (k, l) in sorted(created)))
    # which layer do the front ends instantiate?
    top = repo.cls('gcp.Model')
    ro_init = repo.func('ro.Model.__init__')
    inst = {ntext(n.func) for n in walk_no_nested(ro_init.node) if isinstance(n, ast.Call)}
    front = [n for n in inst if isinstance(repo.resolve_name('ro', n), ClassInfo)]
    if not front or any(repo.resolve_name('ro', n) is not top for n in front):
        raise AnalysisError('ro.Model no longer instantiates gcp.Model only: %s' % front)

    pairs = [(repo.cls(k), l) for (k, l) in sorted(created)] + [(repo.cls(k), None) for k in PLAIN_KINDS]
    # (a)+(b) for each layer as entry point
    for layer_fq in LAYERS:
        layer = repo.cls(layer_fq)
        for kind, letter in pairs:
            label = kind.name + ('/' + letter if letter else '')
            r = route(repo, layer, kind, letter)
            if r[0] == 'raise':
                res.inst({'entry': layer_fq, 'pair': label, 'routed': 'raise'})
                if layer is top:
                    # the top layer must accept everything the package can create
                    res.discharged -= 1
                    res.fail(Finding(RULE, r[1], 'st:' + label,
                                     '%s can be created but %s raises for it' % (label, r[1]),
                                     repo.where(repo.func(r[1]))))
                continue
            if r[0] == 'fallthrough':
                res.inst({'entry': layer_fq, 'pair': label, 'routed': 'fallthrough'}, False)
                res.fail(Finding(RULE, r[1], 'st:' + label,
                                 '%s falls through every branch of %s: accepted but stored nowhere'
                                 % (label, r[1]), repo.where(repo.func(r[1]))))
                continue
            _, owner, name, st_fq = r
            ok, why = lowered(repo, layer, 'self.' + name, kind, letter)
            res.inst({'entry': layer_fq, 'pair': label, 'container': name, 'lowered_by': why,
                      'ok': ok}, ok)
            if not ok:
                res.fail(Finding(RULE, st_fq, 'route:%s->%s' % (label, name),
                                 '%s routes %s to self.%s (entry %s) but it is never lowered: %s'
                                 % (st_fq, label, name, layer_fq, why),
                                 repo.where(repo.func(st_fq))))

    # (c) objective epigraph, entry = the front ends' layer
    for kind, letter in pairs:
        if letter is None:
            continue
        label = kind.name + '/' + letter
        handled = []
        unknown = []
        for c in repo.mro(top):
            dm = c.methods.get('do_math')
            if dm is None:
                continue
            res.functions.add(dm.fq)
            block, var = objective_block(dm)
            if block is None:
                raise AnalysisError('objective epigraph block not found in %s' % dm.fq)
            ctx = Ctx(repo, dm.module, var, kind, letter)
            leaf = dispatch(block, ctx, top_level_skip=True)
            if leaf is None:
                # nothing in this layer's block is reached for this atom -- unless the block routes through a
                # construct the dispatcher does not decide (a loop over (class, list) pairs, a lookup table)
                if any(isinstance(x, (ast.For, ast.While, ast.Dict)) for st_ in block for x in ast.walk(st_)):
                    unknown.append('%s: the objective block routes through a loop / table' % dm.fq)
                continue
            apps = leaf.appends(ctx.vars)
            if not apps:
                unknown.append('%s: the statements reached for this atom append it to no list the rule recognises (%s)'
                               % (dm.fq, '; '.join(ntext(s_)[:40] for s_ in leaf.stmts[:2])))
            for lst in apps:
                ok, why = lowered(repo, c, lst, kind, letter, only_func=dm)
                if ok:
                    handled.append('%s via %s' % (dm.fq, lst))
        ok = bool(handled)
        if not ok and unknown:
            raise AnalysisError('R05: objective of atom %s: %s' % (label, unknown[0]))
        res.inst({'objective': label, 'handled_by': handled, 'ok': ok}, ok)
        if not ok:
            res.fail(Finding(RULE, 'gcp.Model.do_math', 'objective:' + label,
                             'an objective of atom %s is accepted by min()/max() but no layer\'s '
                             'epigraph block routes it to a loop with a branch for it: the '
                             'objective is compiled to nothing' % label,
                             repo.where(repo.func('gcp.Model.do_math'))))

    # (d) shadowed isinstance branches in the dispatching functions
    for fq in ['lp.Model.st', 'socp.Model.st', 'gcp.Model.st', 'ro.Model.st', 'dro.Model.st',
               'lp.Model.do_math', 'socp.Model.do_math', 'gcp.Model.do_math', 'ro.Model.do_math',
               'dro.Model.do_math', 'dro.Model.ro_to_roc', 'dro.Model.dro_to_roc',
               'lp.DecAffine.__le__', 'lp.DecAffine.__ge__']:
        fi = repo.func(fq)
        res.functions.add(fq)
        seen_if = set()
        nchains = 0
        for n in walk_no_nested(fi.node):
            if isinstance(n, ast.If) and id(n) not in seen_if:
                cur = n
                while True:          # mark the elif chain
                    seen_if.add(id(cur))
                    if len(cur.orelse) == 1 and isinstance(cur.orelse[0], ast.If):
                        cur = cur.orelse[0]
                    else:
                        break
                vars_ = {t.args[0].id for t in [x for x in ast.walk(n.test)]
                         if isinstance(t, ast.Call) and isinstance(t.func, ast.Name)
                         and t.func.id == 'isinstance' and len(t.args) == 2
                         and isinstance(t.args[0], ast.Name)}
                for v in vars_:
                    nchains += 1
                    for sub, sup, t_prev, t_here in shadowed_branches(repo, fi.module, n, v):
                        res.fail(Finding(RULE, fq, 'shadowed:%s after %s' % (sub, sup),
                                         'branch `%s` can never be taken: %s is a subclass of %s, '
                                         'tested earlier in `%s`' % (t_here, sub, sup, t_prev),
                                         repo.where(fi, n)))
        res.inst({'shadow_check': fq, 'chains': nchains})

    # (e) classes accepted by the front ends are handled by their do_math
    _front_end(repo, res, 'ro')
    _front_end(repo, res, 'dro')
    return res


def _accepted_classes(repo, st, universe):
    """Classes for which st()'s per-item dispatch ends in an append to self.all_constr."""
    loop = None
    for n in walk_no_nested(st.node):
        if isinstance(n, ast.For) and isinstance(n.iter, ast.Name) and n.iter.id == (st.vararg or ''):
            loop = n
            break
    if loop is None:
        raise AnalysisError('%s: per-argument loop not found' % st.fq)
    var = loop.target.id
    acc = []
    for k in universe:
        ctx = Ctx(repo, st.module, var, k, None)
        leaf = dispatch(loop.body, ctx)
        if leaf is None or leaf.raises():
            continue
        txt = ' '.join(ntext(s) for s in leaf.stmts)
        if 'self.all_constr.append' in txt or 'self.all_constr.extend' in txt:
            acc.append(k)
    return acc


def _front_end(repo, res, mod):
    st = repo.func(mod + '.Model.st')
    dm = repo.func(mod + '.Model.do_math')
    res.functions.update([st.fq, dm.fq])
    universe = [c for c in repo.module('lp').classes.values()
                if c.name.endswith('Constr') or c.name in ('Bounds', 'DecBounds', 'IPCone')]
    acc = _accepted_classes(repo, st, universe)
    if len(acc) < 5:
        raise AnalysisError('%s accepts only %d classes: extractor blind' % (st.fq, len(acc)))
    from .common import expand_locals as _xl
    loops = [n for n in walk_no_nested(dm.node) if isinstance(n, ast.For) and
             _mentions(_xl(dm.node, n.iter), 'self.all_constr')]
    if len(loops) != 1:
        raise AnalysisError('%s: expected one loop over self.all_constr, found %d' % (dm.fq, len(loops)))
    loop = loops[0]
    if mod == 'dro':
        # an expectation of a piecewise function is one constraint (sup_P E[max_k a_k] <= t): st() must store the
        # ExpPWConstr object itself.  Stored piece by piece it becomes max_k sup_P E[a_k] <= t, which is weaker.
        epw = repo.module('lp').classes.get('ExpPWConstr')
        st_loop = None
        for n in walk_no_nested(st.node):
            if isinstance(n, ast.For) and isinstance(n.iter, ast.Name) and n.iter.id == (st.vararg or ''):
                st_loop = n
                break
        if epw is None or st_loop is None:
            raise AnalysisError('dro.Model.st: ExpPWConstr / per-argument loop not found')
        ctx0 = Ctx(repo, st.module, st_loop.target.id, epw, None)
        leaf0 = dispatch(st_loop.body, ctx0)
        if leaf0 is None:
            raise AnalysisError('dro.Model.st: no statements reached for an ExpPWConstr')
        txt0 = ' '.join(ntext(s_) for s_ in leaf0.stmts[:3])
        first0 = ntext(leaf0.stmts[0]) if leaf0.stmts else ''
        whole = ('self.all_constr.append(%s)' % st_loop.target.id) in txt0
        # evidence of a split: the first statement reached for an ExpPWConstr extends the list by its pieces
        pieces = first0.replace(' ', '') in ('self.all_constr.extend(%s.pieces)' % st_loop.target.id,
                                             'self.all_constr+=%s.pieces' % st_loop.target.id)
        if not whole and not pieces and not leaf0.raises():
            raise AnalysisError('dro.Model.st: what is stored for an ExpPWConstr (`%s`) is not interpreted' % txt0[:60])
        res.inst({'front_end': 'dro', 'ExpPWConstr stored whole': whole}, whole)
        if not whole:
            res.fail(Finding(RULE, st.fq, 'ExpPWConstr split into its pieces',
                             'dro.Model.st stores an expectation-of-piecewise constraint piece by piece (`%s`): each piece '
                             'is then dualised on its own, i.e. max_k sup_P E[a_k] <= t instead of sup_P E[max_k a_k] <= t'
                             % txt0[:60], repo.where(st, st_loop), {'props': ['C04', 'C03', 'C06']}))
    for k in acc:
        if k.name in ('PWConstr',):
            # pieces are re-submitted one by one (ro) / extended into all_constr (dro)
            continue
        ctx = Ctx(repo, dm.module, loop.target.id, k, None)
        leaf = dispatch(loop.body, ctx)
        ok = leaf is not None and leaf.nontrivial()
        detail = {'front_end': mod, 'accepted': k.name, 'handled': ok}
        if ok and mod == 'dro' and not leaf.raises():
            # follow the delegation into ro_to_roc / dro_to_roc
            targets = {cn for cn, _ in _all_delegates(leaf.stmts, loop.target.id) if cn != 'isinstance'}
            detail['delegates'] = sorted(targets)
            if 'self.ro_to_roc' in targets:
                r2 = repo.func('dro.Model.ro_to_roc')
                res.functions.add(r2.fq)
                inner = [n for n in walk_no_nested(r2.node) if isinstance(n, ast.For)]
                if not inner:
                    raise AnalysisError('ro_to_roc: scenario loop not found')
                ctx2 = Ctx(repo, 'dro', r2.params[1], k, None)
                leaf2 = dispatch(inner[0].body, ctx2, top_level_skip=True)
                detail['ro_to_roc'] = ('raise' if leaf2 is not None and leaf2.raises() else
                                       'handled' if leaf2 is not None else 'fallthrough')
                if leaf2 is None:
                    ok = False
        res.inst(detail, ok)
        if not ok:
            res.fail(Finding(RULE, dm.fq, 'accepted-unhandled:' + k.name,
                             '%s accepts %s but the loop in %s has no branch for it: the constraint '
                             'is silently dropped' % (st.fq, k.name, dm.fq), repo.where(dm, loop)))


def _all_delegates(stmts, var):
    out = []
    for st in stmts:
        for n in ast.walk(st):
            if isinstance(n, ast.Call) and any(isinstance(a, ast.Name) and a.id == var for a in n.args):
                out.append((call_name(n), n))
    return out
