"""R21 export and table coverage; sense-code agreement.

(a) LinProg.lp_export reads obj, linear, sense, const, lb, ub, vtype; the `General` section is
    emitted for the columns selected by vtype == 'I', the `Binary` section for vtype == 'B'.
(b) SOCProg.lp_export reads qmat and writes, per cone, the squares of q[1:] with `+` and the
    square of q[0] with `-`.
(c) show() of each program class reaches showlc and every cone table of its class and prints
    ub, lb and vtype.
(d) Sense code: every comparison of a sense value with a literal 0/1, in every consumer, treats
    1 as equality and 0 as `<=` (variable naming eq/ineq, or the two branches it selects).
"""
import ast

from .common import (AnalysisError, Finding, RuleResult, ntext, walk_no_nested, is_self_attr, call_name,
                     body_stmts)

RULE = 'R21'
TEXT = ('the LP-format writer and the show() tables cover every field of the program; every '
        'consumer reads sense 1 as equality and 0 as inequality')
P = {'props': ['C16']}


def _str_consts(node):
    return [n.value for n in ast.walk(node) if isinstance(n, ast.Constant) and isinstance(n.value, str)]


def run(repo):
    res = RuleResult(RULE, 'export and table coverage', TEXT)
    res.floor = 30
    # (a)
    fi = repo.func('lp.LinProg.lp_export')
    res.functions.add(fi.fq)
    reads = {n.attr for n in ast.walk(fi.node) if is_self_attr(n)}          # nested helper functions included
    for f in ('obj', 'linear', 'sense', 'const', 'lb', 'ub', 'vtype'):
        ok = f in reads
        res.inst({'lp_export reads': f, 'ok': ok}, ok)
        if not ok:
            res.fail(Finding(RULE, fi.fq, 'never reads self.' + f,
                             'lp_export never reads self.%s: the written file cannot describe that '
                             'part of the program' % f, repo.where(fi), P))
    def derived_from(letter):
        """locals computed (transitively) from the comparison self.vtype == letter"""
        names = set()
        for n in walk_no_nested(fi.node):
            if isinstance(n, ast.Assign) and any(
                    isinstance(c, ast.Compare) and is_self_attr(c.left, 'vtype')
                    and isinstance(c.comparators[0], ast.Constant) and c.comparators[0].value == letter
                    for c in ast.walk(n.value)):
                for t in n.targets:
                    names |= {x.id for x in ast.walk(t) if isinstance(x, ast.Name)}
        for _ in range(6):
            grew = False
            for n in walk_no_nested(fi.node):
                if isinstance(n, ast.Assign) and any(isinstance(x, ast.Name) and x.id in names for x in ast.walk(n.value)):
                    for t in n.targets:
                        for x in ast.walk(t):
                            if isinstance(x, ast.Name) and isinstance(x.ctx, ast.Store) and x.id not in names:
                                names.add(x.id)
                                grew = True
            if not grew:
                break
        return names
    par_ = {}
    for n in ast.walk(fi.node):
        for c in ast.iter_child_nodes(n):
            par_[id(c)] = n
    for letter, section in (('I', 'General'), ('B', 'Binary')):
        other_letter, other = ('B', 'Binary') if section == 'General' else ('I', 'General')
        lits = {c.comparators[0].value for c in walk_no_nested(fi.node) if isinstance(c, ast.Compare) and
                is_self_attr(c.left, 'vtype') and isinstance(c.comparators[0], ast.Constant)}
        mine, theirs = derived_from(letter), set()
        for l_ in lits - {letter}:
            theirs |= derived_from(l_)          # the other section's selection, or a misspelt letter
        only_mine, only_theirs = mine - theirs, theirs - mine
        ok = False
        wrong = None
        # every statement that writes the section header, with the tests it sits under
        writers = [n for n in walk_no_nested(fi.node) if isinstance(n, (ast.Assign, ast.AugAssign, ast.Expr))
                   and any(section in c for c in _str_consts(n))]
        if not writers:
            raise AnalysisError('lp_export: no statement writes the `%s` section' % section)
        for w in writers:
            tests = []
            cur = w
            while id(cur) in par_:
                p_ = par_[id(cur)]
                if isinstance(p_, ast.If):
                    tests.append(p_)
                cur = p_
            tnames = {x.id for t_ in tests for x in ast.walk(t_.test) if isinstance(x, ast.Name)}
            blk = tests[0].body if tests and any(w is s_ for s_ in tests[0].body) else [w]
            used = {x.id for s_ in blk for x in ast.walk(s_) if isinstance(x, ast.Name)}
            if (tnames & only_mine) and (used & only_mine) and not (used & only_theirs):
                ok = True
            elif not tests:
                pass          # hoisted text, a guard clause, a helper: where the text is finally written is not followed
            elif (tnames & only_theirs) or (used & only_theirs):
                wrong = 'is written for the columns selected by another vtype letter (%s)' % sorted(lits - {letter})
        if not ok and wrong is None:
            raise AnalysisError('lp_export: the `%s` section is written in a form the rule does not follow' % section)
        res.inst({'lp_export section': section, 'selected_by': "vtype == '%s'" % letter, 'ok': ok}, ok)
        if not ok:
            res.fail(Finding(RULE, fi.fq, 'section %s' % section,
                             'lp_export: the `%s` section is not (only) emitted for the columns with '
                             'vtype == \'%s\': it %s' % (section, letter, wrong), repo.where(fi), P))
    # (g) the sign of the leading term: the writer formats every term as '<sign> <abs> x<i>'; dropping the
    #     first two characters of the joined text is only right when they are the '+ ' of a positive term
    from rsx.flow import MustFlow as _MF, clauses_of as _clauses_of
    for wf in (fi, repo.func('socp.SOCProg.lp_export')):
        class _Strip(_MF):
            def __init__(self):
                super().__init__()
                self.sites = []

            def visit(self, node, state):
                for x in ast.walk(node):
                    if isinstance(x, ast.Subscript) and isinstance(x.slice, ast.Slice) and x.slice.upper is None and \
                            isinstance(x.slice.lower, ast.Constant) and x.slice.lower.value == 2 and x.slice.step is None:
                        if isinstance(node, ast.Assign) and len(node.targets) == 1 and \
                                isinstance(node.targets[0], (ast.Name, ast.Tuple)) and node.value is not x and \
                                isinstance(node.value, ast.Tuple):
                            raise AnalysisError('%s: `%s` is computed ahead of its use (`%s`); the rule judges the slice '
                                                'where it is taken' % (wf.fq, ntext(x)[:30], ntext(node)[:40]))
                        if isinstance(node, ast.Assign) and node.value is x and len(node.targets) == 1 and \
                                isinstance(node.targets[0], ast.Name) and ntext(node.targets[0]) != ntext(x.value):
                            raise AnalysisError('%s: `%s` is computed ahead of its use (`%s`); the rule judges the slice '
                                                'where it is taken' % (wf.fq, ntext(x)[:30], ntext(node)[:40]))
                        st_here = self.local_state(node, x, state)
                        guarded = any(pol and ("'+ '" in a or "'+'" in a or '"+' in a) for c in _clauses_of(st_here)
                                      if len(c) == 1 for a, pol in c)
                        self.sites.append((x, guarded))
        sf = _Strip()
        sf.run(body_stmts(wf))
        for x, guarded in sf.sites:
            res.inst({'writer': wf.fq, 'leading_sign_strip': ntext(x)[:50], 'only_when_plus': guarded}, guarded)
            if not guarded:
                res.fail(Finding(RULE, wf.fq, 'leading sign stripped unconditionally',
                                 '%s drops the first two characters of `%s` without having tested that they are '
                                 'the `+ ` of a positive leading term: a negative leading coefficient loses its '
                                 'minus sign in the written file' % (wf.fq, ntext(x.value)[:40]), repo.where(wf, x), P))
    # (i) the Subject To section has one line per row of the program, unconditionally: a row without coefficients is
    #     still the constraint 0 <= b_i, which is infeasible for b_i < 0
    rloops = []
    for n in walk_no_nested(fi.node):
        if isinstance(n, ast.For) and 'shape[0]' in ntext(n.iter) and 'linear' in ntext(n.iter):
            rloops.append(n)
    if len(rloops) != 1:
        raise AnalysisError('lp_export: the loop over the rows of self.linear was not found')
    rl = rloops[0]
    def own_jumps(stmts):
        """continue / break statements that leave *this* loop's iteration (not those of loops nested in it)"""
        out = []
        for st_ in stmts:
            if isinstance(st_, (ast.Continue, ast.Break)):
                out.append(st_)
            elif isinstance(st_, (ast.For, ast.While, ast.FunctionDef, ast.AsyncFunctionDef, ast.ClassDef)):
                continue
            else:
                for fld in ('body', 'orelse', 'finalbody'):
                    sub = getattr(st_, fld, None)
                    if isinstance(sub, list):
                        out += own_jumps(sub)
                for h_ in getattr(st_, 'handlers', []):
                    out += own_jumps(h_.body)
        return out
    # only a jump that can be taken before the row's label has been written skips the row
    label_at = None
    for k_, st_ in enumerate(rl.body):
        if any('c{}' in c_.replace(' ', '') or ' c{' in c_ for c_ in _str_consts(st_)):
            label_at = k_
            break
    if label_at is None:
        raise AnalysisError('lp_export: the statement writing the row label ` c<i>:` was not found in the row loop')
    skips = own_jumps(rl.body[:label_at + 1])
    ok = not skips
    res.inst({'lp_export': 'Subject To section', 'one_line_per_row': ok}, ok)
    if not ok:
        res.fail(Finding(RULE, fi.fq, 'constraint rows skipped',
                         'lp_export leaves the loop over the rows early (`%s`) for some rows: a skipped row is missing from '
                         'the file -- also a row without coefficients, which is the constraint 0 <= b_i and makes the '
                         'program infeasible when b_i < 0' % type(skips[0]).__name__.lower(), repo.where(fi, rl), P))
    # (j) every stored coefficient of a row is written: the generator of the `x<j>` terms is not filtered (a filter
    #     on exact zero is the only one that leaves the described program unchanged)
    def _zero_test(t):
        if isinstance(t, ast.Name):
            return True                                   # `if coeff`
        if isinstance(t, ast.Compare) and len(t.ops) == 1 and isinstance(t.ops[0], (ast.NotEq, ast.Eq)):
            sides = [t.left, t.comparators[0]]
            return any(isinstance(s_, ast.Constant) and s_.value in (0, 0.0) and not isinstance(s_.value, bool)
                       for s_ in sides)
        return False
    filt, nterm = [], 0
    for n in ast.walk(ast.Module(body=rl.body, type_ignores=[])):
        if isinstance(n, (ast.ListComp, ast.GeneratorExp)) and any('x{}' in c_ for c_ in _str_consts(n.elt)):
            nterm += 1
            for g_ in n.generators:
                filt += [t for t in g_.ifs if not _zero_test(t)]
        elif isinstance(n, ast.For) and any('x{}' in c_ for c_ in _str_consts(ast.Module(body=n.body, type_ignores=[]))):
            nterm += 1
            for x in ast.walk(ast.Module(body=n.body, type_ignores=[])):
                if isinstance(x, ast.If) and not _zero_test(x.test) and \
                        (own_jumps(x.body) or any('x{}' in c_ for c_ in _str_consts(x))):
                    filt.append(x.test)
    if nterm == 0:
        raise AnalysisError('lp_export: the generator of the `x<j>` terms of a row was not found in the row loop')
    ok = not filt
    res.inst({'lp_export': 'row terms', 'every_stored_coefficient_written': ok}, ok)
    if not ok:
        res.fail(Finding(RULE, fi.fq, 'row coefficients filtered',
                         'lp_export writes a coefficient of a row only when `%s` holds: a stored coefficient that fails '
                         'the test is part of the solved program but missing from the file (only a test against exact '
                         'zero leaves the described program unchanged)' % ntext(filt[0])[:60], repo.where(fi, rl), P))
    # (e) the Bounds section has one line per column, unconditionally
    bloops = []
    for n in walk_no_nested(fi.node):
        if isinstance(n, ast.For):
            strs = ' '.join(_str_consts(ast.Module(body=n.body, type_ignores=[])))
            if '<= x{} <=' in strs.replace('  ', ' '):
                bloops.append(n)
    if len(bloops) != 1:
        raise AnalysisError('lp_export: the loop writing the Bounds section was not found')
    bl = bloops[0]
    cond = [x for x in ast.walk(ast.Module(body=bl.body, type_ignores=[]))
            if isinstance(x, (ast.If, ast.Continue, ast.Break, ast.IfExp))]
    over_all = 'nvar' in ntext(bl.iter) or 'len(' in ntext(bl.iter) or 'shape[1]' in ntext(bl.iter) or \
        (isinstance(bl.iter, ast.Call) and call_name(bl.iter) in ('enumerate', 'zip') and
         any(ntext(a).split('.')[-1] in ('ub', 'lb') for a in bl.iter.args))
    ok = not cond and over_all and any(is_self_attr(x, 'ub') or ntext(x) == 'ub' for x in ast.walk(bl)) \
        and any(is_self_attr(x, 'lb') or ntext(x) == 'lb' for x in ast.walk(bl))
    res.inst({'lp_export': 'Bounds section', 'unconditional_line_per_column': ok}, ok)
    if not ok:
        res.fail(Finding(RULE, fi.fq, 'Bounds section conditional',
                         'lp_export writes the bound line of a column only under a condition (%s): bounds '
                         'the user put on the skipped columns (e.g. on binaries) are missing from the file, '
                         'which then describes a relaxation of the solved program'
                         % (ntext(cond[0])[:50] if cond else 'loop does not range over all columns'),
                         repo.where(fi, bl), P))
    # (b)
    f2 = repo.func('socp.SOCProg.lp_export')
    res.functions.add(f2.fq)
    ok_q = any(is_self_attr(n, 'qmat') for n in walk_no_nested(f2.node))
    loopvar = None
    for n in walk_no_nested(f2.node):
        if isinstance(n, ast.For) and any(is_self_attr(x, 'qmat') for x in ast.walk(n.iter)):
            loopvar = [x.id for x in ast.walk(n.target) if isinstance(x, ast.Name)][-1]
    if loopvar is None:
        raise AnalysisError('SOCProg.lp_export: the loop over self.qmat was not found')
    from .common import single_defs, expand_locals
    qdefs = single_defs(f2.node)

    def qx(e):
        return ntext(expand_locals(f2.node, e, depth=2, defs=qdefs))
    head_sign = tail_sign = None
    for n in walk_no_nested(f2.node):
        pieces, args = None, []
        if isinstance(n, ast.Call) and isinstance(n.func, ast.Attribute) and n.func.attr == 'format':
            pieces, args = ''.join(_str_consts(n.func.value)), list(n.args)
        elif isinstance(n, ast.JoinedStr):
            pieces = ''.join(v.value for v in n.values if isinstance(v, ast.Constant) and isinstance(v.value, str))
            args = [v.value for v in n.values if isinstance(v, ast.FormattedValue)]
        if pieces is not None and any('%s[0]' % loopvar in qx(a) for a in args):
            t = pieces.replace('  ', ' ')
            head_sign = '-' if '- x' in t else '+' if '+ x' in t else head_sign
        if isinstance(n, ast.Call) and isinstance(n.func, ast.Attribute) and n.func.attr == 'join' and n.args:
            if '%s[1:]' % loopvar in qx(n.args[0]):
                js = ''.join(_str_consts(n.func.value))
                tail_sign = '+' if '+' in js else '-' if '-' in js else tail_sign
    if head_sign is None or tail_sign is None:
        raise AnalysisError('SOCProg.lp_export: the text written for the head / tail of a cone was not recognised')
    head_ok, tail_ok = head_sign == '-', tail_sign == '+'
    ok = ok_q and head_ok and tail_ok
    res.inst({'socp lp_export': 'cone rows', 'reads_qmat': ok_q, 'head_negative': head_ok,
              'tail_positive': tail_ok}, ok)
    if not ok:
        res.fail(Finding(RULE, f2.fq, 'quadratic rows',
                         'SOCProg.lp_export must write, for each cone q, + x_j^2 for j in q[1:] and '
                         '- x_{q[0]}^2 (reads qmat: %s, head negative: %s, tail positive: %s)'
                         % (ok_q, head_ok, tail_ok), repo.where(f2), P))
    # (c)
    want = {'lp.LinProg.show': (['showlc'], []),
            'socp.SOCProg.show': (['showlc', 'showqc'], ['ub', 'lb', 'vtype', 'obj']),
            'gcp.GCProg.show': (['showlc', 'showqc', 'showec', 'showlmi'], ['ub', 'lb', 'vtype', 'obj'])}
    for fq, (calls, fields) in want.items():
        f3 = repo.func(fq)
        res.functions.add(fq)
        # the block producers are called directly or handed on as bound methods (self.showqc)
        got_calls = {n.attr for n in walk_no_nested(f3.node) if is_self_attr(n) and n.attr.startswith('show')}
        got_fields = {n.attr for n in walk_no_nested(f3.node) if is_self_attr(n)}
        # super().show(): what the base class's table already includes
        cur_cls, depth_ = f3.cls, 0
        todo = [f3]
        while todo and depth_ < 4:
            fcur = todo.pop()
            depth_ += 1
            for n in walk_no_nested(fcur.node):
                if isinstance(n, ast.Call) and isinstance(n.func, ast.Attribute) and ntext(n.func.value) == 'super()':
                    base_m = repo.resolve_method(fcur.cls, n.func.attr, after=fcur.cls)
                    if base_m is not None:
                        got_calls |= {x.attr for x in walk_no_nested(base_m.node) if is_self_attr(x) and
                                      x.attr.startswith('show')}
                        got_fields |= {x.attr for x in walk_no_nested(base_m.node) if is_self_attr(x)}
                        todo.append(base_m)
        miss = [c for c in calls if c not in got_calls] + [f for f in fields if f not in got_fields]
        ok = not miss
        res.inst({'show': fq, 'missing': miss}, ok)
        for m in miss:
            res.fail(Finding(RULE, fq, 'missing ' + m, '%s no longer includes %s in the table' % (fq, m),
                             repo.where(f3), P))
    for fq, field in (('socp.SOCProg.showqc', 'qmat'), ('gcp.GCProg.showec', 'xmat'), ('gcp.GCProg.showlmi', 'lmi')):
        f4 = repo.func(fq)
        ok = any(is_self_attr(n, field) for n in walk_no_nested(f4.node))
        res.inst({'table': fq, 'reads': field, 'ok': ok}, ok)
        if not ok:
            res.fail(Finding(RULE, fq, 'reads self.' + field, '%s no longer reads self.%s' % (fq, field),
                             repo.where(f4), P))
    # (d) sense codes
    n_cmp = 0
    for fn in repo.all_functions():
        if fn.module in ('deco', 'cpt_solver_bkp'):
            continue
        par = {}
        for n in ast.walk(fn.node):
            for c in ast.iter_child_nodes(n):
                par[id(c)] = n
        for n in walk_no_nested(fn.node):
            if not (isinstance(n, ast.Compare) and len(n.ops) == 1 and isinstance(n.ops[0], ast.Eq)):
                continue
            lt = ntext(n.left)
            c = n.comparators[0]
            if not (('sense' in lt.lower() or lt in ('s',)) and isinstance(c, ast.Constant) and c.value in (0, 1)
                    and not isinstance(c.value, bool)):
                continue
            if lt == 's' and 'sense' not in ntext(par.get(id(n), n)) and 'sense' not in ntext(fn.node)[:4000]:
                continue
            if lt.startswith('constr.sense') or lt.startswith('self.sense') and fn.cls and fn.cls.name not in ('LinProg', 'SOCProg', 'GCProg'):
                pass
            n_cmp += 1
            verdict = _sense_use(n, c.value, par)
            if verdict is None:
                verdict = 'uninterpreted'
                res.notes.append('%s: use of `%s` not interpreted' % (fn.fq, ntext(n)))
            ok = verdict is not False
            res.inst({'function': fn.fq, 'comparison': ntext(n), 'meaning': 'equality' if c.value == 1 else 'inequality',
                      'consistent': verdict}, ok)
            if not ok:
                res.fail(Finding(RULE, fn.fq, 'sense code: ' + ntext(n),
                                 '%s uses `%s` for the %s rows: the package-wide code is 1 = equality, '
                                 '0 = `<=`' % (fn.fq, ntext(n), 'inequality' if c.value == 1 else 'equality'),
                                 repo.where(fn, n), {'props': ['C16', 'C11']}))
    if n_cmp < 15:
        raise AnalysisError('only %d sense comparisons found' % n_cmp)
    return res


EQ_HINT = ('_eq', 'eq_', 'is_eq', 'bool_eq', "'E'", "' = '", '==', "'='", 'equalsTo', 'is_equal', 'np.ones')
INEQ_HINT = ('ineq', "'L'", "' <= '", '<=', "'<'", 'lessThan', 'np.zeros')


def _name_kind(names):
    """'eq' / 'ineq' when the identifier says which rows it holds (by its words), else None"""
    import re as _re
    words = [w for w in _re.split(r'[^a-z]+', names.lower()) if w]
    INEQ = {'ineq', 'leq', 'le', 'lt', 'geq', 'inequality', 'inequalities', 'nineq', 'nleq', 'less', 'ub'}
    EQ = {'eq', 'equal', 'equality', 'equalities', 'neq', 'equals'}
    is_ineq = any(w in INEQ or w.endswith('ineq') or w.endswith('leq') for w in words)
    is_eq = any(w in EQ or (w.endswith('eq') and not w.endswith('ineq') and not w.endswith('leq')) for w in words)
    if is_ineq and not is_eq:
        return 'ineq'
    if is_eq and not is_ineq:
        return 'eq'
    return None


def _sink_kind(par, assign):
    """where the assigned local goes: the keyword it is passed under (A_ub= / b_ub= / A_eq= / b_eq=) says which
    rows it must hold, whatever the local is called"""
    if not (len(assign.targets) == 1 and isinstance(assign.targets[0], ast.Name)):
        return None
    name = assign.targets[0].id
    root = assign
    while id(root) in par:
        root = par[id(root)]
    kinds = set()
    for n in ast.walk(root):
        if isinstance(n, ast.Call):
            for k in n.keywords:
                if k.arg and isinstance(k.value, ast.Name) and k.value.id == name:
                    kd = _name_kind(k.arg)
                    if kd:
                        kinds.add(kd)
    return kinds.pop() if len(kinds) == 1 else None


def _sense_use(cmp_node, value, par):
    """True: consistent; False: inconsistent; None: unknown use."""
    # climb to the statement / IfExp / If that uses the comparison
    cur = cmp_node
    while id(cur) in par:
        p = par[id(cur)]
        if isinstance(p, ast.IfExp) and any(cur is x for x in ast.walk(p.test)):
            tb, fb = ntext(p.body), ntext(p.orelse)
            return _branch_ok(value, tb, fb)
        if isinstance(p, ast.If) and any(cur is x for x in ast.walk(p.test)):
            tb = ' '.join(ntext(s) for s in p.body)
            fb = ' '.join(ntext(s) for s in p.orelse)
            if isinstance(p.test, ast.BoolOp) or 'raise' in tb.lower():
                return True if value in (0, 1) else None
            return _branch_ok(value, tb, fb)
        if isinstance(p, ast.Assign):
            names = ' '.join(ntext(t) for t in p.targets)
            if len(p.targets) == 1 and isinstance(p.targets[0], ast.Tuple) and \
                    isinstance(p.value, ast.Tuple) and len(p.value.elts) == len(p.targets[0].elts):
                for t, v in zip(p.targets[0].elts, p.value.elts):
                    if any(cmp_node is x for x in ast.walk(v)):
                        names = ntext(t)
            kind = _sink_kind(par, p) or _name_kind(names)
            if kind is not None:
                return (value == 1) == (kind == 'eq')
            return None
        if isinstance(p, (ast.Subscript,)) and isinstance(par.get(id(p)), ast.Assign):
            a = par[id(p)]
            if any(p is t or any(p is x for x in ast.walk(t)) for t in a.targets):
                # store under the mask: b_l[bool_eq] = ...
                return True
            names = ' '.join(ntext(t) for t in a.targets)
            kind = _sink_kind(par, a) or _name_kind(names)
            if kind is not None:
                return (value == 1) == (kind == 'eq')
            return None
        if isinstance(p, (ast.Return, ast.Expr)):
            return None
        cur = p
    return None


def _branch_ok(value, tb, fb):
    t_eq = any(h in tb for h in ("'E'", "' = '", "'=='", 'left == ', '== const', 'sense == 1'))
    t_in = any(h in tb for h in ("'L'", "' <= '", "'<='", 'left <= ', '<= const'))
    f_eq = any(h in fb for h in ("'E'", "' = '", "'=='", 'left == ', '== const'))
    f_in = any(h in fb for h in ("'L'", "' <= '", "'<='", 'left <= ', '<= const'))
    if value == 1:
        if t_eq and not t_in and (f_in or not f_eq):
            return True
        if t_in and not t_eq:
            return False
    else:
        if t_in and not t_eq and (f_eq or not f_in):
            return True
        if t_eq and not t_in:
            return False
    return None
