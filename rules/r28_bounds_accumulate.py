"""R28 bound objects accumulate by intersection (order independence; C15, C06, C01).

In lp.Model.do_math (primal) the vectors handed to the program constructor as `ub` / `lb` start
at +inf / -inf and every later store into them comes from the loop over the bound objects and
has the form
        ub[i] = np.minimum(<values>, ub[i])        lb[i] = np.maximum(<values>, lb[i])
(the new value is the meet of the stored value and the old one, with the *same* index on both
sides), selected by btype 'U' / 'L' respectively.  Then several bounds on one variable
intersect, whatever the order they were declared in -- a plain or "vectorised" overwrite makes
the last declared bound win.
"""
import ast

from rsx.ctor import bind_args
from .common import (AnalysisError, Finding, RuleResult, ntext, walk_no_nested, body_stmts,
                     call_name, is_self_attr)

RULE = 'R28'
TEXT = ('in lp.Model.do_math every store into the ub/lb vectors is an intersection with the value '
        'already there (np.minimum for upper bounds under btype U, np.maximum for lower bounds '
        'under btype L, same index on both sides)')
P = {'props': ['C15', 'C06', 'C01']}


def run(repo):
    res = RuleResult(RULE, 'bound objects accumulate by intersection', TEXT)
    res.floor = 4
    fi = repo.func('lp.Model.do_math')
    res.functions.add(fi.fq)
    primal = None
    for st in body_stmts(fi):
        if isinstance(st, ast.If) and ntext(st.test) == 'primal':
            primal = st.body
    if primal is None:
        raise AnalysisError('lp.Model.do_math: primal branch not found')
    mod = ast.Module(body=primal, type_ignores=[])
    ctor = None
    for n in ast.walk(mod):
        if isinstance(n, ast.Call) and ntext(n.func) == 'LinProg':
            ctor = n
    if ctor is None:
        raise AnalysisError('lp.Model.do_math: LinProg(...) not found in the primal branch')
    env = bind_args(repo.func('lp.LinProg.__init__'), ctor)
    from rsx.flow import MustFlow as _MF, holds as _holds
    from .common import single_defs, expand_locals
    fdefs = single_defs(fi.node)
    st_states = {}

    class _F(_MF):
        def visit(self, node, state):
            st_states[id(node)] = state
    _F().run(primal)
    for which, fn, start, btype in (('ub', 'np.minimum', 'np.inf', 'U'), ('lb', 'np.maximum', '-np.inf', 'L')):
        v = env[which]
        if not isinstance(v, ast.Name):
            raise AnalysisError('LinProg(%s=%s): not a variable' % (which, ntext(v)))
        name = v.id
        inits = [n for n in ast.walk(mod) if isinstance(n, ast.Assign) and
                 any(isinstance(t, ast.Name) and t.id == name for t in n.targets)]
        itxt = ntext(expand_locals(fi.node, inits[0].value, defs=fdefs)) if inits else ''
        # -(+inf vector) is the -inf vector: count the minus signs
        if len(inits) == 1 and isinstance(inits[0].value, ast.UnaryOp) and isinstance(inits[0].value.op, ast.USub) \
                and isinstance(inits[0].value.operand, ast.Name):
            # lb = -ub: minus the other vector's initial value
            other = [n for n in ast.walk(mod) if isinstance(n, ast.Assign) and
                     any(isinstance(t, ast.Name) and t.id == inits[0].value.operand.id for t in n.targets)]
            if len(other) == 1:
                itxt = '-(' + ntext(other[0].value) + ')'
        ok_init = len(inits) == 1 and 'inf' in itxt and ((itxt.count('-') % 2 == 1) == (which == 'lb'))
        if inits and len(inits) == 1 and 'inf' not in itxt and not isinstance(inits[0].value, (ast.Call, ast.BinOp, ast.UnaryOp)):
            raise AnalysisError('lp.Model.do_math: initial value of %s (`%s`) not interpreted' % (which, itxt[:40]))
        res.inst({'vector': which, 'initialised': ntext(inits[0].value)[:40] if inits else None, 'ok': ok_init}, ok_init)
        if not ok_init:
            res.fail(Finding(RULE, fi.fq, '%s initial value' % which,
                             'the %s vector must start at %s and be defined once' % (which, start),
                             repo.where(fi), P))
        # names that may denote the same vector: loop targets / assignments whose source mentions it
        aliases = {name}
        for n in ast.walk(mod):
            if isinstance(n, ast.For) and any(isinstance(x, ast.Name) and x.id == name for x in ast.walk(n.iter)):
                aliases |= {x.id for x in ast.walk(n.target) if isinstance(x, ast.Name)}
            if isinstance(n, ast.Assign) and isinstance(n.value, ast.Name) and n.value.id == name:
                aliases |= {t.id for t in n.targets if isinstance(t, ast.Name)}
        stores = [n for n in ast.walk(mod) if isinstance(n, (ast.Assign, ast.AugAssign)) and
                  any(isinstance(t, ast.Subscript) and isinstance(t.value, ast.Name) and t.value.id in aliases
                      for t in (n.targets if isinstance(n, ast.Assign) else [n.target]))]
        # the vectorised intersection  np.minimum.at(ub, idx, values)  is an accepted form
        at_calls = [n for n in ast.walk(mod) if isinstance(n, ast.Call) and call_name(n) == fn + '.at'
                    and n.args and isinstance(n.args[0], ast.Name) and n.args[0].id in aliases]
        for c in at_calls:
            res.inst({'store': ntext(c)[:70], 'ok': True, 'form': 'ufunc.at (unbuffered intersection)'})
        if not stores and not at_calls:
            raise AnalysisError('lp.Model.do_math: no store into %s found' % which)
        par = {}
        for n in ast.walk(mod):
            for c in ast.iter_child_nodes(n):
                par[id(c)] = n
        for st in stores:
            tgt = st.targets[0] if isinstance(st, ast.Assign) else st.target
            val = expand_locals(fi.node, st.value, depth=2, defs=fdefs)
            probs = []
            if isinstance(st, ast.AugAssign):
                probs.append('augmented assignment is not an intersection')
            elif not (isinstance(val, ast.Call) and call_name(val) == fn and len(val.args) == 2):
                other_fn = 'np.maximum' if fn == 'np.minimum' else 'np.minimum'
                if any(ntext(x) == ntext(tgt) for x in ast.walk(val)) and not (
                        isinstance(val, ast.Call) and call_name(val) == other_fn):
                    raise AnalysisError('lp.Model.do_math: `%s` combines the new bound with the stored one '
                                        'in a form the rule does not interpret' % ntext(st)[:60])
                probs.append('the stored value is `%s`, not %s(values, %s)' % (ntext(val)[:40], fn, ntext(tgt)))
            elif not any(ntext(a) == ntext(tgt) for a in val.args):
                probs.append('%s(..) does not take the current `%s` as an argument' % (fn, ntext(tgt)))
            # under the right btype branch, inside a loop over self.bounds
            cur, under, in_loop = st, False, False
            while id(cur) in par:
                p = par[id(cur)]
                if isinstance(p, ast.For):
                    it = expand_locals(fi.node, p.iter, depth=2, defs=fdefs)
                    if any(is_self_attr(x, 'bounds') for x in ast.walk(it)):
                        in_loop = True
                    # a filtered iteration:  for b in [b for b in .. if b.btype == 'U']
                    for g in [g for x in ast.walk(it) if isinstance(x, (ast.ListComp, ast.GeneratorExp))
                              for g in x.generators]:
                        if any("btype == '%s'" % btype in ntext(c) for c in g.ifs):
                            under = True
                cur = p
            stt = st_states.get(id(st))
            if stt is not None and isinstance(tgt.value, ast.Name):
                # the loop variable is the object whose .btype is tested
                for f_ in stt:
                    pass
                from rsx.flow import clauses_of
                for c in clauses_of(stt):
                    if len(c) == 1:
                        a, pol = next(iter(c))
                        if pol and a.endswith(".btype == '%s'" % btype):
                            under = True
            if not under:
                probs.append("not under `btype == '%s'`" % btype)
            if not in_loop:
                probs.append('not inside a loop over self.bounds (one bound object at a time)')
            ok = not probs
            res.inst({'store': ntext(st)[:70], 'ok': ok}, ok)
            for pr in probs:
                res.fail(Finding(RULE, fi.fq, 'store into %s: %s' % (which, pr[:40]),
                                 'lp.Model.do_math: `%s`: %s; two bound objects on the same variable '
                                 'then no longer intersect (the result depends on declaration order)'
                                 % (ntext(st)[:60], pr), repo.where(fi, st), P))
    return res
