"""R39 the compact SOC-dual layout needs unit coefficients (C08).

socp.Model.do_math(primal=False) builds the dual of a second-order cone program in one of two layouts.  The *compact*
one takes, for every cone variable, the multiplier of the single LP-dual row in which that variable occurs as the
member of the dual cone; it is chosen when each cone variable occurs in exactly one row
(`len(block.data) + 1 == len(block.indptr)`).  That identification is the dual only if the coefficient in that row is
exactly 1 -- with norm(z) <= 1.5, or norm(2*z) <= 1, the row carries another coefficient and the compact program has
another optimum than minus the primal's (4.1213 against -3.4142 on the tree before the fix).  The general layout with
explicit slack columns has no such assumption.

T: the test that selects the compact layout also establishes that every stored coefficient of the block equals 1
(a conjunct `(block.data == 1).all()` in any spelling the condition clauses normalise).
"""
import ast

from rsx.flow import clauses
from .common import (AnalysisError, Finding, RuleResult, ntext, walk_no_nested, primal_dual_arms, expand_locals,
                     single_defs)

RULE = 'R39'
TEXT = ('the compact layout of the SOC dual is selected only when every cone variable occurs in exactly one row AND with '
        'coefficient 1')
P = {'props': ['C08']}


def run(repo):
    res = RuleResult(RULE, 'compact SOC-dual layout needs unit coefficients', TEXT)
    res.floor = 1
    fi = repo.func('socp.Model.do_math')
    res.functions.add(fi.fq)
    arms = primal_dual_arms(fi)
    if not arms:
        raise AnalysisError('socp.Model.do_math: primal / dual arms not found')
    defs = single_defs(fi.node)
    sel = []
    for st in arms[1]:
        for n in ast.walk(st):
            if isinstance(n, ast.If):
                t = n.test                      # (judged as written: the block is named by a local)
                txt = ntext(t)
                if '.indptr' in txt and '.data' in txt and 'len(' in txt:
                    sel.append((n, t))
    if len(sel) != 1:
        raise AnalysisError('socp.Model.do_math: the test selecting the compact dual layout '
                            '(len(block.data) + 1 == len(block.indptr)) was not found')
    node, test = sel[0]
    block = None
    for x in ast.walk(test):
        if isinstance(x, ast.Attribute) and x.attr == 'indptr':
            block = ntext(x.value)
    # what holds where the compact layout is built: the unit clauses of the test being true
    units = [next(iter(c)) for c in clauses(test, True) if len(c) == 1]
    ok = any(pol and a.replace(' ', '') in ('(%s.data==1).all()' % block, 'np.all(%s.data==1)' % block,
                                           'all(%s.data==1)' % block, '(%s.data==1.0).all()' % block)
             for a, pol in units)
    others = [a for a, pol in units if block and (block + '.data') in a and 'len(' not in a]
    if not ok and others:
        raise AnalysisError('socp.Model.do_math: the compact layout is also conditional on `%s`, which the rule does not '
                            'interpret' % others[0][:60])
    res.inst({'function': fi.fq, 'compact layout selected by': ntext(test)[:90], 'requires_unit_coefficients': ok}, ok)
    if not ok:
        res.fail(Finding(RULE, fi.fq, 'compact SOC dual without the unit-coefficient test',
                         'socp.Model.do_math selects the compact dual layout by `%s` alone: that each cone variable occurs '
                         'in one row does not make its coefficient 1, and for any other coefficient (norm(z) <= 1.5) the '
                         'returned program is not the dual -- its optimum is not minus the primal optimum'
                         % ntext(test)[:70], repo.where(fi, node), P))
    return res
