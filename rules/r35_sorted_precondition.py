"""R35 sortedness preconditions of library searches (C08).

np.searchsorted(a, v) / np.digitize(v, bins) / bisect.* return meaningful positions only for a sorted
first sequence.  In the dual constructions indices of dropped rows are counted with such a search
("how many removed rows lie below j"); on a sequence that is merely *collected* -- flat(primal.qmat) lists
each cone as [head, members..] in creation order -- the count is wrong for some layouts only, and the dual
blocks attach to the wrong rows.

T: the searched sequence of every such call is, through single-definition locals, the result of a sorted
producer: np.sort / sorted / np.unique / np.arange / range / np.flatnonzero / np.where(..)[0] /
np.nonzero(..)[0] / np.setdiff1d / np.union1d / np.intersect1d / np.cumsum of a non-negative producer is not
assumed.  Anything else is a finding that names the producer.  The pinned tree has no such call: a built-in
positive and a built-in negative example are analysed on every run.
"""
import ast

from .common import (AnalysisError, Finding, RuleResult, ntext, walk_no_nested, call_name, single_defs,
                     expand_locals)

RULE = 'R35'
TEXT = ('every np.searchsorted / np.digitize / bisect search runs on a sequence produced by a sorting or '
        'inherently ordered operation')
P = {'props': ['C08']}
SEARCH = {'np.searchsorted': 0, 'numpy.searchsorted': 0, 'np.digitize': 1, 'numpy.digitize': 1,
          'bisect.bisect': 0, 'bisect.bisect_left': 0, 'bisect.bisect_right': 0, 'bisect_left': 0,
          'bisect_right': 0, 'bisect.insort': 0}
SORTED_PRODUCERS = ('np.sort', 'numpy.sort', 'sorted', 'np.unique', 'numpy.unique', 'np.arange', 'numpy.arange',
                    'range', 'np.flatnonzero', 'numpy.flatnonzero', 'np.setdiff1d', 'np.union1d', 'np.intersect1d',
                    'numpy.setdiff1d', 'numpy.union1d', 'numpy.intersect1d')

POSITIVE = '''
def f(primal, j):
    idx = np.array(flat(primal.qmat), dtype=int)
    return j - np.searchsorted(idx, j)
'''
NEGATIVE = '''
def g(primal, j):
    idx = np.unique(flat(primal.qmat))
    return j - np.searchsorted(idx, j)
'''


def is_sorted_expr(e, depth=0):
    if depth > 6:
        return False
    if isinstance(e, ast.Call):
        cn = call_name(e)
        if cn in SORTED_PRODUCERS:
            return True
        if cn in ('np.array', 'numpy.array', 'np.asarray', 'numpy.asarray', 'list', 'tuple') and e.args:
            return is_sorted_expr(e.args[0], depth + 1)
        if isinstance(e.func, ast.Attribute) and e.func.attr in ('astype', 'copy', 'flatten', 'ravel', 'tolist'):
            return is_sorted_expr(e.func.value, depth + 1)
        return False
    if isinstance(e, ast.Subscript) and isinstance(e.value, ast.Call) and \
            call_name(e.value) in ('np.where', 'numpy.where', 'np.nonzero', 'numpy.nonzero') and len(e.value.args) == 1:
        return True
    return False


def judge(fn_node):
    """[(call, sequence expression, sorted?)]"""
    out = []
    defs = single_defs(fn_node)
    for n in walk_no_nested(fn_node):
        if isinstance(n, ast.Call):
            cn = call_name(n)
            seq = None
            if cn in SEARCH and len(n.args) > SEARCH[cn]:
                seq = n.args[SEARCH[cn]]
            elif isinstance(n.func, ast.Attribute) and n.func.attr == 'searchsorted' and not cn.startswith(('np.', 'numpy.')):
                seq = n.func.value                   # a.searchsorted(v)
            if seq is None:
                continue
            ex = expand_locals(fn_node, seq, depth=4, defs=defs)
            ok = is_sorted_expr(ex)
            if not ok and isinstance(seq, ast.Name):
                # sorted in place before the search:  idx.sort()
                if any(isinstance(c, ast.Call) and isinstance(c.func, ast.Attribute) and c.func.attr == 'sort' and
                       ntext(c.func.value) == seq.id for c in walk_no_nested(fn_node)):
                    ok = True
            if not ok and any(isinstance(c, ast.Call) and 'cumsum' in call_name(c) for c in ast.walk(ex)):
                raise AnalysisError('R35: `%s` searches a running sum (`%s`), which is sorted only for non-negative '
                                    'terms -- not decided' % (ntext(n)[:40], ntext(ex)[:40]))
            out.append((n, ex, ok))
    return out


def run(repo):
    res = RuleResult(RULE, 'sortedness preconditions of searches', TEXT)
    res.floor = 2
    for fi in repo.all_functions():
        if fi.module in ('deco', 'cpt_solver_bkp'):
            continue
        for call, seq, ok in judge(fi.node):
            res.functions.add(fi.fq)
            res.inst({'function': fi.fq, 'search': ntext(call)[:60], 'sequence': ntext(seq)[:60], 'sorted': ok}, ok)
            if not ok:
                res.fail(Finding(RULE, fi.fq, 'search on an unsorted sequence: ' + ntext(call)[:40],
                                 '%s calls `%s` on `%s`, which is not produced by a sorting or inherently ordered '
                                 'operation: positions returned by a binary search on an unsorted sequence are '
                                 'arbitrary, so indices computed from them point at the wrong rows for some inputs'
                                 % (fi.fq, ntext(call)[:50], ntext(seq)[:50]), repo.where(fi, call), P))
    # the rule's expected count on the pinned tree is zero: both examples must be classified on every run
    pos = judge(ast.parse(POSITIVE).body[0])
    neg = judge(ast.parse(NEGATIVE).body[0])
    if len(pos) != 1 or pos[0][2] or len(neg) != 1 or not neg[0][2]:
        raise AnalysisError('R35 self-test: the built-in examples are not classified as expected')
    res.inst({'self-test': 'positive example flagged'}, True)
    res.inst({'self-test': 'negative example silent'}, True)
    return res
