"""R22 the SOC approximation leaves the rest of the program alone.

In GCProg.to_socp the returned program is GCProg(linear, const, sense, vtype, ub, lb, qmat, [],
lmi, obj).  For every field p the value handed to the constructor is a variable whose every
definition is either `self.p` itself (or a copy of it) or a prefix-preserving extension of the
same variable: np.concatenate((v, ..)), vert_comb(v, ..), v += [...]; xmat is the empty list
(every exponential cone is replaced), lmi is self.lmi.  Hence rows, bounds, types, SOC and LMI
blocks of the exact program are a prefix of the approximated one.  (Not writing `self` is R04.)
Each front end (gcp / ro / dro soc_solve) calls to_socp on its own do_math() result and
forwards `degree` and `cuts`.
"""
import ast

from rsx.ctor import bind_args
from .common import (AnalysisError, Finding, RuleResult, ntext, walk_no_nested, is_self_attr,
                     call_name)

RULE = 'R22'
TEXT = ('to_socp derives each field of its result from the same field of self by '
        'prefix-preserving operations only; soc_solve forwards degree and cuts')
P = {'props': ['C18']}
LIST_FIELDS = {'qmat'}        # python lists: + and += concatenate; on the array fields they add elementwise


def _carries(d, var, field):
    """does the expression use the variable (or self.<field>) as a value -- not merely its length / shape?"""
    skip = set()
    for x in ast.walk(d):
        if isinstance(x, ast.Call) and call_name(x) == 'len':
            skip |= {id(y) for y in ast.walk(x)}
        if isinstance(x, ast.Attribute) and x.attr in ('shape', 'size', 'ndim', 'dtype'):
            skip |= {id(y) for y in ast.walk(x)}
    for x in ast.walk(d):
        if id(x) in skip:
            continue
        if (isinstance(x, ast.Name) and x.id == var) or is_self_attr(x, field):
            return True
    return False


def _listlike(e):
    return isinstance(e, (ast.List, ast.ListComp)) or (isinstance(e, ast.Call) and call_name(e) == 'list')


PREFIX_FIELDS = ['linear', 'const', 'sense', 'vtype', 'ub', 'lb', 'obj', 'qmat']



def _linform(e, env=None, depth=0):
    """integer-linear form of an index expression over names: {(): constant, ('d',): coefficient, ...} or None.
    env maps a name to an expression it stands for (single-definition locals)."""
    env = env or {}
    if isinstance(e, ast.Constant) and isinstance(e.value, (int, float)) and not isinstance(e.value, bool):
        return {(): e.value}
    if isinstance(e, ast.Name):
        if e.id in env and depth < 4:
            return _linform(env[e.id], env, depth + 1)
        return {(e.id,): 1}
    if isinstance(e, ast.UnaryOp) and isinstance(e.op, ast.USub):
        a = _linform(e.operand, env, depth)
        return None if a is None else {k: -v for k, v in a.items()}
    if isinstance(e, ast.BinOp) and isinstance(e.op, (ast.Add, ast.Sub)):
        a, b = _linform(e.left, env, depth), _linform(e.right, env, depth)
        if a is None or b is None:
            return None
        out = dict(a)
        for k, v in b.items():
            out[k] = out.get(k, 0) + (v if isinstance(e.op, ast.Add) else -v)
        return {k: v for k, v in out.items() if v != 0}
    if isinstance(e, ast.BinOp) and isinstance(e.op, ast.Mult):
        a, b = _linform(e.left, env, depth), _linform(e.right, env, depth)
        if a is None or b is None:
            return None
        out = {}
        for k1, v1 in a.items():
            for k2, v2 in b.items():
                k = tuple(sorted(k1 + k2))
                out[k] = out.get(k, 0) + v1 * v2
        return {k: v for k, v in out.items() if v != 0}
    if isinstance(e, ast.Attribute):
        return {(ntext(e),): 1}
    return None


def run(repo):
    res = RuleResult(RULE, 'SOC approximation leaves the rest alone', TEXT)
    res.floor = 12
    fi = repo.func('gcp.GCProg.to_socp')
    res.functions.add(fi.fq)
    from .common import expand_locals
    rets = [n for n in walk_no_nested(fi.node) if isinstance(n, ast.Return) and n.value is not None]
    if len(rets) != 1:
        raise AnalysisError('to_socp: expected a single return')
    call = rets[0].value
    if isinstance(call, ast.Name):
        call = expand_locals(fi.node, call, depth=1)       # prog = Program(..); return prog
    if not isinstance(call, ast.Call):
        raise AnalysisError('to_socp: expected `return <Program>(...)`')
    k = repo.resolve_name('gcp', ntext(call.func))
    if k is None or getattr(k, 'fq', None) not in ('gcp.GCProg', 'socp.SOCProg'):
        raise AnalysisError('to_socp returns %s, not a program constructor' % ntext(call.func))
    env = bind_args(repo.resolve_method(k, '__init__'), call)
    defs = {}
    augs = {}
    for n in walk_no_nested(fi.node):
        if isinstance(n, ast.Assign) and len(n.targets) == 1 and isinstance(n.targets[0], ast.Name):
            defs.setdefault(n.targets[0].id, []).append(n.value)
        elif isinstance(n, ast.AugAssign) and isinstance(n.target, ast.Name):
            augs.setdefault(n.target.id, []).append(n)
    for p in PREFIX_FIELDS:
        v = env.get(p)
        probs = []
        if not isinstance(v, ast.Name):
            if not is_self_attr(v, p):
                probs.append('constructor argument is `%s`' % ntext(v)[:30])
            dl = []
        else:
            dl = defs.get(v.id, [])
            if not dl:
                probs.append('`%s` is never defined' % v.id)
        base = 0
        for d in dl:
            if is_self_attr(d, p):
                base += 1
            elif isinstance(d, ast.Call) and ((call_name(d) in ('list', 'np.array') and d.args and is_self_attr(d.args[0], p))
                                              or (isinstance(d.func, ast.Attribute) and d.func.attr == 'copy'
                                                  and is_self_attr(d.func.value, p))):
                base += 1
            elif isinstance(d, ast.Call) and call_name(d) in ('np.concatenate', 'numpy.concatenate', 'np.hstack') \
                    and d.args and isinstance(d.args[0], (ast.Tuple, ast.List)) and d.args[0].elts \
                    and isinstance(d.args[0].elts[0], ast.Name) and d.args[0].elts[0].id == v.id:
                pass
            elif isinstance(d, ast.Call) and call_name(d) == 'vert_comb' and d.args \
                    and isinstance(d.args[0], ast.Name) and d.args[0].id == v.id:
                pass
            elif p in LIST_FIELDS and isinstance(d, ast.BinOp) and isinstance(d.op, ast.Add) and \
                    isinstance(d.left, ast.Name) and d.left.id == v.id and _listlike(d.right):
                pass                # list concatenation  v = v + [...]
            elif isinstance(d, (ast.List, ast.Tuple)) and len(d.elts) == 1 and isinstance(d.elts[0], ast.Starred) \
                    and is_self_attr(d.elts[0].value, p):
                base += 1           # [*self.p]: a fresh list with the same elements
            elif p in LIST_FIELDS and ((isinstance(d, ast.List) and not d.elts) or
                                       (isinstance(d, ast.Call) and call_name(d) == 'list' and not d.args)) and \
                    any(is_self_attr(a.value, p) for a in augs.get(v.id, [])):
                base += 1           # v = []; v += self.p
            elif p in LIST_FIELDS and isinstance(d, ast.BinOp) and isinstance(d.op, ast.Add) and \
                    isinstance(d.left, ast.Name) and d.left.id == v.id and isinstance(d.right, ast.Name) and \
                    all(_listlike(x) for x in defs.get(d.right.id, [None])):
                pass                # v = v + cones, cones a list built here
            elif is_self_attr(d):
                probs.append('initialised from self.%s, not self.%s' % (d.attr, p))
            elif any(is_self_attr(x) and x.attr in PREFIX_FIELDS and x.attr != p for x in ast.walk(d)) and \
                    not any(is_self_attr(x, p) for x in ast.walk(d)):
                probs.append('defined from another field (`%s`)' % ntext(d)[:50])
            elif not _carries(d, v.id, p):
                probs.append('defined by `%s`, which does not contain the previous content at all (the exact '
                             'program\'s entries are rebuilt, not carried over)' % ntext(d)[:50])
            else:
                raise AnalysisError('to_socp: the %s of the result is defined by `%s`, a form the rule does not '
                                    'interpret' % (p, ntext(d)[:50]))
        if isinstance(v, ast.Name):
            for a in augs.get(v.id, []):
                if not isinstance(a.op, ast.Add) or p not in LIST_FIELDS:
                    probs.append('`%s` is not an extension' % ntext(a)[:40])
            if base != 1 and not probs:
                probs.append('has %d base definitions from self.%s' % (base, p))
        ok = not probs
        res.inst({'field': p, 'variable': ntext(v), 'definitions': [ntext(d)[:50] for d in dl], 'ok': ok}, ok)
        for pr in probs:
            res.fail(Finding(RULE, fi.fq, 'field %s: %s' % (p, pr[:50]),
                             'to_socp: the %s of the approximated program %s; the exact program\'s '
                             '%s must be carried over unchanged as a prefix' % (p, pr, p),
                             repo.where(fi), P))
    xm = env.get('xmat')
    if isinstance(xm, ast.Name):
        # a local: its definitions, and nothing may be put into it
        xdefs = [n.value for n in walk_no_nested(fi.node) if isinstance(n, ast.Assign) and
                 any(isinstance(t, ast.Name) and t.id == xm.id for t in n.targets)]
        grown = [n for n in walk_no_nested(fi.node)
                 if (isinstance(n, ast.Call) and isinstance(n.func, ast.Attribute) and ntext(n.func.value) == xm.id and
                     n.func.attr in ('append', 'extend', 'insert'))
                 or (isinstance(n, ast.AugAssign) and ntext(n.target) == xm.id)]
        if len(xdefs) == 1 and not grown:
            xm = xdefs[0]
        elif not grown and xdefs and all(isinstance(d, (ast.List, ast.Tuple)) and not d.elts for d in xdefs):
            xm = xdefs[0]
    ok = (isinstance(xm, (ast.List, ast.Tuple)) and not xm.elts) or \
        (isinstance(xm, ast.Call) and call_name(xm) in ('list', 'tuple') and not xm.args and not xm.keywords)
    res.inst({'field': 'xmat', 'value': ntext(xm) if xm is not None else None, 'ok': ok}, ok)
    if not ok:
        res.fail(Finding(RULE, fi.fq, 'field xmat', 'to_socp must return a program without '
                         'exponential cones (xmat = []), found `%s`' % ntext(xm)[:30], repo.where(fi), P))
    lm = env.get('lmi')
    ok = lm is not None and (is_self_attr(lm, 'lmi') or
                             (isinstance(lm, ast.Name) and any(is_self_attr(d, 'lmi') for d in defs.get(lm.id, []))
                              and len(defs.get(lm.id, [])) == 1))
    res.inst({'field': 'lmi', 'value': ntext(lm) if lm is not None else None, 'ok': ok}, ok)
    if not ok:
        res.fail(Finding(RULE, fi.fq, 'field lmi', 'to_socp must pass self.lmi through unchanged',
                         repo.where(fi), P))
    # every exp cone is consumed: the loop over self.xmat exists
    loops = [n for n in walk_no_nested(fi.node) if isinstance(n, ast.For) and
             (is_self_attr(n.iter, 'xmat') or
              (isinstance(n.iter, ast.Call) and call_name(n.iter) in ('enumerate', 'zip', 'reversed', 'list', 'tuple') and
               any(is_self_attr(a, 'xmat') for a in n.iter.args)))]
    ok = len(loops) == 1
    res.inst({'loop': 'for xm in self.xmat', 'ok': ok}, ok)
    if not ok:
        res.fail(Finding(RULE, fi.fq, 'loop over self.xmat', 'to_socp no longer iterates over every '
                         'exponential cone of the program', repo.where(fi), P))
    # (h) the heads of the cones the approximation adds are bounded below by zero.  A second-order cone
    #     x0 >= ||x_rest|| is handed to several solvers as the quadratic inequality x0**2 >= sum x_rest**2,
    #     which describes the cone only together with x0 >= 0; to_socp therefore sets lb = 0 on every head
    from .common import pmatch
    comp = [n for n in walk_no_nested(fi.node) if isinstance(n, ast.ListComp) and 'np.array' in ntext(n.elt)
            and any((isinstance(a, ast.AugAssign) and isinstance(a.target, ast.Name) and a.value is n) or
                    (isinstance(a, ast.Assign) and (a.value is n or (isinstance(a.value, ast.BinOp) and a.value.right is n)))
                    for a in walk_no_nested(fi.node))]
    if len(comp) != 1:
        raise AnalysisError('to_socp: the list of cones added per exponential cone was not found')
    st_c, b, _d = pmatch('[list(_lw + _base + np.array([_h, __, __]) + _q * _str) for _q in range(_n)]', comp[0])
    if st_c != 'match':
        raise AnalysisError('to_socp: the added cones `%s` have a form the rule does not interpret' % ntext(comp[0])[:70])
    lbv = env.get('lb')
    ext = None        # the vector appended to lb for every exponential cone
    for d in (defs.get(lbv.id, []) if isinstance(lbv, ast.Name) else []):
        if isinstance(d, ast.Call) and call_name(d) in ('np.concatenate', 'numpy.concatenate', 'np.hstack') and \
                isinstance(d.args[0], (ast.Tuple, ast.List)) and len(d.args[0].elts) == 2 and \
                isinstance(d.args[0].elts[1], ast.Name):
            ext = d.args[0].elts[1].id
    if ext is None:
        raise AnalysisError('to_socp: the lower bounds appended per exponential cone were not found')
    covered = False
    near = []
    unknown0 = []
    for loop in [n for n in walk_no_nested(fi.node) if isinstance(n, ast.For)]:
        for st_ in loop.body:
            if isinstance(st_, ast.Assign) and isinstance(st_.targets[0], ast.Subscript) and \
                    ntext(st_.targets[0].value) == ext and isinstance(st_.value, ast.Constant) and st_.value.value == 0:
                idx = st_.targets[0].slice
                # base + d*stride + head, in any arrangement of the sum / product, with temporaries read through
                from .common import single_defs as _sd22
                env22 = {k_: v_ for k_, v_ in _sd22(fi.node).items()
                         if k_ not in (b['_base'][1], ) and isinstance(loop.target, ast.Name) and k_ != loop.target.id}
                dv = loop.target.id if isinstance(loop.target, ast.Name) else None
                got = _linform(idx, env22)
                want = _linform(ast.parse('%s + %s * %s + %s' % (b['_base'][1], dv or '_', b['_str'][1], b['_h'][1]),
                                          mode='eval').body, env22) if dv else None
                rng_ok = isinstance(loop.iter, ast.Call) and call_name(loop.iter) == 'range' and len(loop.iter.args) == 1 \
                    and _linform(loop.iter.args[0], env22) is not None and \
                    _linform(loop.iter.args[0], env22) == _linform(ast.parse(b['_n'][1], mode='eval').body, env22)
                if got is not None and want is not None and got == want and rng_ok:
                    covered = True
                elif got is None or want is None:
                    unknown0.append(ntext(st_)[:60])
                else:
                    near.append(ntext(st_)[:50] + ' in `for %s in %s`' % (ntext(loop.target), ntext(loop.iter)[:30]))
    # the vectorised spellings:  ext[base + h::stride] = 0   /   ext[base + h + stride * np.arange(n)] = 0
    base_t, str_t, h_t, n_t = b['_base'][1], b['_str'][1], b['_h'][1], b['_n'][1]
    unknown = []
    for st_ in walk_no_nested(fi.node):
        if not (isinstance(st_, ast.Assign) and isinstance(st_.targets[0], ast.Subscript) and
                ntext(st_.targets[0].value) == ext and isinstance(st_.value, ast.Constant) and st_.value.value == 0):
            continue
        idx = st_.targets[0].slice
        if isinstance(idx, ast.Slice):
            lo_ok = idx.lower is not None and _linform(idx.lower) is not None and \
                _linform(idx.lower) == _linform(ast.parse('%s + %s' % (base_t, h_t), mode='eval').body)
            if lo_ok and idx.upper is None and idx.step is not None and ntext(idx.step) == str_t:
                covered = True              # every head from the first one to the end of the block
            elif lo_ok and idx.step is not None and ntext(idx.step) == str_t:
                unknown.append(ntext(st_)[:60])       # an explicit upper end: whether it reaches the last head is not decided
            elif base_t in ntext(idx):
                near.append(ntext(st_)[:50])
        elif base_t in ntext(idx) and 'arange' in ntext(idx):
            okf = pmatch('%s + %s + %s * np.arange(%s)' % (base_t, h_t, str_t, n_t), idx)[0] == 'match' or \
                pmatch('%s + %s * np.arange(%s) + %s' % (base_t, str_t, n_t, h_t), idx)[0] == 'match' or \
                pmatch('%s + np.arange(%s) * %s + %s' % (base_t, n_t, str_t, h_t), idx)[0] == 'match'
            if okf:
                covered = True
            else:
                unknown.append(ntext(st_)[:60])
    # an index vector built first (heads = base + 2 + 3 * np.arange(n); ext[heads] = 0) or merged into another store
    for st_ in walk_no_nested(fi.node):
        if isinstance(st_, ast.Assign) and isinstance(st_.targets[0], ast.Subscript) and \
                ntext(st_.targets[0].value) == ext and isinstance(st_.value, ast.Constant) and st_.value.value == 0 and \
                not covered:
            from .common import expand_locals as _xl22
            it = ntext(_xl22(fi.node, st_.targets[0].slice))
            if 'arange' in it and base_t in it and st_.targets[0].slice is not None and \
                    ntext(st_.targets[0].slice) != it:
                unknown.append(ntext(st_)[:60])
            elif any(isinstance(x_, ast.Name) and x_.id not in (base_t,) and
                     any(base_t in ntext(d_) and ('range' in ntext(d_) or 'arange' in ntext(d_))
                         for d_ in defs.get(x_.id, [])) for x_ in ast.walk(st_.targets[0].slice)):
                unknown.append(ntext(st_)[:60])
    unknown += unknown0
    if not covered and unknown and not near:
        raise AnalysisError('to_socp: the lower bounds of the added cones are set by `%s`, a form the rule does not '
                            'interpret' % unknown[0])
    res.inst({'added cones': ntext(comp[0].elt)[:60], 'heads bounded below by 0': covered}, covered)
    if not covered:
        res.fail(Finding(RULE, fi.fq, 'cone heads without lower bound',
                         'to_socp adds the cones %s (head = first index) but does not set the lower bound 0 on every '
                         'head column (%s + d*%s + %s for d in range(%s))%s: interfaces that pass a cone as '
                         'x0**2 >= sum(x_i**2) then get a non-convex, vacuous constraint'
                         % (ntext(comp[0].elt)[:50], b['_base'][1], b['_str'][1], b['_h'][1], b['_n'][1],
                            '; found ' + '; '.join(near) if near else ''), repo.where(fi, comp[0]), P))
    # (i) the columns added per exponential cone are unbounded above.  The weights that split the scale of a
    #     perspective cone sum to that scale, which may exceed 1: any finite upper bound on the auxiliary block cuts
    #     feasible points of the approximated cone off (or makes the program infeasible).
    ubv = env.get('ub')
    uext = None
    for d in (defs.get(ubv.id, []) if isinstance(ubv, ast.Name) else []):
        if isinstance(d, ast.Call) and call_name(d) in ('np.concatenate', 'numpy.concatenate', 'np.hstack', 'np.append') and \
                d.args and isinstance(d.args[0], (ast.Tuple, ast.List)) and len(d.args[0].elts) == 2:
            uext = d.args[0].elts[1]
    if uext is None:
        raise AnalysisError('to_socp: the upper bounds appended per exponential cone were not found')

    def all_inf(e):
        t = ntext(e).replace(' ', '')
        if isinstance(e, ast.BinOp) and isinstance(e.op, ast.Mult):
            a_, b_ = e.left, e.right
            for x_, y_ in ((a_, b_), (b_, a_)):
                if isinstance(x_, ast.Call) and call_name(x_) in ('np.ones', 'numpy.ones') and \
                        ntext(y_) in ('np.inf', 'numpy.inf', 'math.inf', "float('inf')"):
                    return True
        if isinstance(e, ast.Call) and call_name(e) in ('np.full', 'numpy.full') and len(e.args) >= 2 and \
                ntext(e.args[1]) in ('np.inf', 'numpy.inf', 'math.inf', "float('inf')"):
            return True
        return False
    uprob = None
    if isinstance(uext, ast.Name):
        udefs = defs.get(uext.id, [])
        stores_ = [n for n in walk_no_nested(fi.node) if isinstance(n, (ast.Assign, ast.AugAssign)) and
                   any(isinstance(t_, ast.Subscript) and ntext(t_.value) == uext.id
                       for t_ in (n.targets if isinstance(n, ast.Assign) else [n.target]))]
        if len(udefs) != 1:
            raise AnalysisError('to_socp: the appended upper-bound vector `%s` has %d definitions' % (uext.id, len(udefs)))
        if not all_inf(udefs[0]):
            raise AnalysisError('to_socp: the appended upper-bound vector is built by `%s`, a form the rule does not '
                                'interpret' % ntext(udefs[0])[:50])
        finite = [n for n in stores_ if not (isinstance(n, ast.Assign) and ntext(n.value) in ('np.inf', 'numpy.inf'))]
        if finite:
            uprob = 'sets `%s`' % ntext(finite[0])[:50]
    elif not all_inf(uext):
        raise AnalysisError('to_socp: the appended upper bounds `%s` have a form the rule does not interpret'
                            % ntext(uext)[:50])
    res.inst({'added columns': 'upper bound +inf', 'ok': uprob is None}, uprob is None)
    if uprob is not None:
        res.fail(Finding(RULE, fi.fq, 'finite upper bound on the added columns',
                         'to_socp %s on the auxiliary columns it adds for an exponential cone: they must stay unbounded '
                         'above (the split weights of a perspective cone sum to its scale, which may exceed 1)' % uprob,
                         repo.where(fi), P))
    # front ends
    for fq in ('gcp.Model.soc_solve', 'ro.Model.soc_solve', 'dro.Model.soc_solve'):
        f2 = repo.func(fq)
        res.functions.add(fq)
        calls = [n for n in walk_no_nested(f2.node) if isinstance(n, ast.Call)
                 and isinstance(n.func, ast.Attribute) and n.func.attr == 'to_socp']
        ok = len(calls) == 1
        why = ''
        if ok:
            c = calls[0]
            recv = expand_locals(f2.node, c.func.value, depth=1)      # exact = self.do_math(..); exact.to_socp(..)
            args = [ntext(a) for a in c.args] + ['%s=%s' % (k.arg, ntext(k.value)) for k in c.keywords]
            fwd = (args[:2] == ['degree', 'cuts']) or set(args) == {'degree=degree', 'cuts=cuts'}
            own = isinstance(recv, ast.Call) and ntext(recv.func) == 'self.do_math'
            ok = fwd and own
            why = 'args=%s receiver=%s' % (args, ntext(recv)[:30])
        res.inst({'front_end': fq, 'call': why, 'ok': ok}, ok)
        if not ok:
            res.fail(Finding(RULE, fq, 'to_socp(degree, cuts)',
                             '%s must call self.do_math(..).to_socp(degree, cuts) (found %s)' % (fq, why),
                             repo.where(f2), P))
    return res
