"""R27 scenario / event index discipline in the dro front end (C12, C13, C03).

dro keeps two kinds of per-model sequences: *scenario-indexed* ones (the expanded rules
var_ev_list = rule_var(), Ambiguity.sup_constr) and *event-indexed* ones (a decision's
event_adapt partition, per-event outputs); event_dict() turns a **partition** of the scenarios
into the map scenario -> event position.

(a) Every subscript of a scenario-indexed sequence uses a scenario-typed index: a loop variable
    over range(num_scen), a key of an event_dict, the first member of an event (ev[0] with ev
    ranging over an event_adapt), or a constant; an event-position index (loop variable over
    range(len(event_adapt)), a value of an event_dict) is a violation.  Dually, an event_dict is
    subscripted only by scenario-typed keys.
(b) event_dict(..) and comb_set(..) are only applied to partitions: their arguments derive from
    `event_adapt` attributes (or comb_set results); in particular never from
    exp_constr_indices, whose events may overlap.
(c) In rule_var, the value stored for scenario s (self.var_ev_list[s] = ...) is built from
    self.var_ev_list[s] itself: the bi-affine rule of a scenario wraps that scenario's own
    event-wise constant part.
"""
import ast

from .common import (AnalysisError, Finding, RuleResult, ntext, walk_no_nested, call_name)

RULE = 'R27'
TEXT = ('scenario-indexed sequences (expanded rules, supports) are subscripted by scenario-typed '
        'indices only; event_dict/comb_set are applied to partitions only; each scenario\'s rule '
        'wraps its own constant part')
P = {'props': ['C12', 'C13', 'C03']}
SCAN = ('dro', 'lp')


def _bindings(fi):
    loops = {}      # name -> list of iter exprs
    assigns = {}
    for n in walk_no_nested(fi.node):
        if isinstance(n, ast.For):
            for t in ast.walk(n.target):
                if isinstance(t, ast.Name):
                    loops.setdefault(t.id, []).append((n.target, n.iter))
        elif isinstance(n, (ast.ListComp, ast.GeneratorExp, ast.SetComp, ast.DictComp)):
            for g in n.generators:
                for t in ast.walk(g.target):
                    if isinstance(t, ast.Name):
                        loops.setdefault(t.id, []).append((g.target, g.iter))
        elif isinstance(n, ast.Assign) and len(n.targets) == 1 and isinstance(n.targets[0], ast.Name):
            assigns.setdefault(n.targets[0].id, []).append(n.value)
    return loops, assigns


def _is_num_scen(expr, assigns, depth=0):
    t = ntext(expr)
    if 'num_scen' in t or t in ('nscen', 'ns'):
        if t in ('nscen', 'ns', 'num_scen'):
            vals = assigns.get(t, [])
            return not vals or any('num_scen' in ntext(v) or 'rule_var' in ntext(v) or
                                   (isinstance(v, ast.Call) and call_name(v) == 'len') for v in vals)
        return True
    return False


def _parents(fn):
    par = {}
    for n in ast.walk(fn):
        for c in ast.iter_child_nodes(n):
            par[id(c)] = n
    return par


def scoped_bindings(fi, node, par):
    """loops / assigns restricted to what encloses `node`: the loop bindings of its enclosing
    for-statements and comprehensions (innermost first) and the assignments made inside the
    innermost enclosing loop body (or the whole function when not in a loop)."""
    loops = {}
    scope = None
    cur = node
    while id(cur) in par:
        p = par[id(cur)]
        if isinstance(p, ast.For) and any(cur is s for s in p.body):
            for t in ast.walk(p.target):
                if isinstance(t, ast.Name):
                    loops.setdefault(t.id, []).append((p.target, p.iter))
            if scope is None:
                scope = p
        elif isinstance(p, (ast.ListComp, ast.GeneratorExp, ast.SetComp, ast.DictComp)):
            for g in p.generators:
                for t in ast.walk(g.target):
                    if isinstance(t, ast.Name):
                        loops.setdefault(t.id, []).append((g.target, g.iter))
        cur = p
    for k in loops:
        loops[k] = loops[k][:1]          # innermost binding wins
    assigns = {}
    root = scope if scope is not None else fi.node
    for n in walk_no_nested(root):
        if isinstance(n, ast.Assign) and len(n.targets) == 1 and isinstance(n.targets[0], ast.Name):
            assigns.setdefault(n.targets[0].id, []).append(n.value)
    return loops, assigns


def index_kind(idx, loops, assigns, edicts, depth=0):
    """'scenario' | 'event' | 'members' | 'const' | 'unknown'"""
    if isinstance(idx, ast.Constant):
        return 'const'
    if isinstance(idx, ast.Slice):
        return 'const'
    if isinstance(idx, ast.Subscript):
        base = idx.value
        if isinstance(base, ast.Name) and base.id in edicts:
            return 'event'
        k = index_kind(base, loops, assigns, edicts, depth + 1) if isinstance(base, ast.Name) else 'unknown'
        if k == 'members' and isinstance(idx.slice, ast.Constant):
            return 'scenario'
        return 'unknown'
    if isinstance(idx, ast.Name):
        kinds = set()
        for target, it in loops.get(idx.id, []):
            txt = ntext(it)
            if isinstance(it, ast.Call) and call_name(it) == 'range':
                a = it.args[-1] if len(it.args) <= 2 else it.args[1]
                if isinstance(a, ast.Call) and call_name(a) == 'len' and 'event_adapt' in ntext(a):
                    kinds.add('event')
                elif _is_num_scen(a, assigns):
                    kinds.add('scenario')
                else:
                    kinds.add('unknown')
            elif isinstance(it, ast.Name) and it.id in edicts:
                kinds.add('scenario')            # keys of an event_dict are scenarios
            elif txt.endswith('.event_adapt') or txt == 'event_adapt':
                kinds.add('members')
            elif isinstance(it, ast.Call) and call_name(it) == 'enumerate' and it.args and \
                    'event_adapt' in ntext(it.args[0]) and isinstance(target, ast.Tuple) and \
                    isinstance(target.elts[0], ast.Name) and target.elts[0].id == idx.id:
                kinds.add('event')
            elif isinstance(it, ast.Call) and call_name(it) == 'zip':
                kinds.add('unknown')
            elif 'series_scen' in txt or 'rvecs.index' in txt:
                kinds.add('label')
            else:
                kinds.add('unknown')
        if not kinds and depth < 2:
            for v in assigns.get(idx.id, []):
                kinds.add(index_kind(v, loops, assigns, edicts, depth + 1))
        if len(kinds) == 1:
            return kinds.pop()
        return 'unknown'
    return 'unknown'


def run(repo):
    res = RuleResult(RULE, 'scenario / event index discipline', TEXT)
    res.floor = 10
    n_sub = 0
    for fi in repo.all_functions():
        if fi.module not in SCAN:
            continue
        src = ntext(fi.node)
        if not any(k in src for k in ('rule_var', 'var_ev_list', 'sup_constr', 'event_dict')):
            continue
        loops, assigns = _bindings(fi)
        scen_lists = set()
        edicts = set()
        for nm, vals in assigns.items():
            for v in vals:
                if isinstance(v, ast.Call) and (call_name(v).endswith('.rule_var') or call_name(v) == 'rule_var'):
                    scen_lists.add(nm)
                if isinstance(v, ast.Attribute) and v.attr in ('var_ev_list', 'sup_constr'):
                    scen_lists.add(nm)
                if isinstance(v, ast.Call) and call_name(v) == 'event_dict':
                    edicts.add(nm)
        par = _parents(fi.node)
        for n in walk_no_nested(fi.node):
            if not isinstance(n, ast.Subscript):
                continue
            base = n.value
            is_scen = (isinstance(base, ast.Name) and base.id in scen_lists) or \
                (isinstance(base, ast.Attribute) and base.attr in ('var_ev_list', 'sup_constr'))
            is_edict = isinstance(base, ast.Name) and base.id in edicts
            if not (is_scen or is_edict):
                continue
            sl, sa = scoped_bindings(fi, n, par)
            k = index_kind(n.slice, sl, sa, edicts)
            n_sub += 1
            res.functions.add(fi.fq)
            if is_scen:
                ok = k in ('scenario', 'const', 'unknown', 'label')
                bad_kind = k in ('event', 'members')
            else:
                ok = k in ('scenario', 'unknown', 'const')
                bad_kind = k in ('event', 'members')
            res.inst({'function': fi.fq, 'subscript': ntext(n)[:50],
                      'sequence': 'scenario-indexed' if is_scen else 'event_dict', 'index_kind': k}, not bad_kind)
            if bad_kind:
                res.fail(Finding(RULE, fi.fq, 'index kind: ' + ntext(n)[:50],
                                 '%s subscripts the %s `%s` with `%s`, which is an event position '
                                 '(or an event\'s member list), not a scenario index: the entry of '
                                 'another scenario is read' % (fi.fq, 'scenario-indexed sequence' if is_scen
                                                               else 'scenario->event map', ntext(base),
                                                               ntext(n.slice)), repo.where(fi, n), P))
    if n_sub < 8:
        raise AnalysisError('only %d subscripts of scenario-indexed sequences found' % n_sub)
    # ---------------------------------------------------------------- (f) no per-event memo of per-scenario work
    # scenarios of one event share *decision variables*, not realisations, supports or (after a later
    # adapt()) even the partition an expression was built with: a scenario loop may use event_dict(..)[s]
    # to index the variable layout, but not as the key of a "done already" set / cache that skips or
    # replays the work of a scenario
    for fi in repo.all_functions():
        if fi.module not in SCAN:
            continue
        loops, assigns = _bindings(fi)
        edicts = {nm for nm, vals in assigns.items() for v in vals
                  if isinstance(v, ast.Call) and call_name(v) == 'event_dict'}
        if not edicts:
            continue
        for n in walk_no_nested(fi.node):
            if isinstance(n, ast.Compare) and len(n.ops) == 1 and isinstance(n.ops[0], (ast.In, ast.NotIn)) and \
                    isinstance(n.left, ast.Subscript) and isinstance(n.left.value, ast.Name) and n.left.value.id in edicts:
                res.functions.add(fi.fq)
                res.inst({'function': fi.fq, 'event-keyed membership test': ntext(n)[:60], 'ok': False}, False)
                res.fail(Finding(RULE, fi.fq, 'event-keyed memo: ' + ntext(n)[:50],
                                 '%s tests `%s`: the work of a scenario is skipped or replayed when another scenario '
                                 'of the same event was handled before. Scenarios of one event share decision '
                                 'variables only -- their realisations, supports and (after a later adapt()) the '
                                 'partition itself can differ, so every scenario must be expanded / evaluated'
                                 % (fi.fq, ntext(n)[:60]), repo.where(fi, n), {'props': ['C12', 'C13', 'C03']}))
    # ---------------------------------------------------------------- (g) no under-keyed memo on the model
    # `if k not in self.cache: self.cache[k] = v` in the compile path is only sound when k determines v.  A value
    # computed from the constraint being compiled (a parameter of the function) under a key that is only the scenario
    # index hands the first constraint's support / rule to every later constraint of that scenario.
    for fi in repo.all_functions():
        if fi.module not in SCAN or fi.cls is None:
            continue
        params = set(fi.params[1:]) | set(fi.kwonly)
        if not params:
            continue
        assigns_all = {}
        for n in walk_no_nested(fi.node):
            if isinstance(n, ast.Assign):
                for t in n.targets:
                    for x in ast.walk(t):
                        if isinstance(x, ast.Name) and isinstance(x.ctx, ast.Store):
                            assigns_all.setdefault(x.id, []).append(n.value)
            elif isinstance(n, (ast.For, ast.comprehension)):
                for x in ast.walk(n.target):
                    if isinstance(x, ast.Name):
                        assigns_all.setdefault(x.id, []).append(n.iter)

        def deps(e, seen=None, depth=0):
            seen = seen if seen is not None else set()
            out = set()
            for x in ast.walk(e):
                if isinstance(x, ast.Name) and x.id not in seen:
                    seen.add(x.id)
                    out.add(x.id)
                    if depth < 6:
                        for v in assigns_all.get(x.id, []):
                            out |= deps(v, seen, depth + 1)
            return out
        for n in walk_no_nested(fi.node):
            if not (isinstance(n, ast.If) and isinstance(n.test, ast.Compare) and len(n.test.ops) == 1 and
                    isinstance(n.test.ops[0], (ast.In, ast.NotIn)) and
                    isinstance(n.test.comparators[0], ast.Attribute) and ntext(n.test.comparators[0]).startswith('self.')):
                continue
            cont = ntext(n.test.comparators[0])
            key = n.test.left
            body = n.body if isinstance(n.test.ops[0], ast.NotIn) else n.orelse
            for st_ in ast.walk(ast.Module(body=body, type_ignores=[])):
                if isinstance(st_, ast.Assign) and isinstance(st_.targets[0], ast.Subscript) and \
                        ntext(st_.targets[0].value) == cont and ntext(st_.targets[0].slice) == ntext(key):
                    vdeps, kdeps = deps(st_.value), deps(key)
                    extra = sorted((vdeps & params) - kdeps)
                    ok = not extra
                    res.functions.add(fi.fq)
                    res.inst({'function': fi.fq, 'memo': ntext(st_)[:60], 'key': ntext(key), 'value_also_depends_on': extra,
                              'ok': ok}, ok)
                    if not ok:
                        res.fail(Finding(RULE, fi.fq, 'under-keyed memo: ' + ntext(st_)[:50],
                                         '%s caches `%s` in %s under the key `%s`, but the cached value is computed from '
                                         'the parameter(s) %s of the call: a later call with another constraint / set '
                                         'and the same key gets the first one\'s value'
                                         % (fi.fq, ntext(st_.value)[:40], cont, ntext(key), extra), repo.where(fi, st_),
                                         {'props': ['C03', 'C01', 'C13', 'C12']}))
    # ---------------------------------------------------------------- (h) the compile loops visit every scenario
    # ro_to_roc / dro_to_roc / rule_var write one block of the reformulation per scenario; a loop variable that
    # indexes the per-scenario rule list (drule_list[s]) must range over range(num_scen) on every path -- a loop
    # over "one representative scenario per event" compiles the constraint for that scenario only.
    from rsx.webs import reaching_values as _reach
    from .common import expand_locals as _xl2, single_defs as _sd2
    n_loops = 0
    for fq in ('dro.Model.ro_to_roc', 'dro.Model.dro_to_roc', 'dro.Model.rule_var'):
        fi = repo.func(fq)
        res.functions.add(fq)
        reach = _reach(fi.node)
        sdefs = _sd2(fi.node)

        def full_range(e, depth=0):
            orig = e
            e = _xl2(fi.node, e, defs=sdefs)
            if isinstance(orig, ast.Name) and isinstance(e, ast.Name):
                e = orig                       # (kept by identity: the reaching definitions are keyed by node)
            while isinstance(e, ast.Call) and call_name(e) in ('list', 'tuple') and len(e.args) == 1 and not e.keywords:
                e = e.args[0]                  # list(range(n)) visits what range(n) visits
            t = ntext(e).replace('self.', '')
            if t in ('range(num_scen)', 'range(0, num_scen)', 'range(0, num_scen, 1)'):
                return True
            if t in ('range(len(drule_list))', 'range(len(var_ev_list))', 'range(len(ev_list))'):
                return True                    # one entry per scenario: the list the loop indexes
            if isinstance(e, ast.Call) and call_name(e) == 'enumerate' and e.args:
                return None            # over a per-scenario list: as long as that list is
            if isinstance(e, ast.Name) and depth < 3:
                vals = reach.get(id(e))
                if vals and all(v is not None for v in vals):
                    rs = [full_range(v, depth + 1) for v in vals]
                    if all(r is True for r in rs):
                        return True
                    if any(r is False for r in rs):
                        return False
                return None
            if isinstance(e, ast.Call) and call_name(e) in ('sorted', 'list', 'set', 'np.unique') or \
                    isinstance(e, (ast.ListComp, ast.GeneratorExp, ast.List, ast.Tuple, ast.Subscript)):
                return False           # a selection of scenarios
            return None
        for n in walk_no_nested(fi.node):
            if isinstance(n, ast.For) and isinstance(n.target, ast.Name):
                sv = n.target.id
                indexes_rules = any(isinstance(x, ast.Subscript) and isinstance(x.slice, ast.Name) and x.slice.id == sv and
                                    ntext(x.value).split('.')[-1] in ('drule_list', 'var_ev_list', 'ev_list')
                                    for x in ast.walk(n))
                if not indexes_rules:
                    continue
                n_loops += 1
                verdict = full_range(n.iter)
                if verdict is None:
                    raise AnalysisError('%s: the scenario loop `for %s in %s` ranges over something the rule does not '
                                        'interpret' % (fq, sv, ntext(n.iter)[:40]))
                res.inst({'function': fq, 'scenario loop': ntext(n.iter)[:40], 'all_scenarios': verdict}, verdict)
                if not verdict:
                    res.fail(Finding(RULE, fq, 'scenario loop does not visit every scenario',
                                     '%s writes the per-scenario blocks in `for %s in %s`, which on some path is a '
                                     'selection of scenarios and not range(num_scen): the constraint is compiled for '
                                     'the selected scenarios only and silently dropped for the others'
                                     % (fq, sv, ntext(n.iter)[:40]), repo.where(fi, n),
                                     {'props': ['C06', 'C03', 'C12', 'C13']}))
    if n_loops < 3:
        raise AnalysisError('R27(h): only %d scenario loops over the rule list found' % n_loops)
    # ---------------------------------------------------------------- (b)
    n_calls = 0
    for fi in repo.all_functions():
        if fi.module in ('deco', 'cpt_solver_bkp'):
            continue
        loops, assigns = _bindings(fi)
        for n in walk_no_nested(fi.node):
            if isinstance(n, ast.Call) and call_name(n) in ('event_dict', 'comb_set'):
                n_calls += 1
                res.functions.add(fi.fq)
                for a in n.args:
                    ok = _is_partition(a, fi, assigns, loops)
                    res.inst({'function': fi.fq, 'call': ntext(n)[:60], 'argument': ntext(a)[:40],
                              'is_partition': ok}, ok)
                    if not ok:
                        res.fail(Finding(RULE, fi.fq, '%s(%s)' % (call_name(n), ntext(a)[:40]),
                                         '%s applies %s to `%s`, which is not known to be a partition of '
                                         'the scenarios (an event_adapt or a comb_set result): with '
                                         'overlapping events only the last event containing a scenario '
                                         'survives' % (fi.fq, call_name(n), ntext(a)[:40]),
                                         repo.where(fi, n), P))
    if n_calls < 8:
        raise AnalysisError('only %d event_dict/comb_set calls found' % n_calls)
    # ---------------------------------------------------------------- (e) representation of events
    writers = 0
    for fi in repo.all_functions():
        if fi.module not in SCAN:
            continue
        for n in walk_no_nested(fi.node):
            if isinstance(n, ast.Call) and isinstance(n.func, ast.Attribute) and n.func.attr in ('append', 'extend') \
                    and ntext(n.func.value).endswith('exp_constr_indices') and n.args:
                writers += 1
                from .common import expand_locals
                a = expand_locals(fi.node, n.args[0])

                def plain_list(e):
                    return (isinstance(e, ast.Call) and call_name(e) in ('list', 'sorted')) or \
                        isinstance(e, (ast.List, ast.ListComp))
                ok = plain_list(a)
                if not ok and isinstance(a, ast.Name):
                    # a local assigned once per case: every definition must be a plain list
                    dvals = [x.value for x in walk_no_nested(fi.node) if isinstance(x, ast.Assign) and
                             any(isinstance(t_, ast.Name) and t_.id == a.id for t_ in x.targets)]
                    others = [x for x in walk_no_nested(fi.node)
                              if isinstance(x, (ast.AugAssign, ast.For, ast.comprehension)) and
                              any(isinstance(y, ast.Name) and y.id == a.id and isinstance(y.ctx, ast.Store)
                                  for y in ast.walk(x.target))]
                    ok = bool(dvals) and not others and all(plain_list(expand_locals(fi.node, v)) for v in dvals)
                res.functions.add(fi.fq)
                res.inst({'function': fi.fq, 'event_members_stored_as': ntext(a)[:40], 'plain_list': ok}, ok)
                if not ok:
                    res.fail(Finding(RULE, fi.fq, 'exp_constr_indices element',
                                     '%s stores `%s` as the member set of an expectation event; dro_to_roc '
                                     'tests membership with `s in members` on scenario *positions*, which is '
                                     'only right for a plain list of positions (on a pandas Series `in` tests '
                                     'the labels)' % (fi.fq, ntext(a)[:40]), repo.where(fi, n),
                                     {'props': ['C03', 'C04']}))
    if writers < 1:
        raise AnalysisError('no writer of exp_constr_indices found')
    # ---------------------------------------------------------------- (c)
    rv = repo.func('dro.Model.rule_var')
    res.functions.add(rv.fq)
    stores = [n for n in walk_no_nested(rv.node) if isinstance(n, ast.Assign)
              and isinstance(n.targets[0], ast.Subscript) and ntext(n.targets[0].value) == 'self.var_ev_list']
    if not stores:
        raise AnalysisError('dro.Model.rule_var: no store into self.var_ev_list[s] found')
    for st in stores:
        tgt = ntext(st.targets[0])
        from .common import expand_locals
        ok = any(isinstance(x, ast.Subscript) and ntext(x) == tgt and x is not st.targets[0]
                 for x in ast.walk(expand_locals(rv.node, st.value)))
        if not ok:
            # for s, entry in enumerate(self.var_ev_list): entry is self.var_ev_list[s] as long as the loop body
            # has not stored to it before
            for lp_ in walk_no_nested(rv.node):
                if isinstance(lp_, ast.For) and isinstance(lp_.iter, ast.Call) and call_name(lp_.iter) == 'enumerate' \
                        and lp_.iter.args and isinstance(lp_.target, ast.Tuple) and len(lp_.target.elts) == 2 and \
                        all(isinstance(e, ast.Name) for e in lp_.target.elts) and \
                        any(st is x for x in ast.walk(lp_)):
                    idx_, ent_ = lp_.target.elts[0].id, lp_.target.elts[1].id
                    if '%s[%s]' % (ntext(lp_.iter.args[0]), idx_) == tgt and \
                            any(isinstance(x, ast.Name) and x.id == ent_ for x in ast.walk(st.value)):
                        earlier = [y for y in ast.walk(lp_) if isinstance(y, ast.Assign) and y is not st and
                                   any(ntext(t_).startswith(ntext(lp_.iter.args[0])) for t_ in y.targets)]
                        rebound = [y for y in ast.walk(lp_) if isinstance(y, ast.Name) and y.id in (idx_, ent_) and
                                   isinstance(y.ctx, ast.Store) and not any(y is z for z in ast.walk(lp_.target))]
                        if not earlier and not rebound:
                            ok = True
        res.inst({'rule_var store': ntext(st)[:70], 'wraps_own_entry': ok}, ok)
        if not ok:
            res.fail(Finding(RULE, rv.fq, 'store ' + tgt,
                             'rule_var stores `%s` into %s without building it from %s itself: the '
                             'scenario\'s rule no longer carries its own event-wise constant part '
                             '(decisions of another scenario / event are used)'
                             % (ntext(st.value)[:40], tgt, tgt), repo.where(rv, st), P))
    # ---------------------------------------------------------------- (d) label / value order
    n_series = 0
    for fi in repo.all_functions():
        if fi.module not in SCAN:
            continue
        loops, assigns = _bindings(fi)
        edicts = {nm for nm, vals in assigns.items()
                  if any(isinstance(v, ast.Call) and call_name(v) == 'event_dict' for v in vals)}
        for n in walk_no_nested(fi.node):
            if not (isinstance(n, ast.Call) and call_name(n) == 'pd.Series' and n.args):
                continue
            idx = None
            for k in n.keywords:
                if k.arg == 'index':
                    idx = k.value
            if idx is None:
                continue
            itxt = ntext(idx)
            if isinstance(idx, ast.Name):
                itxt = ' '.join(ntext(v) for v in assigns.get(idx.id, [])) or itxt
            if 'series_scen' not in itxt and '.index' not in itxt:
                continue
            v = n.args[0]
            if not isinstance(v, ast.ListComp):
                continue
            n_series += 1
            res.functions.add(fi.fq)
            it = v.generators[0].iter
            bad = (isinstance(it, ast.Name) and it.id in edicts) or 'event_adapt' in ntext(it)
            res.inst({'function': fi.fq, 'series': ntext(n)[:70], 'values_iterate': ntext(it)[:40],
                      'ordered_by_scenario': not bad}, not bad)
            if bad:
                res.fail(Finding(RULE, fi.fq, 'series order: ' + ntext(it)[:30],
                                 '%s labels a Series with the scenario index (scenario order) but '
                                 'enumerates the values by iterating `%s` (order of appearance in the '
                                 'event partition): values are attached to the wrong scenario labels '
                                 'when events are not declared in scenario order'
                                 % (fi.fq, ntext(it)[:40]), repo.where(fi, n), {'props': ['C12']}))
    if n_series < 2:
        raise AnalysisError('only %d scenario-labelled Series constructions found' % n_series)
    return res


def _is_partition(a, fi, assigns, loops, depth=0):
    t = ntext(a)
    if isinstance(a, ast.Attribute) and a.attr == 'event_adapt':
        return True
    if fi.fq == 'subroutines.comb_set' and isinstance(a, ast.Name) and a.id in fi.params:
        return True
    if isinstance(a, ast.Call) and call_name(a) == 'comb_set':
        return True
    if isinstance(a, ast.Name) and depth < 3:
        vals = [v for v in assigns.get(a.id, []) if not (isinstance(v, ast.Name) and v.id == a.id)]   # x = x: no-op
        if vals:
            return all(_is_partition(v, fi, assigns, loops, depth + 1) or
                       (isinstance(v, ast.Constant) and v.value is None) for v in vals)
        if a.id in fi.params:
            raise AnalysisError('%s: the argument `%s` of event_dict/comb_set comes from a parameter the rule '
                                'does not follow' % (fi.fq, a.id))
        if a.id not in assigns:
            # e.g. a comprehension / generator variable
            raise AnalysisError('%s: the argument `%s` of event_dict/comb_set is not a local the rule follows'
                                % (fi.fq, a.id))
        return False
    if isinstance(a, ast.Starred):
        v = a.value
        if isinstance(v, ast.Name):
            vs = assigns.get(v.id, [])
            if len(vs) == 1 and isinstance(vs[0], (ast.Tuple, ast.List)):
                return all(_is_partition(e, fi, assigns, loops, depth + 1) for e in vs[0].elts)
        raise AnalysisError('%s: starred argument `%s` of event_dict/comb_set not followed' % (fi.fq, t[:30]))
    if isinstance(a, ast.IfExp):
        return _is_partition(a.body, fi, assigns, loops, depth + 1) and _is_partition(a.orelse, fi, assigns, loops, depth + 1)
    if isinstance(a, ast.List) and len(a.elts) == 1:
        from .common import expand_locals
        xa = ntext(expand_locals(fi.node, a))
        if 'range' in xa and 'num_scen' in xa:
            return True          # [list(range(num_scen))]: the trivial partition
    if isinstance(a, ast.Name) and a.id not in assigns:
        # e.g. a comprehension / generator variable: not followed
        raise AnalysisError('%s: the argument `%s` of event_dict/comb_set is not a local the rule follows' % (fi.fq, a.id))
    return False
