"""R33 weight bookkeeping of the inner-product cone tower (C07).

IPCone(x, r, beta) denotes  |x|^sum(beta) <= prod r_i^beta_i.  to_soc() = to_pot() + split():

(a) to_pot pads the weights so that they sum to a power of two:  degree = sum(B);
    pad = 2**ceil(log2(degree)) - degree;  B.append(pad).  The rule checks the *typestate* of the
    weight list: between taking `degree` and handing B to the IPCone constructor, B is not rebound
    and is changed by exactly that one append (so sum(B) = degree + pad = 2**k by construction);
    on the no-padding path B is handed over unchanged; `pad` is that expression of `degree`.
(b) split() halves the degree: with D = sum(beta), H = D // 2, every child cone gets weights that
    sum to H or to D - H, decided symbolically as linear identities over
        P = sum(beta[:index]),  b = beta[index],  T = sum(beta[index+1:]),  D = P + b + T
    from the slice / concatenation expressions in the source (np.cumsum(beta)[index-1] = P; an arm
    `[] if mid == 0 else [mid]` sums to mid; inside `if mid == beta[index]:` b = mid).  The
    rotated cone that joins the children pairs them with the remaining weight: in the
    "one dominant weight" arm  b - mid = H.
Neither clause evaluates anything numerically; what is decided is that the index arithmetic
conserves the total weight, for every weight vector.  The convergence of the recursion and the
exactness of rsocone itself are not decided.
"""
import ast

from .common import (AnalysisError, Finding, RuleResult, MustFlow, ntext, walk_no_nested, body_stmts,
                     call_name, const_num)

RULE = 'R33'
TEXT = ('to_pot pads the weight list exactly once to a power of two; split() hands each child '
        'cone weights summing to half the degree (symbolic linear identities)')
P = {'props': ['C07']}


# ----------------------------------------------------------------------------- linear forms
class Lin(dict):
    """symbol -> coefficient; '' is the constant"""

    def __add__(self, o):
        r = Lin(self)
        for k, v in o.items():
            r[k] = r.get(k, 0) + v
        return r.clean()

    def __sub__(self, o):
        return self + o.scale(-1)

    def scale(self, c):
        return Lin({k: v * c for k, v in self.items()}).clean()

    def clean(self):
        return Lin({k: v for k, v in self.items() if v != 0})

    def subst(self, sym, form):
        if sym not in self:
            return self
        c = self[sym]
        r = Lin({k: v for k, v in self.items() if k != sym})
        return (r + form.scale(c)).clean()

    def text(self):
        if not self:
            return '0'
        return ' + '.join('%s%s' % ('' if v == 1 else '%g*' % v, k or '1') for k, v in sorted(self.items()))


def sym(s):
    return Lin({s: 1})


class Sym:
    """symbolic sums over the weight list `beta` split at `index`"""

    W = 'beta'                            # source text of the weight list in split()

    def __init__(self, fi, defs, extra=None):
        self.fi = fi
        self.defs = defs                  # local name -> defining expression (last before use)
        self.rel = extra or []            # substitutions [(symbol, Lin)]

    def norm(self, f):
        f = f.subst('D', sym('P') + sym('b') + sym('T'))
        for s, form in self.rel:
            f = f.subst(s, form)
        return f

    def value(self, e, depth=0):
        if depth > 8:
            raise AnalysisError('R33: definition chain too deep at `%s`' % ntext(e)[:40])
        k = const_num(e)
        if k is not None:
            return Lin({'': k}).clean()
        t = ntext(e)
        if t == 'degree':
            return sym('D')
        if t in ('degree // 2', 'degree / 2'):
            return sym('H')
        if t == self.W + '[index]':
            return sym('b')
        if t == 'cum[index - 1]':
            cum = self.defs.get('cum')
            if cum is None or ntext(cum) not in ('np.cumsum(%s)' % self.W, 'numpy.cumsum(%s)' % self.W):
                raise AnalysisError('R33: `cum` is not np.cumsum(<weights>)')
            return sym('P')
        if t == 'cum[index]':
            return sym('P') + sym('b')
        if isinstance(e, ast.Name) and e.id in self.defs:
            return self.value(self.defs[e.id], depth + 1)
        if isinstance(e, ast.BinOp) and isinstance(e.op, ast.Add):
            return self.value(e.left, depth + 1) + self.value(e.right, depth + 1)
        if isinstance(e, ast.BinOp) and isinstance(e.op, ast.Sub):
            return self.value(e.left, depth + 1) - self.value(e.right, depth + 1)
        if isinstance(e, ast.UnaryOp) and isinstance(e.op, ast.USub):
            return self.value(e.operand, depth + 1).scale(-1)
        raise AnalysisError('R33: weight expression `%s` is outside the interpreted forms' % t[:50])

    def listsum(self, e, depth=0):
        """symbolic sum of a list-valued expression"""
        if depth > 8:
            raise AnalysisError('R33: definition chain too deep')
        if ntext(e) == self.W:
            return sym('D')
        if isinstance(e, ast.Name) and e.id in self.defs:
            return self.listsum(self.defs[e.id], depth + 1)
        if isinstance(e, ast.List):
            out = Lin()
            for x in e.elts:
                out = out + self.value(x)
            return out
        if isinstance(e, ast.BinOp) and isinstance(e.op, ast.Add):
            return self.listsum(e.left, depth + 1) + self.listsum(e.right, depth + 1)
        if isinstance(e, ast.IfExp):
            # [] if x == 0 else [x]   (either orientation): sums to x in both cases
            t = e.test
            if isinstance(t, ast.Compare) and len(t.ops) == 1 and const_num(t.comparators[0]) == 0:
                a, b = (e.body, e.orelse) if isinstance(t.ops[0], ast.Eq) else (e.orelse, e.body) \
                    if isinstance(t.ops[0], (ast.NotEq, ast.Gt)) else (None, None)
                if a is not None and isinstance(a, ast.List) and not a.elts and isinstance(b, ast.List) \
                        and len(b.elts) == 1 and ntext(b.elts[0]) == ntext(t.left):
                    return self.value(t.left)
            raise AnalysisError('R33: conditional list `%s` not interpreted' % ntext(e)[:50])
        if isinstance(e, ast.Subscript) and ntext(e.value) == self.W and \
                isinstance(e.slice, ast.Slice) and e.slice.step is None:
            lo, hi = e.slice.lower, e.slice.upper
            lo_t = ntext(lo) if lo is not None else None
            hi_t = ntext(hi) if hi is not None else None
            table = {(None, 'index'): sym('P'), (None, 'index + 1'): sym('P') + sym('b'),
                     ('index', None): sym('b') + sym('T'), ('index + 1', None): sym('T'),
                     (None, None): sym('D')}
            if (lo_t, hi_t) in table:
                return table[(lo_t, hi_t)]
        raise AnalysisError('R33: list expression `%s` is outside the interpreted forms' % ntext(e)[:50])


# ----------------------------------------------------------------------------- (a) to_pot
class _Pad(MustFlow):
    """facts: ('deg', B)  degree taken from B, B untouched since;  ('padded', B)  one append(pad)"""

    def __init__(self, wname, pad_ok):
        super().__init__()
        self.w = wname
        self.pad_ok = pad_ok
        self.sites = []

    def transfer(self, node, state):
        w = self.w
        for n in ast.walk(node) if not isinstance(node, ast.stmt) else [node]:
            pass
        # the three spellings of "append the pad":  w.append(p) ; w += [p] ; w = w + [p]
        padded_by = None
        if isinstance(node, ast.AugAssign) and isinstance(node.target, ast.Name) and node.target.id == w and \
                isinstance(node.op, ast.Add) and isinstance(node.value, ast.List) and len(node.value.elts) == 1:
            padded_by = node.value.elts[0]
        if isinstance(node, ast.Assign) and len(node.targets) == 1 and isinstance(node.targets[0], ast.Name) and \
                node.targets[0].id == w and isinstance(node.value, ast.BinOp) and isinstance(node.value.op, ast.Add) and \
                isinstance(node.value.left, ast.Name) and node.value.left.id == w and \
                isinstance(node.value.right, ast.List) and len(node.value.right.elts) == 1:
            padded_by = node.value.right.elts[0]
        if padded_by is not None:
            if isinstance(padded_by, ast.Name) and padded_by.id in self.pad_ok and ('deg', w) in state:
                return (state - {('deg', w)}) | {('padded', w)}
            return frozenset(f for f in state if not (isinstance(f, tuple) and f[1] == w)) | {('dirty', w)}
        # rebinding / mutation of the weight list
        if isinstance(node, ast.Assign):
            for t in node.targets:
                for x in ast.walk(t):
                    if isinstance(x, ast.Name) and x.id == w and isinstance(x.ctx, ast.Store):
                        return frozenset(f for f in state if not (isinstance(f, tuple) and f[1] == w)) | {('rebound', w)}
                    if isinstance(x, ast.Subscript) and isinstance(x.value, ast.Name) and x.value.id == w:
                        return frozenset(f for f in state if not (isinstance(f, tuple) and f[1] == w)) | {('dirty', w)}
            if isinstance(node.value, ast.Call) and call_name(node.value) == 'sum' and node.value.args and \
                    isinstance(node.value.args[0], ast.Name) and node.value.args[0].id == w and \
                    isinstance(node.targets[0], ast.Name) and node.targets[0].id == 'degree':
                return frozenset(f for f in state if not (isinstance(f, tuple) and f[1] == w)) | {('deg', w)}
        if isinstance(node, ast.AugAssign):
            for x in ast.walk(node.target):
                if isinstance(x, ast.Name) and x.id == w:
                    return frozenset(f for f in state if not (isinstance(f, tuple) and f[1] == w)) | {('dirty', w)}
        for c in ast.walk(node):
            if isinstance(c, ast.Call) and isinstance(c.func, ast.Attribute) and isinstance(c.func.value, ast.Name) \
                    and c.func.value.id == w and c.func.attr in ('append', 'extend', 'insert', 'pop', 'remove',
                                                                 'clear', 'sort', 'reverse'):
                if c.func.attr == 'append' and len(c.args) == 1 and isinstance(c.args[0], ast.Name) and \
                        c.args[0].id in self.pad_ok and ('deg', w) in state:
                    return (state - {('deg', w)}) | {('padded', w)}
                return frozenset(f for f in state if not (isinstance(f, tuple) and f[1] == w)) | {('dirty', w)}
        return state

    def visit(self, node, state):
        for c in ast.walk(node):
            if isinstance(c, ast.Call) and isinstance(c.func, ast.Name) and c.func.id == 'IPCone' and len(c.args) == 3:
                self.sites.append((c, state))


def _is_pad_expr(e):
    """int(2 ** np.ceil(np.log2(degree)) - degree)  (int() optional)"""
    if isinstance(e, ast.Call) and call_name(e) == 'int' and len(e.args) == 1:
        e = e.args[0]
    if not (isinstance(e, ast.BinOp) and isinstance(e.op, ast.Sub) and ntext(e.right) == 'degree'):
        return False
    p = e.left
    if not (isinstance(p, ast.BinOp) and isinstance(p.op, ast.Pow) and const_num(p.left) == 2):
        return False
    c = p.right
    return isinstance(c, ast.Call) and call_name(c) in ('np.ceil', 'math.ceil', 'numpy.ceil') and c.args and \
        isinstance(c.args[0], ast.Call) and call_name(c.args[0]) in ('np.log2', 'math.log2', 'numpy.log2') and \
        ntext(c.args[0].args[0]) == 'degree'


def run(repo):
    res = RuleResult(RULE, 'cone tower: weight bookkeeping', TEXT)
    res.floor = 8
    tp = repo.func('lp.IPCone.to_pot')
    sp_ = repo.func('lp.IPCone.split')
    res.functions.update([tp.fq, sp_.fq])

    def rec(fi, desc, ok, msg, node=None):
        res.inst({'function': fi.fq, 'check': desc, 'ok': ok}, ok)
        if not ok:
            res.fail(Finding(RULE, fi.fq, desc, '%s: %s' % (fi.fq, msg), repo.where(fi, node), P))

    # ------------------------------------------------------------------ (a)
    wname = None
    for n in walk_no_nested(tp.node):
        if isinstance(n, ast.Assign) and isinstance(n.value, ast.Call) and call_name(n.value) == 'sum' and \
                n.value.args and isinstance(n.value.args[0], ast.Name) and ntext(n.targets[0]) == 'degree':
            wname = n.value.args[0].id
    if wname is None:
        raise AnalysisError('to_pot: `degree = sum(<weights>)` not found')
    # the padding weight: what is put into the weight list (an expression of degree, read through its temporaries)
    from .common import single_defs, expand_locals
    tdefs = {k: v for k, v in single_defs(tp.node).items() if k != 'degree' and k != wname}
    put = set()
    for n in walk_no_nested(tp.node):
        if isinstance(n, ast.Call) and isinstance(n.func, ast.Attribute) and ntext(n.func.value) == wname and \
                n.func.attr in ('append', 'insert') and n.args and isinstance(n.args[-1], ast.Name):
            put.add(n.args[-1].id)
        if isinstance(n, ast.AugAssign) and ntext(n.target) == wname and isinstance(n.value, ast.List):
            put |= {e.id for e in n.value.elts if isinstance(e, ast.Name)}
        if isinstance(n, ast.Assign) and len(n.targets) == 1 and ntext(n.targets[0]) == wname and \
                isinstance(n.value, ast.BinOp) and isinstance(n.value.right, ast.List):
            put |= {e.id for e in n.value.right.elts if isinstance(e, ast.Name)}
    pads = {}
    for n in walk_no_nested(tp.node):
        if isinstance(n, ast.Assign) and len(n.targets) == 1 and isinstance(n.targets[0], ast.Name) and \
                n.targets[0].id in put:
            pads[n.targets[0].id] = expand_locals(tp.node, n.value, defs={k: v for k, v in tdefs.items()
                                                                          if k != n.targets[0].id})
    good_pads = {k for k, v in pads.items() if _is_pad_expr(v)}
    for k, v in pads.items():
        rec(tp, 'padding %s = 2**ceil(log2(degree)) - degree' % k, k in good_pads,
            'the padding weight `%s = %s` is not the complement of the degree to the next power of two'
            % (k, ntext(v)[:60]), v)
    if not pads:
        raise AnalysisError('to_pot: the padding weight (an expression of degree) was not found')
    fl = _Pad(wname, good_pads)
    fl.run(body_stmts(tp))
    if len(fl.sites) < 2:
        raise AnalysisError('to_pot: expected the padded and the unpadded IPCone(..) construction, found %d'
                            % len(fl.sites))
    for c, st in fl.sites:
        arg = c.args[2]
        if not (isinstance(arg, ast.Name) and arg.id == wname):
            raise AnalysisError('to_pot: IPCone(.., %s) is not built from the weight list `%s`' % (ntext(arg), wname))
        pad_known_pos = any(isinstance(f, tuple) and f[0] == 'cond' and
                            ((f[1] is True and f[2].replace(' ', '') in ('%s>0' % p for p in good_pads)) or
                             (f[1] is False and f[2].replace(' ', '') in ('%s<=0' % p for p in good_pads) or
                              (f[1] is False and f[2].replace(' ', '') in ('%s==0' % p for p in good_pads))))
                            for f in st)
        pad_known_zero = any(isinstance(f, tuple) and f[0] == 'cond' and
                             ((f[1] is False and f[2].replace(' ', '') in ('%s>0' % p for p in good_pads)) or
                              (f[1] is True and f[2].replace(' ', '') in ('%s==0' % p for p in good_pads)) or
                              (f[1] is True and f[2].replace(' ', '') in ('%s<=0' % p for p in good_pads)))
                             for f in st)
        if ('padded', wname) in st:
            ok = True
            why = 'padded once after degree'
        elif ('deg', wname) in st and pad_known_zero:
            ok = True
            why = 'no padding needed (pad == 0), weights untouched since degree'
        else:
            ok = False
            why = 'weights %s' % sorted(str(f) for f in st if isinstance(f, tuple) and f[1] == wname)
        rec(tp, 'weights handed to `%s`' % ntext(c)[:40], ok,
            'the weight list `%s` reaches `%s` in a state (%s) in which its sum is not known to be the power '
            'of two the padding was computed for: the list was changed or rebound after `degree` was taken, or '
            'padded not exactly once' % (wname, ntext(c)[:40], why), c)
        _ = pad_known_pos

    # ------------------------------------------------------------------ (b)
    W = None
    for n in walk_no_nested(sp_.node):
        if isinstance(n, ast.Assign) and ntext(n.targets[0]) == 'degree' and isinstance(n.value, ast.Call) and \
                call_name(n.value) == 'sum' and len(n.value.args) == 1:
            W = ntext(n.value.args[0])
    if W is None:
        raise AnalysisError('split: degree = sum(<weights>) not found (anchor renamed)')
    Sym.W = W
    # the arms of the top-level chain
    chain = None
    for st in body_stmts(sp_):
        if isinstance(st, ast.If):
            chain = st
    if chain is None:
        raise AnalysisError('split: top-level if/elif/else not found')
    arms = []
    cur = chain
    while True:
        arms.append((ntext(cur.test), cur.body))
        if len(cur.orelse) == 1 and isinstance(cur.orelse[0], ast.If):
            cur = cur.orelse[0]
        else:
            if cur.orelse:
                arms.append(('else', cur.orelse))
            break
    n_children = 0
    H = sym('H')
    DmH = sym('P') + sym('b') + sym('T') - sym('H')
    for test, body in arms:
        children = []       # (call, defs at that point, relations)

        def scan(stmts, defs, rel):
            defs = dict(defs)
            for st in stmts:
                if isinstance(st, ast.Assign) and len(st.targets) == 1 and isinstance(st.targets[0], ast.Name):
                    if isinstance(st.value, ast.Call) and isinstance(st.value.func, ast.Name) and \
                            st.value.func.id == 'IPCone':
                        children.append((st.value, dict(defs), list(rel)))
                    defs[st.targets[0].id] = st.value
                elif isinstance(st, ast.If):
                    t = st.test
                    rel_t, rel_f = list(rel), list(rel)
                    if isinstance(t, ast.Compare) and len(t.ops) == 1 and isinstance(t.ops[0], (ast.Eq, ast.NotEq)):
                        if isinstance(t.ops[0], ast.NotEq):
                            rel_t, rel_f = rel_f, rel_t          # the equality holds in the else arm
                        sy = Sym(sp_, {k_: v_ for k_, v_ in defs.items() if not isinstance(v_, tuple)}, rel)
                        try:
                            l, r = sy.value(t.left), sy.value(t.comparators[0])
                            d = sy.norm(l - r)
                            if 'b' in d:
                                # solve d = 0 for b
                                c = d['b']
                                rest = Lin({k: v for k, v in d.items() if k != 'b'}).scale(-1.0 / c)
                                rel_t.append(('b', rest))
                        except AnalysisError:
                            pass
                        if isinstance(t.ops[0], ast.NotEq):
                            rel_t, rel_f = rel_f, rel_t          # back: rel_t belongs to the body
                    d1 = scan(st.body, defs, rel_t)
                    d2 = scan(st.orelse, defs, rel_f)
                    # definitions made in both arms are arm-specific; children were recorded inside
                    for k in set(d1) | set(d2):
                        if d1.get(k) is not d2.get(k):
                            defs.pop(k, None)
                            if k in d1 and k in d2 and not (isinstance(d1[k], tuple) or isinstance(d2[k], tuple)):
                                defs[k] = ('arms', st, d1[k], d2[k], rel_t, rel_f)
                elif isinstance(st, ast.Expr) and isinstance(st.value, ast.Call) and \
                        isinstance(st.value.func, ast.Attribute) and isinstance(st.value.func.value, ast.Name) and \
                        st.value.func.value.id in defs and st.value.func.attr in ('append', 'insert') and \
                        len(st.value.args) == (1 if st.value.func.attr == 'append' else 2) and \
                        not isinstance(defs[st.value.func.value.id], tuple):
                    # lst.append(v) / lst.insert(i, v): for the sum of the weights, lst + [v]
                    nm_ = st.value.func.value.id
                    defs[nm_] = ast.BinOp(left=defs[nm_], op=ast.Add(),
                                          right=ast.List(elts=[st.value.args[-1]], ctx=ast.Load()))
                else:
                    for c in ast.walk(st):
                        if isinstance(c, ast.Call) and isinstance(c.func, ast.Name) and c.func.id == 'IPCone':
                            children.append((c, dict(defs), list(rel)))
                        elif isinstance(c, ast.Call) and isinstance(c.func, ast.Attribute) and \
                                isinstance(c.func.value, ast.Name) and c.func.value.id in defs and \
                                c.func.attr in ('append', 'insert', 'extend', 'pop', 'remove', 'clear', 'sort'):
                            defs[c.func.value.id] = ('opaque', ntext(c)[:40])      # not followed; an error if it is used
            return defs
        # seed definitions from the function prologue
        pro = {}
        for st in body_stmts(sp_):
            if isinstance(st, ast.Assign) and len(st.targets) == 1 and isinstance(st.targets[0], ast.Name):
                pro[st.targets[0].id] = st.value
        scan(body, pro, [])
        for call, defs, rel in children:
            w = call.args[2] if len(call.args) == 3 else None
            if w is None:
                raise AnalysisError('split: IPCone(..) without a weight argument')
            # an arm-specific definition: check both alternatives
            alts = []
            if isinstance(w, ast.Name) and isinstance(defs.get(w.id), tuple) and defs[w.id][0] == 'opaque':
                raise AnalysisError('split: the weight list `%s` is changed by `%s`, a form the rule does not '
                                    'interpret' % (w.id, defs[w.id][1]))
            if isinstance(w, ast.Name) and isinstance(defs.get(w.id), tuple):
                _tag, _st, e1, e2, r1, r2 = defs[w.id]
                alts = [(e1, r1), (e2, r2)]
            else:
                alts = [(w, rel)]
            for e, rl in alts:
                d2 = {k: v for k, v in defs.items() if not isinstance(v, tuple)}
                sy = Sym(sp_, d2, rl)
                total = sy.norm(sy.listsum(e))
                okH = not sy.norm(total - H)
                okD = not sy.norm(total - DmH)
                n_children += 1
                rec(sp_, 'arm `%s`: sum(%s) in {H, D-H}' % (test[:30], ntext(e)[:40]), okH or okD,
                    'in the arm `%s` the child cone `%s` gets weights `%s` whose sum is %s, neither half the degree '
                    '(H = degree//2) nor degree - H: the product of the children no longer has the degree of the '
                    'parent' % (test[:40], ntext(call)[:40], ntext(e)[:50], total.text()), call)
        # the dominant-weight arm: the weight left on right[index] must be H
        for st in ast.walk(ast.Module(body=body, type_ignores=[])):
            if isinstance(st, ast.Assign) and ntext(st.targets[0]) == 'mid' and (W + '[index]') in ntext(st.value) \
                    and 'cum' not in ntext(st.value):
                sy = Sym(sp_, {}, [])
                left_over = sy.norm(sym('b') - sy.value(st.value))
                ok = not sy.norm(left_over - H)
                rec(sp_, 'dominant arm: beta[index] - mid == H', ok,
                    'with mid = %s the weight remaining on right[index] is %s, not half the degree'
                    % (ntext(st.value), left_over.text()), st)
    if n_children < 4:
        raise AnalysisError('split: only %d child weight lists interpreted' % n_children)
    return res
