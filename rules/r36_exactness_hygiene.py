"""R36 exactness hygiene of the encodings (C07, C05, C16).

Three small structural necessary conditions of "the compiled program is the user's model, exactly":

(a) a quantity that was rounded (x.round(k), np.round, round) is a *test* quantity: it may be compared, counted or
    printed, but it never flows into arithmetic that builds an expression, a matrix or a bound -- the tolerance of
    a classification test (is the matrix semidefinite?) must not become the precision of the encoding;
(b) a permutation / selector built for a shape operation of `self` is built from `self` (sp_trans(self)): built
    from an already transposed or reshaped part it is the inverse permutation, which agrees only for square,
    1-D and palindromic shapes;
(c) a per-cone quantity of a ragged cone list (qmat, xmat, lmi) is computed per cone: the length of the first
    cone (len(self.qmat[0])) is not a stride, width or count for the others.
"""
import ast

from .common import (AnalysisError, Finding, RuleResult, ntext, walk_no_nested, call_name)

RULE = 'R36'
TEXT = ('rounded values are only tested, never computed with; permutations for a shape operation are built from the '
        'operand itself; per-cone quantities are not taken from the first cone')

POS_A = '''
def quad(self, qmat):
    vals, vecs = eigh(qmat)
    vals = vals.round(6)
    if all(vals >= 0):
        sign = 1
    root = (vecs * np.sqrt(sign * vals)) @ vecs.T
    return root @ self
'''
NEG_A = '''
def quad(self, qmat):
    vals = eigh(qmat, eigvals_only=True).round(6)
    if all(vals >= 0):
        sign = 1
    return np.real(sqrtm(sign * qmat)) @ self
'''


def _is_round(e):
    return (isinstance(e, ast.Call) and isinstance(e.func, ast.Attribute) and e.func.attr == 'round') or \
        (isinstance(e, ast.Call) and call_name(e) in ('np.round', 'numpy.round', 'np.around', 'numpy.around', 'round',
                                                      'np.rint', 'numpy.rint'))


def rounded_flows(fn_node):
    """[(name, offending use node)] for locals holding a rounded value that are used outside tests / output"""
    rounded = set()
    for n in walk_no_nested(fn_node):
        if isinstance(n, ast.Assign) and len(n.targets) == 1 and isinstance(n.targets[0], ast.Name) and \
                any(_is_round(x) for x in ast.walk(n.value)):
            rounded.add(n.targets[0].id)
    if not rounded:
        return [], rounded
    par = {}
    for n in ast.walk(fn_node):
        for c in ast.iter_child_nodes(n):
            par[id(c)] = n
    bad = []
    ARITH = (ast.Mult, ast.MatMult, ast.Add, ast.Sub, ast.Div, ast.Pow, ast.FloorDiv, ast.Mod)
    COMPUTE = ('np.sqrt', 'numpy.sqrt', 'np.power', 'np.diag', 'numpy.diag', 'np.exp', 'np.log', 'sqrtm', 'np.dot',
               'np.outer', 'np.multiply', 'np.divide', 'np.add', 'np.subtract', 'np.square', 'np.reciprocal')
    for n in walk_no_nested(fn_node):
        if not (isinstance(n, ast.Name) and n.id in rounded and isinstance(n.ctx, ast.Load)):
            continue
        # the first decisive context on the way up: a comparison makes it a test quantity; arithmetic (or a
        # numeric function) makes it part of a computed value
        cur, verdict = n, None
        while id(cur) in par and verdict is None:
            p = par[id(cur)]
            if isinstance(p, ast.Compare):
                verdict = 'test'
            elif isinstance(p, ast.BinOp) and isinstance(p.op, ARITH):
                verdict = 'compute'
            elif isinstance(p, ast.UnaryOp) and isinstance(p.op, ast.USub):
                verdict = 'compute'
            elif isinstance(p, ast.Call) and p.func is not cur and call_name(p) in COMPUTE:
                verdict = 'compute'
            elif isinstance(p, ast.Call) and p.func is not cur and call_name(p) in (
                    'np.sign', 'np.all', 'np.any', 'all', 'any', 'np.greater_equal', 'np.less_equal', 'np.greater',
                    'np.less', 'np.isclose', 'np.allclose', 'np.count_nonzero', 'print', 'len', 'str', 'repr', 'bool',
                    'np.equal', 'np.not_equal', 'min', 'max', 'np.min', 'np.max', 'sorted'):
                verdict = 'test'
            elif isinstance(p, ast.Assign) and len(p.targets) == 1 and isinstance(p.targets[0], ast.Name) and \
                    p.targets[0].id in rounded:
                verdict = 'test'        # re-rounding / renaming of the test quantity itself
            elif isinstance(p, ast.stmt):
                break
            cur = p
        if verdict == 'compute':
            bad.append((n.id, n))
    return bad, rounded


def run(repo):
    res = RuleResult(RULE, 'exactness hygiene of the encodings', TEXT)
    res.floor = 5
    n_round = n_perm = 0
    for fi in repo.all_functions():
        if fi.module in ('deco', 'cpt_solver_bkp') or fi.module.endswith('_solver'):
            continue
        # (a)
        bad, rounded = rounded_flows(fi.node)
        for nm in sorted(rounded):
            n_round += 1
            uses = [u for k, u in bad if k == nm]
            ok = not uses
            res.functions.add(fi.fq)
            res.inst({'function': fi.fq, 'rounded': nm, 'only_tested': ok}, ok)
            if not ok:
                res.fail(Finding(RULE, fi.fq, 'rounded value `%s` used in a computation' % nm,
                                 '%s rounds `%s` (for a tolerance test) and then computes with it: the precision of the '
                                 'test becomes the precision of the encoded expression -- entries below the rounding '
                                 'step vanish and the compiled program is no longer the user\'s' % (fi.fq, nm),
                                 repo.where(fi, uses[0]), {'props': ['C07', 'C05']}))
        # (b)
        if fi.cls is not None:
            for n in walk_no_nested(fi.node):
                if isinstance(n, ast.Call) and call_name(n) == 'sp_trans' and n.args:
                    n_perm += 1
                    ok = ntext(n.args[0]) == 'self'
                    if not ok:
                        from .common import expand_locals as _xl36
                        at = ntext(_xl36(fi.node, n.args[0]))
                        if not any(k_ in at for k_ in ('.T', 'transpose', 'reshape', 'swapaxes')):
                            raise AnalysisError('%s: sp_trans(%s): an argument the rule cannot relate to the shape of '
                                                'self' % (fi.fq, at[:40]))
                    res.functions.add(fi.fq)
                    res.inst({'function': fi.fq, 'permutation': ntext(n)[:40], 'built_from_self': ok}, ok)
                    if not ok:
                        res.fail(Finding(RULE, fi.fq, 'transpose permutation not built from self',
                                         '%s builds the row permutation of the transpose with `%s`; sp_trans derives '
                                         'the permutation from the shape of its argument, so it must be given the '
                                         'operand itself (self) -- from an already transposed part it is the inverse '
                                         'permutation, which is the same only for square / 1-D shapes'
                                         % (fi.fq, ntext(n)[:40]), repo.where(fi, n), {'props': ['C05']}))
        # (c)
        for n in walk_no_nested(fi.node):
            if isinstance(n, ast.Call) and call_name(n) == 'len' and n.args and isinstance(n.args[0], ast.Subscript) and \
                    isinstance(n.args[0].slice, ast.Constant) and n.args[0].slice.value in (0, -1) and \
                    isinstance(n.args[0].value, ast.Attribute) and n.args[0].value.attr in ('qmat', 'xmat', 'lmi'):
                pr_ = {}
                for x_ in ast.walk(fi.node):
                    for c_ in ast.iter_child_nodes(x_):
                        pr_[id(c_)] = x_
                up = pr_.get(id(n))
                as_stride = (isinstance(up, ast.Slice) and up.step is n) or \
                    (isinstance(up, ast.BinOp) and isinstance(up.op, (ast.Mult, ast.FloorDiv, ast.Mod, ast.Div))) or \
                    (isinstance(up, ast.Call) and call_name(up) in ('range', 'np.arange', 'np.reshape') and
                     len(up.args) == 3 and up.args[2] is n)
                if not as_stride:
                    continue            # e.g. the peeled first iteration of a loop over the cones
                res.functions.add(fi.fq)
                res.inst({'function': fi.fq, 'representative cone': ntext(n), 'ok': False}, False)
                res.fail(Finding(RULE, fi.fq, 'first cone as representative: ' + ntext(n),
                                 '%s uses `%s`: the cones of a program have different sizes, so a stride, width or count '
                                 'taken from one of them describes the others wrongly' % (fi.fq, ntext(n)),
                                 repo.where(fi, n), {'props': ['C16', 'C07', 'C18']}))
        # (c2) the same through a vector of per-cone sizes:  sizes = [len(q) for q in X.qmat] ; sizes[0]
    for fi in repo.all_functions():
        if fi.module in ('deco', 'cpt_solver_bkp'):
            continue
        sizes = set()
        for n in walk_no_nested(fi.node):
            if isinstance(n, ast.Assign) and len(n.targets) == 1 and isinstance(n.targets[0], ast.Name):
                for c in ast.walk(n.value):
                    if isinstance(c, (ast.ListComp, ast.GeneratorExp)) and len(c.generators) == 1 and \
                            isinstance(c.elt, ast.Call) and call_name(c.elt) == 'len' and \
                            isinstance(c.generators[0].iter, ast.Attribute) and \
                            c.generators[0].iter.attr in ('qmat', 'xmat', 'lmi'):
                        sizes.add(n.targets[0].id)
        for n in walk_no_nested(fi.node):
            if isinstance(n, ast.Subscript) and isinstance(n.value, ast.Name) and n.value.id in sizes and \
                    isinstance(n.slice, ast.Constant) and n.slice.value == 0 and isinstance(n.ctx, ast.Load):
                pr_ = {}
                for x_ in ast.walk(fi.node):
                    for c_ in ast.iter_child_nodes(x_):
                        pr_[id(c_)] = x_
                up = pr_.get(id(n))
                if not (isinstance(up, ast.BinOp) and isinstance(up.op, (ast.Sub, ast.Add, ast.Mult, ast.FloorDiv, ast.Mod))
                        and any(isinstance(y_, ast.Name) and y_.id in sizes or
                                (isinstance(y_, ast.Call) and 'cumsum' in call_name(y_))
                                for y_ in ast.walk(up.left if up.right is n else up.right))):
                    continue            # combined with nothing that ranges over all cones
                res.functions.add(fi.fq)
                res.inst({'function': fi.fq, 'representative cone size': ntext(n), 'ok': False}, False)
                res.fail(Finding(RULE, fi.fq, 'first cone as representative: ' + ntext(n),
                                 '%s uses `%s`, the size of one cone, in a computation over all cones (`%s` holds one size '
                                 'per cone): offsets, strides or counts derived from it are wrong as soon as the cones '
                                 'differ in size' % (fi.fq, ntext(n), n.value.id), repo.where(fi, n),
                                 {'props': ['C08', 'C16', 'C07', 'C18']}))
    # (d) an "any of the items" flag: initialised to a constant before a loop, switched inside it, read after it.  Inside
    #     the loop it may only be *set* to a constant under a test; an unconditional assignment from the current item
    #     makes the flag describe the last item only.
    n_flags = _sticky_flags(repo, res)
    if n_flags < 1:
        raise AnalysisError('R36(d): no any-of flag found (DecRoAffine.__call__ `sw` expected)')
    if n_round < 1 or n_perm < 2:
        raise AnalysisError('R36: anchors vanished (%d rounded locals, %d sp_trans calls)' % (n_round, n_perm))
    pos, _r = rounded_flows(ast.parse(POS_A).body[0])
    neg, _r2 = rounded_flows(ast.parse(NEG_A).body[0])
    if not pos or neg:
        raise AnalysisError('R36 self-test: the built-in examples are not classified as expected')
    res.inst({'self-test': 'positive example flagged'}, True)
    res.inst({'self-test': 'negative example silent'}, True)
    return res


def _sticky_flags(repo, res):
    n_flags = 0
    for fi in repo.all_functions():
        if fi.module in ('deco', 'cpt_solver_bkp'):
            continue
        body = fi.node.body
        # candidates: name = <bool constant> at some block level, followed later in the same block by a for loop
        def scan(stmts):
            nonlocal n_flags
            for i, st in enumerate(stmts):
                if isinstance(st, ast.Assign) and len(st.targets) == 1 and isinstance(st.targets[0], ast.Name) and \
                        isinstance(st.value, ast.Constant) and isinstance(st.value.value, bool):
                    flag = st.targets[0].id
                    init = st.value.value
                    for j in range(i + 1, len(stmts)):
                        lp = stmts[j]
                        if not isinstance(lp, ast.For):
                            if any(isinstance(x, ast.Name) and x.id == flag and isinstance(x.ctx, ast.Store)
                                   for x in ast.walk(lp)):
                                break
                            continue
                        inner = [x for x in ast.walk(lp) if isinstance(x, ast.Assign) and
                                 any(isinstance(t, ast.Name) and t.id == flag for t in x.targets)]
                        if not inner:
                            continue
                        read_after = any(isinstance(x, ast.Name) and x.id == flag and isinstance(x.ctx, ast.Load)
                                         for later in stmts[j + 1:] for x in ast.walk(later))
                        if not read_after:
                            break
                        loopvars = {x.id for x in ast.walk(lp.target) if isinstance(x, ast.Name)}
                        n_flags += 1
                        bad = None
                        for a in inner:
                            top_level = any(a is s_ for s_ in lp.body)
                            from_item = any(isinstance(x, ast.Name) and x.id in loopvars for x in ast.walk(a.value))
                            if top_level and from_item and not any(
                                    isinstance(x, ast.Name) and x.id == flag for x in ast.walk(a.value)):
                                bad = a
                        ok = bad is None
                        res.functions.add(fi.fq)
                        res.inst({'function': fi.fq, 'any-of flag': flag, 'initial': init, 'only_switched_under_tests': ok}, ok)
                        if not ok:
                            res.fail(Finding(RULE, fi.fq, 'any-of flag `%s` overwritten per item' % flag,
                                             '%s initialises `%s = %s` before a loop, reads it after the loop, and inside the '
                                             'loop assigns it unconditionally from the current item (`%s`): the flag then '
                                             'describes the last item only, not whether any item had the property'
                                             % (fi.fq, flag, init, ntext(bad)[:40]), repo.where(fi, bad),
                                             {'props': ['C12', 'C13']}))
                        break
                for fld in ('body', 'orelse', 'finalbody'):
                    sub = getattr(st, fld, None)
                    if isinstance(sub, list) and not isinstance(st, (ast.FunctionDef, ast.AsyncFunctionDef, ast.ClassDef)):
                        scan(sub)
        scan(body)
    return n_flags
