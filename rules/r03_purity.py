"""R03 expression-constructor purity.

T: in the expression algebra (every class of lp.py except the model / program / solution
classes, the module functions concat/rstack/cstack/vec, math.py, subroutines.py) no function
performs an in-place effect on an object that reaches it through a parameter other than
`self` (or an element of such a parameter); `self` is written only in __init__, in the memo
fields, and in declaration methods.

Accepted idiom: zero extension `M.resize(rows, wider)` guarded by `M.shape[1] < wider`.
"""
import ast

from rsx.access import access
from .common import AnalysisError, Finding, RuleResult, ntext, walk_no_nested
from .r04_formula_readonly import parents, is_zero_extension

RULE = 'R03'
TEXT = ('expression operators and constructors do not write into their operands (objects '
        'reaching them through a parameter); self is written only in __init__, memo fields '
        '(sparray, branches, roaffine, var_coeff) and declaration methods (adapt*, forall, '
        'suppset, exptset, probset)')

NON_EXPRESSION_CLASSES = {'Model', 'LinProg', 'Solution'}
MODULE_FUNCS = {'lp': {'concat', 'rstack', 'cstack', 'vec'}}
MEMO_FIELDS = {'sparray': 'lazily built index array (pure function of shape)',
               'branches': 'bookkeeping of IPCone.split, never read',
               'roaffine': 'DecRule expansion memo (guarded by R10)',
               'var_coeff': 'DecRule expansion memo (guarded by R10)'}
DECLARATION_METHODS = {'adapt', 'evtadapt', 'affadapt', 'forall', 'suppset', 'exptset', 'probset',
                       'assign'}

POSITIVE = '''
class E:
    def __init__(self, pieces):
        for piece in pieces:
            piece.ctype = 'E'
        self.pieces = pieces
'''


_DECL_CACHE = {}


def declaration_like(repo, fi):
    """a declaration method, or a method that is only ever called (inside the package) from declaration
    methods of the same class hierarchy -- the mechanics a declaration method was split into"""
    if fi.name in DECLARATION_METHODS:
        return True
    _DECL_CACHE = repo.__dict__.setdefault('_decl_cache', {})
    key = fi.fq
    if key in _DECL_CACHE:
        return _DECL_CACHE[key]
    _DECL_CACHE[key] = False
    callers = []
    for f2 in repo.all_functions():
        if f2 is fi or f2.module in ('deco', 'cpt_solver_bkp'):
            continue
        for n in walk_no_nested(f2.node):
            if isinstance(n, ast.Call) and isinstance(n.func, ast.Attribute) and n.func.attr == fi.name:
                callers.append(f2)
                break
    ok = bool(callers) and all(declaration_like(repo, c) for c in callers)
    _DECL_CACHE[key] = ok
    return ok


def in_scope(fi):
    if fi.module == 'lp':
        if fi.cls is None:
            return fi.name in MODULE_FUNCS['lp']
        return fi.cls.name not in NON_EXPRESSION_CLASSES
    return fi.module in ('math', 'subroutines')


def violations(repo, fi):
    fa = access(repo, fi)
    par = parents(fi.node)
    out = []
    accepted = []
    for e in fa.effects:
        if e.fresh:
            continue
        if e.kind.startswith('self-attr-store'):
            field = e.kind.split(':')[1]
            if fi.name == '__init__' or field in MEMO_FIELDS or declaration_like(repo, fi):
                continue
            out.append((e, 'writes self.%s outside __init__ / memo fields / declaration methods' % field))
            continue
        p_orig = [o for o in e.origins if o[0].startswith('param:')
                  and not (fi.cls is not None and o[0] == 'param:self')]
        s_orig = [o for o in e.origins if o[0] == 'self']
        if p_orig:
            if is_zero_extension(par, e):
                accepted.append('zero-extension: ' + e.text)
                continue
            out.append((e, 'edits in place an object received through parameter `%s` (%s)'
                        % (p_orig[0][0][6:], '.'.join(p_orig[0]))))
        elif s_orig and fi.name != '__init__' and not declaration_like(repo, fi):
            if is_zero_extension(par, e):
                accepted.append('zero-extension: ' + e.text)
                continue
            field = e.kind.split(':')[1] if e.kind.startswith('attr-store') else None
            if field in MEMO_FIELDS:
                continue
            out.append((e, 'edits in place state reached through self (%s) outside a declaration '
                           'method' % '.'.join(s_orig[0])))
    return out, accepted


def run(repo):
    res = RuleResult(RULE, 'expression-constructor purity', TEXT)
    res.floor = 300
    for fi in repo.all_functions():
        if not in_scope(fi):
            continue
        res.functions.add(fi.fq)
        bad, accepted = violations(repo, fi)
        d = {'function': fi.fq, 'ok': not bad}
        if accepted:
            d['accepted_idioms'] = accepted
        res.inst(d, not bad)
        for e, why in bad:
            res.fail(Finding(RULE, fi.fq, e.text,
                             '%s %s: `%s`. Expression objects are shared by reference, so the '
                             'caller\'s expression changes meaning everywhere else it is used'
                             % (fi.fq, why, e.text), repo.where(fi, e.node)))
    _positive(repo)
    return res


def _positive(repo):
    from rsx.loader import FuncInfo, ClassInfo
    tree = ast.parse(POSITIVE)
    ci = ClassInfo('lp', tree.body[0])
    fi = FuncInfo('lp', ci, tree.body[0].body[0])
    bad, _ = violations(repo, fi)
    if len(bad) != 1:
        raise AnalysisError('R03 self-test: positive example not detected')
