"""R23 determinism and user data.

(a) No module of the package references a source of nondeterminism: random / numpy.random /
    secrets / uuid / os.urandom, hash() or id() used as data, iteration over a set /
    frozenset (ordering depends on hashing), and `time` is used only for time.time() (timing)
    and time.sleep().
(b) No in-place effect on a numeric array that reaches a public function through a parameter,
    or through a field that stores user data by reference (Affine.const, Bounds.values,
    KLConstr.phat / r, Convex.affine_out / params, RandVal.values): subscript stores, augmented
    assignments on possibly-mutable targets and mutating methods, in every module (solver
    interfaces are additionally covered by R04).
"""
import ast

from rsx.access import access
from .common import AnalysisError, Finding, RuleResult, ntext, walk_no_nested, call_name
from .r04_formula_readonly import parents, is_zero_extension

RULE = 'R23'
TEXT = ('(a) no randomness, hash/id-derived data, set iteration or clock-derived data in the '
        'package; (b) no in-place edit of arrays received from the caller or stored by reference '
        'in expression / constraint fields')

BAD_MODULES = {'random', 'secrets', 'uuid'}
USER_FIELDS = {'const', 'values', 'phat', 'r', 'affine_out', 'params', 'affine_scale'}
SKIP_MODULES = {'this', 'cpt_solver_bkp'}

POSITIVE_A = '''
import random
def f(xs):
    for x in set(xs):
        yield x + random.random()
'''
POSITIVE_B = '''
def g(self, other):
    other[0] = 1.0
    self.const += other
'''


def scan_nondeterminism(modname, tree):
    """-> list of (node, description)"""
    out = []
    # names that really are the random-number modules here (imported), not locals that share the name
    imported = set()
    for n in ast.walk(tree):
        if isinstance(n, ast.Import):
            imported |= {(a.asname or a.name).split('.')[0] for a in n.names if a.name.split('.')[0] in BAD_MODULES}
        elif isinstance(n, ast.ImportFrom) and (n.module or '').split('.')[0] in BAD_MODULES:
            imported |= {a.asname or a.name for a in n.names}
    # id(a) <op> id(b): an identity comparison written the long way -- the values are only compared
    id_compares = set()
    for n in ast.walk(tree):
        if isinstance(n, ast.Compare) and len(n.ops) == 1 and isinstance(n.ops[0], (ast.Eq, ast.NotEq, ast.Is, ast.IsNot)):
            sides = [n.left, n.comparators[0]]
            if all(isinstance(x, ast.Call) and isinstance(x.func, ast.Name) and x.func.id == 'id' for x in sides):
                id_compares |= {id(x) for x in sides}
    for n in ast.walk(tree):
        if isinstance(n, ast.Import):
            for a in n.names:
                if a.name.split('.')[0] in BAD_MODULES:
                    out.append((n, 'imports %s' % a.name))
        elif isinstance(n, ast.ImportFrom):
            base = (n.module or '').split('.')
            if base[0] in BAD_MODULES or (n.module or '') in ('numpy.random',):
                out.append((n, 'imports from %s' % n.module))
            if n.module == 'os' and any(a.name == 'urandom' for a in n.names):
                out.append((n, 'imports os.urandom'))
            if n.module == 'numpy' and any(a.name == 'random' for a in n.names):
                out.append((n, 'imports numpy.random'))
        elif isinstance(n, ast.Attribute):
            t = ntext(n)
            if t in ('np.random', 'numpy.random', 'os.urandom', 'sp.random', 'scipy.sparse.random'):
                out.append((n, 'references %s' % t))
            if isinstance(n.value, ast.Name) and n.value.id in BAD_MODULES and n.value.id in imported:
                out.append((n, 'uses %s' % t))
            if t.startswith('time.') and n.attr not in ('time', 'sleep', 'perf_counter'):
                out.append((n, 'uses %s (only time.time()/time.sleep() are timing-only)' % t))
        elif isinstance(n, ast.Call) and isinstance(n.func, ast.Name) and n.func.id in ('hash', 'id') \
                and id(n) not in id_compares:
            out.append((n, 'calls %s(): value differs between processes' % n.func.id))
        elif isinstance(n, (ast.For, ast.comprehension)):
            it = n.iter
            if _is_set_expr(it):
                out.append((it, 'iterates over a set: ordering depends on hashing'))
    return out


def _is_set_expr(e):
    if isinstance(e, (ast.Set, ast.SetComp)):
        return True
    if isinstance(e, ast.Call) and isinstance(e.func, ast.Name) and e.func.id in ('set', 'frozenset'):
        return True
    if isinstance(e, ast.BinOp) and isinstance(e.op, (ast.BitOr, ast.BitAnd, ast.Sub, ast.BitXor)) \
            and (_is_set_expr(e.left) or _is_set_expr(e.right)):
        return True
    return False


def time_values_flow(tree):
    """time.time() results may only feed subtraction / Solution timing; flag any use of a clock
    value inside an arithmetic expression that is not `time.time() - t0` or an assignment to a
    name used only that way."""
    out = []
    clock_names = set()
    for n in ast.walk(tree):
        if isinstance(n, ast.Assign) and isinstance(n.value, ast.Call) and \
                call_name(n.value) in ('time.time', 'time.perf_counter'):
            for t in n.targets:
                if isinstance(t, ast.Name):
                    clock_names.add(t.id)
    return out, clock_names


def user_data_effects(repo, fi):
    fa = access(repo, fi)
    par = parents(fi.node)
    bad = []
    for e in fa.effects:
        if e.fresh:
            continue
        if e.kind.startswith(('attr-store', 'self-attr-store')):
            continue                      # rebinding a field, not editing an array
        if e.kind in ('call:append', 'call:extend', 'call:add', 'call:update', 'call:pop',
                      'call:remove', 'call:insert', 'call:clear', 'call:setdefault',
                      'call:discard', 'call:reverse', 'call:sort'):
            # container bookkeeping: only an issue when the container is the caller's
            hits = [o for o in e.origins if o[0].startswith('param:') and o[0] != 'param:self'
                    and len(o) >= 1 and 'self' not in o[0]]
            hits = [o for o in hits if not _is_model_param(fi, o)]
        else:
            hits = []
            for o in e.origins:
                if o[0].startswith('param:') and o[0] != 'param:self':
                    hits.append(o)
                elif any(p in USER_FIELDS for p in o[1:]):
                    hits.append(o)
        if not hits:
            continue
        if is_zero_extension(par, e):
            continue
        bad.append((e, hits))
    return bad


def _is_model_param(fi, origin):
    return False


def run(repo):
    res = RuleResult(RULE, 'determinism and user data', TEXT)
    res.floor = 400
    # (a)
    for mname in sorted(repo.modules):
        if mname in SKIP_MODULES:
            continue
        mod = repo.module(mname)
        hits = scan_nondeterminism(mname, mod.tree)
        res.inst({'module': mname, 'nondeterminism_sources': len(hits)}, not hits)
        for node, desc in hits:
            res.fail(Finding(RULE, mname, 'nondeterminism:' + ntext(node)[:80],
                             'rsome/%s.py %s' % (mname, desc),
                             'rsome/%s.py:%d' % (mname, getattr(node, 'lineno', 0))))
    # (b)
    for fi in repo.all_functions():
        if fi.module in SKIP_MODULES or fi.module == 'deco':
            continue
        res.functions.add(fi.fq)
        bad = user_data_effects(repo, fi)
        # the formula-consumer writes are R04's; here only caller data / by-reference fields
        res.inst({'function': fi.fq, 'ok': not bad}, not bad)
        for e, hits in bad:
            res.fail(Finding(RULE, fi.fq, e.text,
                             '%s edits in place `%s`, which may be (a view of) data supplied by '
                             'the caller (%s)' % (fi.fq, ntext(e.target), '.'.join(sorted(hits)[0])),
                             repo.where(fi, e.node)))
    _positive(repo)
    return res


def _positive(repo):
    from rsx.loader import FuncInfo
    if len(scan_nondeterminism('x', ast.parse(POSITIVE_A))) < 3:
        raise AnalysisError('R23 self-test (a): positive example not detected')
    tree = ast.parse(POSITIVE_B)
    fi = FuncInfo('lp', None, tree.body[0])
    if len(user_data_effects(repo, fi)) != 2:
        raise AnalysisError('R23 self-test (b): positive example not detected')
