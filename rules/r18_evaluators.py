"""R18 evaluator branch laws (Convex.__call__, DecConvex.__call__).

Every branch of the xtype chain evaluates   lead * multiplier^d * sign * g(value_in) + value_out
with
  (a) value_out added exactly once on every path of the branch;
  (b) lead = the sign the atom is *created* with (s0, read from the creation sites
      Convex(.., 'L', -1) etc.): the object denotes (sign / s0) * multiplier^d * f with f the
      atom's natural function g, so the evaluator must compute s0 * sign * multiplier^d * g;
  (c) d = 2 for the letters Convex.__mul__ scales by |c|**0.5, d = 1 for the others (read from
      Convex.__mul__);
  (d) a letter without a branch raises (final else).
"""
import ast

from rsx.ctor import bind_args
from .common import (AnalysisError, Finding, RuleResult, ClassInfo, ntext, walk_no_nested,
                     body_stmts, const_str, single_defs, expand_locals, is_self_attr)

RULE = 'R18'
TEXT = ('each evaluator branch computes s0*sign*multiplier^d*g(value_in) + value_out with '
        'value_out added once, s0 the creation sign of the letter, d from Convex.__mul__; '
        'unknown letters raise')


def creation_signs(repo):
    """letter -> set of literal signs passed at creation sites of Convex / PerspConvex."""
    out = {}
    for fi in repo.all_functions():
        for n in walk_no_nested(fi.node):
            if isinstance(n, ast.Call) and isinstance(n.func, ast.Name):
                r = repo.resolve_name(fi.module, n.func.id)
                if isinstance(r, ClassInfo) and r.fq in ('lp.Convex', 'lp.PerspConvex'):
                    env = bind_args(repo.resolve_method(r, '__init__'), n)
                    if env is None:
                        continue
                    letter = const_str(env.get('xtype'))
                    s = env.get('sign')
                    if letter is None or s is None:
                        continue
                    val = None
                    if isinstance(s, ast.Constant):
                        val = s.value
                    elif isinstance(s, ast.UnaryOp) and isinstance(s.op, ast.USub) and \
                            isinstance(s.operand, ast.Constant):
                        val = -s.operand.value
                    if val in (1, -1):
                        out.setdefault(letter, set()).add(val)
    return out


QUADRATIC = frozenset('SQ')      # square and sum-of-squares: c*f(x) = f(sqrt(c)*x), every other atom is scaled linearly


def mul_degrees(repo):
    """letter -> exponent of the stored multiplier in the value of the atom: 2 for the quadratic
    atoms (their multiplier is kept as sqrt(|c|)), 1 otherwise.  This is a fact about the atoms; that
    Convex.__mul__ implements it is decided by R11, which interprets __mul__ for every letter."""
    fi = repo.func('lp.Convex.__mul__')
    letters = set()
    for n in ast.walk(fi.node):
        if isinstance(n, ast.Constant) and isinstance(n.value, str) and n.value.isalpha() and n.value.isupper():
            letters |= set(n.value)
    for mod in ('lp', 'math'):
        for f in list(repo.module(mod).functions.values()) + [m for c in repo.module(mod).classes.values()
                                                              for m in c.methods.values()]:
            for n in ast.walk(f.node):
                if isinstance(n, ast.Call) and isinstance(n.func, ast.Name) and n.func.id in ('Convex', 'PerspConvex'):
                    for a in list(n.args) + [k.value for k in n.keywords]:
                        if isinstance(a, ast.Constant) and isinstance(a.value, str) and len(a.value) == 1 \
                                and a.value.isupper():
                            letters.add(a.value)
    if len(letters) < 10:
        raise AnalysisError('atom letters not found (only %d)' % len(letters))
    return {ch: (2 if ch in QUADRATIC else 1) for ch in letters}


def xtype_chain(fi):
    """[(letters, body)] + else body, for the if/elif chain testing self.xtype."""
    for n in walk_no_nested(fi.node):
        if isinstance(n, ast.If) and isinstance(n.test, ast.Compare) and ntext(n.test.left) == 'self.xtype':
            out = []
            cur = n
            while True:
                t = cur.test
                if not (isinstance(t, ast.Compare) and ntext(t.left) == 'self.xtype'):
                    raise AnalysisError('%s: mixed tests in the xtype chain' % fi.fq)
                c = const_str(t.comparators[0])
                if c is None and isinstance(t.ops[0], ast.In) and isinstance(t.comparators[0], (ast.Tuple, ast.List, ast.Set)) \
                        and all(const_str(e) is not None for e in t.comparators[0].elts):
                    c = [const_str(e) for e in t.comparators[0].elts]       # in ('N', 'G')
                if c is None:
                    raise AnalysisError('%s: non-literal xtype test' % fi.fq)
                letters = list(c) if isinstance(t.ops[0], ast.In) else [c]
                out.append((letters, cur.body, cur))
                if len(cur.orelse) == 1 and isinstance(cur.orelse[0], ast.If):
                    cur = cur.orelse[0]
                else:
                    return out, cur.orelse
    raise AnalysisError('%s: xtype chain not found' % fi.fq)


def add_terms(e, sign=1):
    if isinstance(e, ast.BinOp) and isinstance(e.op, ast.Add):
        return add_terms(e.left, sign) + add_terms(e.right, sign)
    if isinstance(e, ast.BinOp) and isinstance(e.op, ast.Sub):
        return add_terms(e.left, sign) + add_terms(e.right, -sign)
    return [(sign, e)]


def mul_factors(e, sign=1):
    if isinstance(e, ast.UnaryOp) and isinstance(e.op, ast.USub):
        return mul_factors(e.operand, -sign)
    if isinstance(e, ast.BinOp) and isinstance(e.op, ast.Mult):
        s1, f1 = mul_factors(e.left, sign)
        s2, f2 = mul_factors(e.right, 1)
        return s1 * s2, f1 + f2
    return sign, [e]


def analyse_branch(body, out_name):
    """-> dict(lead, degree, n_out, has_sign, problems)"""
    terms = []
    for st in body:
        if isinstance(st, ast.Assign) and len(st.targets) == 1 and isinstance(st.targets[0], ast.Name) and not (
                isinstance(st.value, ast.BinOp) and isinstance(st.value.op, ast.Add) and
                ntext(st.value.left) == ntext(st.targets[0]) and isinstance(st.value.right, ast.List)):
            terms += add_terms(st.value)
        elif isinstance(st, ast.Return) and st.value is not None and not isinstance(st.value, ast.Name):
            terms += add_terms(st.value)                   # the branch returns its value directly
        elif isinstance(st, ast.Assign) and len(st.targets) == 1 and isinstance(st.value, ast.BinOp) and \
                isinstance(st.value.op, ast.Add) and ntext(st.value.left) == ntext(st.targets[0]) and \
                isinstance(st.value.right, ast.List) and len(st.value.right.elts) == 1:
            terms += add_terms(st.value.right.elts[0])     # out = out + [e]  ==  out.append(e)
        elif isinstance(st, ast.AugAssign) and isinstance(st.op, ast.Add) and isinstance(st.value, ast.List) and \
                len(st.value.elts) == 1:
            terms += add_terms(st.value.elts[0])          # out += [e]  ==  out.append(e)
        elif isinstance(st, ast.AugAssign) and isinstance(st.op, ast.Add):
            terms += add_terms(st.value)
        elif isinstance(st, ast.Expr) and isinstance(st.value, ast.Call) and \
                ntext(st.value.func).endswith('.append'):
            a = st.value.args[0]
            if not isinstance(a, ast.Name):
                terms += add_terms(a)
        elif isinstance(st, ast.If):
            # parameter normalisation such as `if isinstance(d, Iterable): d = d[0] / d[1]`
            continue
        else:
            return {'problems': ['statement `%s` outside the interpreted branch language' % ntext(st)[:50]]}
    n_out = 0
    main = []
    for sg, t in terms:
        names = {ntext(x) for x in ast.walk(t) if isinstance(x, ast.Name)}
        if out_name in names and not any('value_in' in nm for nm in names):
            if isinstance(t, ast.Name):
                n_out += 1 if sg == 1 else 0
                if sg != 1:
                    return {'problems': ['value_out is subtracted']}
            else:
                return {'problems': ['value_out appears inside `%s`' % ntext(t)[:40]]}
        else:
            # parameter lookups (d = self.params, expo = ...) are single-factor terms w/o value_in
            if any('value_in' in nm for nm in names):
                main.append((sg, t))
    if len(main) != 1:
        return {'problems': ['%d main terms found' % len(main)]}
    sg, t = main[0]
    lead, factors = mul_factors(t, sg)
    degree = None
    has_sign = 0
    g = []
    for f in factors:
        tx = ntext(f)
        if tx == 'self.multiplier':
            degree = 1
        elif tx == 'self.multiplier ** 2':
            degree = 2
        elif tx == 'self.sign':
            has_sign += 1
        else:
            g.append(tx)
    return {'lead': lead, 'degree': degree, 'n_out': n_out, 'has_sign': has_sign, 'g': g,
            'problems': []}


def run(repo):
    res = RuleResult(RULE, 'evaluator branch laws', TEXT)
    res.floor = 20
    s0 = creation_signs(repo)
    deg = mul_degrees(repo)
    for fq, out_name in (('lp.Convex.__call__', 'value_out'), ('lp.DecConvex.__call__', 'value_out')):
        fi = repo.func(fq)
        res.functions.add(fq)
        chain, orelse = xtype_chain(fi)
        else_raises = bool(orelse) and any(isinstance(s, ast.Raise) for s in orelse)
        res.inst({'evaluator': fq, 'else_raises': else_raises}, else_raises)
        if not else_raises:
            res.fail(Finding(RULE, fq, 'else: raise', '%s: an atom letter without a branch does not '
                             'raise (the evaluator would return nothing / a stale value)' % fq,
                             repo.where(fi)))
        # a coefficient hoisted above the chain (coef = self.multiplier * self.sign) is the same product
        defs = {k: v for k, v in single_defs(fi.node).items()
                if any(is_self_attr(x, 'multiplier') or is_self_attr(x, 'sign') for x in ast.walk(v))
                and k not in (out_name, 'value_in')}
        # the local that holds the evaluated constant part: the one defined from self.affine_out
        outs = {n_.targets[0].id for n_ in walk_no_nested(fi.node) if isinstance(n_, ast.Assign)
                and len(n_.targets) == 1 and isinstance(n_.targets[0], ast.Name)
                and any(is_self_attr(x, 'affine_out') for x in ast.walk(n_.value))}
        cands = set(outs)
        for lp_ in walk_no_nested(fi.node):
            if isinstance(lp_, ast.For) and isinstance(lp_.iter, ast.Call) and ntext(lp_.iter.func) == 'zip' and \
                    isinstance(lp_.target, ast.Tuple) and len(lp_.target.elts) == len(lp_.iter.args):
                for t_, a_ in zip(lp_.target.elts, lp_.iter.args):
                    if isinstance(t_, ast.Name) and isinstance(a_, ast.Name) and a_.id in outs:
                        cands.add(t_.id)
        used = {x.id for _l, b_, _n in chain for st_ in b_ for x in ast.walk(st_) if isinstance(x, ast.Name)}
        cands &= used
        if len(cands) == 1:
            out_name = next(iter(cands))
        # temporaries defined inside a branch (sum_sq = (value_in**2).sum()) are read through
        allv = single_defs(fi.node)
        for letters, body, node in chain:
            inner = {k: v for k, v in allv.items() if k not in (out_name, 'value_in', 'output') and
                     any(any(v is y for y in ast.walk(st_)) for st_ in body)}
            if inner:
                body = [st_ for st_ in body if not (isinstance(st_, ast.Assign) and any(st_.value is v for v in inner.values()))]
                body = [expand_locals(fi.node, st_, defs=inner) for st_ in body]
            if defs:
                body = [expand_locals(fi.node, st_, defs=defs) for st_ in body]
            info = analyse_branch(body, out_name)
            if any('outside the interpreted branch language' in x or 'main terms found' in x
                   or 'appears inside' in x for x in info['problems']):
                raise AnalysisError('%s, branch %s: %s' % (fq, '/'.join(letters), info['problems'][0]))
            for letter in letters:
                probs = list(info['problems'])
                if not probs:
                    if info['n_out'] != 1:
                        probs.append('value_out is added %d times (must be exactly once)' % info['n_out'])
                    want = s0.get(letter)
                    if want is None or len(want) != 1:
                        raise AnalysisError('creation sign of atom %s not unique: %s' % (letter, want))
                    want = next(iter(want))
                    if info['has_sign'] != 1:
                        probs.append('self.sign appears %d times in the main term' % info['has_sign'])
                    if info['lead'] != want:
                        probs.append('leading sign is %+d but the atom is created with sign %+d: the '
                                     'evaluator returns minus the function the object denotes'
                                     % (info['lead'], want))
                    if info['degree'] != deg.get(letter):
                        probs.append('multiplier enters with power %s, Convex.__mul__ implies %s'
                                     % (info['degree'], deg.get(letter)))
                ok = not probs
                res.inst({'evaluator': fq, 'letter': letter, 'lead': info.get('lead'),
                          'degree': info.get('degree'), 'value_out_added': info.get('n_out'),
                          'g': info.get('g'), 'ok': ok}, ok)
                for pr in probs:
                    res.fail(Finding(RULE, fq, 'branch %s: %s' % (letter, pr.split(' (')[0].split(':')[0][:60]),
                                     '%s, branch for atom %s: %s' % (fq, letter, pr),
                                     repo.where(fi, node)))
    return res
