"""R04 formula objects are read-only for their consumers.

T: a function that receives a formula (LinProg/SOCProg/GCProg) as a parameter, obtains one
from a cache-returning call (do_math, mix_support), or is a non-constructor method of a
formula class, performs no in-place effect on an access path rooted at it
(.lb .ub .obj .const .sense .vtype .linear .qmat .xmat .lmi), aliases included.

Consumers are discovered, not listed: every function that reads >= 3 formula fields from one
root.  Accepted idioms (each checked structurally, none by position):
  * zero extension: M.resize(rows, wider) guarded by `M.shape[1] < wider` (value preserving
    for every reader of a sparse matrix);
  * overwrite-after-mutate: inside K.do_math, edits of the formula returned by
    super().do_math(primal=False, ...) are accepted when every path from the edit to a
    return re-binds the same cache slot (self.dual) -- the edited intermediate is then
    unreachable.
"""
import ast

from rsx.access import access
from .common import (AnalysisError, Finding, RuleResult, MustFlow, ntext, walk_no_nested,
                     body_stmts, is_self_attr, call_name)

RULE = 'R04'
TEXT = ('no consumer of a formula (solver interfaces, def_sol, to_socp, le_to_rc, mix_support, '
        'dual builders, exports, tables) writes in place into the formula it was given or into '
        'a cached formula')
FIELDS = {'linear', 'const', 'sense', 'vtype', 'ub', 'lb', 'obj', 'qmat', 'xmat', 'lmi'}
PROG_CLASSES = ('lp.LinProg', 'socp.SOCProg', 'gcp.GCProg')

POSITIVE = '''
def solve(formula):
    a = formula.linear
    b = formula.const
    lb = formula.lb
    lb[formula.vtype == 'B'] = 0
    return a, b, lb
'''


def parents(fn_node):
    par = {}
    for n in ast.walk(fn_node):
        for c in ast.iter_child_nodes(n):
            par[id(c)] = n
    return par


def enclosing_if_tests(par, node):
    """[(test, in_body)] from innermost to outermost."""
    out = []
    cur = node
    while id(cur) in par:
        p = par[id(cur)]
        if isinstance(p, ast.If):
            in_body = any(cur is s for s in p.body)
            in_else = any(cur is s for s in p.orelse)
            if in_body or in_else:
                out.append((p.test, in_body))
        cur = p
    return out


_ZE_STATES = {}


def _resize_states(fn_node):
    """condition clauses (rsx.flow) known at every  X.resize(..)  call of the function"""
    key = id(fn_node)
    if key not in _ZE_STATES:
        from rsx.flow import MustFlow as _MF
        states = {}

        class _F(_MF):
            def visit(self, node, state):
                for c in ast.walk(node):
                    if isinstance(c, ast.Call) and isinstance(c.func, ast.Attribute) and c.func.attr == 'resize':
                        states[id(c)] = state
        body = fn_node.body
        try:
            _F().run(body)
        except AnalysisError:
            states = {}
        _ZE_STATES[key] = (fn_node, states)
    return _ZE_STATES[key][1]


def is_zero_extension(par, eff):
    """M.resize((rows, cols)) reached only where the new column count is known to exceed the current
    one (M.shape[1] < cols, in any spelling the condition clauses normalise: `cols > M.shape[1]`,
    `not M.shape[1] >= cols`, the else-arm of the opposite test under `!=`, a hoisted width):
    appending zero columns does not change the function the matrix denotes."""
    if eff.kind != 'call:resize':
        return False
    from rsx.flow import holds
    call = eff.node
    if not isinstance(call, ast.Call):
        return False
    cur = call
    while id(cur) in par and not isinstance(cur, (ast.FunctionDef, ast.AsyncFunctionDef)):
        cur = par[id(cur)]
    if not isinstance(cur, (ast.FunctionDef, ast.AsyncFunctionDef)):
        return False
    st = _resize_states(cur).get(id(call))
    if st is None:
        return False
    args = call.args
    if len(args) == 1 and isinstance(args[0], (ast.Tuple, ast.List)) and len(args[0].elts) == 2:
        cols = args[0].elts[1]
    elif len(args) == 2:
        cols = args[1]
    else:
        return False
    m = ntext(eff.target)
    c = ntext(cols)
    widths = [m + '.shape[1]', m + '.shape[-1]']
    # a local that holds the current width (num_col = M.shape[1], or r, c = M.shape) is the width
    from .common import single_defs
    for k, v in single_defs(cur).items():
        if ntext(v) in (m + '.shape[1]', m + '.shape[-1]'):
            widths.append(k)
    # the new width is max(.., current width, ..): never narrower (equal: resize changes nothing)
    ce = cols
    if isinstance(ce, ast.Name) and ce.id in single_defs(cur):
        ce = single_defs(cur)[ce.id]
    if isinstance(ce, ast.Call) and ntext(ce.func) in ('max', 'np.maximum', 'numpy.maximum') and not ce.keywords and \
            any(ntext(a) in widths for a in ce.args):
        return True
    for w in widths:
        if holds(st, '%s < %s' % (w, c)):
            return True
        if holds(st, '%s < %s' % (c, w), False) and (holds(st, '%s == %s' % (w, c), False) or
                                                     holds(st, '%s == %s' % (c, w), False)):
            return True
    return False


def formula_roots(repo, fi):
    """Names in `fi` from which >= 3 distinct formula fields are read."""
    reads = {}
    for n in walk_no_nested(fi.node):
        if isinstance(n, ast.Attribute) and isinstance(n.value, ast.Name) and n.attr in FIELDS \
                and isinstance(n.ctx, ast.Load):
            reads.setdefault(n.value.id, set()).add(n.attr)
    return {k for k, v in reads.items() if len(v) >= 3}


class _Rebind(MustFlow):
    """Is every path from `marker` statement to a return followed by `self.<slot> = ...`?"""

    def __init__(self, slot, marker_stmts):
        super().__init__()
        self.slot = slot
        self.markers = marker_stmts
        self.bad_exits = []

    def refine(self, test, branch, state):
        return state

    def transfer(self, node, state):
        # must-fact 'clean': no un-overwritten edit on any path reaching this point
        if any(node is m for m in self.markers):
            state = state - {'clean'}
        if isinstance(node, ast.Assign):
            for t in node.targets:
                if is_self_attr(t, self.slot):
                    state = state | {'clean'}
        return state


def overwrite_after_mutate(fi, effects, slot):
    fl = _Rebind(slot, [e.stmt for e in effects])
    o = fl.run(body_stmts(fi), {'clean'})
    exits = [(s, n) for s, n in o.returns] + ([(o.normal, None)] if o.normal is not None else [])
    return all(s is None or 'clean' in s for s, _ in exits)


_FF = {}


def formula_fields(repo):
    """Attribute names that hold formula objects: assigned (anywhere) from a cache-returning
    call or from a LinProg/SOCProg/GCProg constructor.  Discovered, then checked against the
    hand-confirmed minimum."""
    _FF = repo.__dict__.setdefault('_ff_cache', {})
    if 'v' in _FF:
        return _FF['v']
    out = set()
    for fi in repo.all_functions():
        if fi.module in ('deco', 'cpt_solver_bkp'):
            continue
        has = any(isinstance(n, ast.Assign) and any(is_self_attr(t) for t in n.targets)
                  for n in walk_no_nested(fi.node))
        if not has:
            continue
        fa = access(repo, fi)
        for n in walk_no_nested(fi.node):
            if isinstance(n, ast.Assign):
                for t in n.targets:
                    if is_self_attr(t):
                        for o in fa.origins(n.value):
                            if len(o) == 1 and (o[0].startswith('cached:') or
                                                o[0] in ('new:' + c for c in PROG_CLASSES)):
                                out.add(t.attr)
                            elif len(o) == 2 and o[0].startswith('new:') and \
                                    o[0][4:] in PROG_CLASSES:
                                out.add(t.attr)
    need = {'primal', 'dual', 'support', 'obj_support'}
    if not need <= out:
        raise AnalysisError('formula-holding fields not recognised: missing %s' % sorted(need - out))
    _FF['v'] = out
    return out


def consumer_functions(repo):
    out = []
    prog = [repo.cls(c) for c in PROG_CLASSES]
    for fi in repo.all_functions():
        if fi.module in ('deco', 'cpt_solver_bkp'):
            continue
        roots = formula_roots(repo, fi)
        is_prog_method = fi.cls is not None and any(repo.is_subclass(fi.cls, p) for p in prog)
        if is_prog_method and fi.name == '__init__':
            continue
        out.append((fi, roots, is_prog_method))
    return out


def offending(repo, fi, roots, is_prog_method):
    fa = access(repo, fi)
    ffields = formula_fields(repo) if repo is not None else set()
    bad = []
    for e in fa.effects:
        if e.fresh or e.kind.startswith('self-attr-store'):
            if not (is_prog_method and e.kind.startswith('self-attr-store')
                    and e.kind.split(':')[1] in FIELDS):
                continue
        hit = []
        for o in e.origins:
            root = o[0]
            rooted = (root.startswith('cached:') or
                      (root.startswith('param:') and root[6:] in roots and root[6:] in fi.params) or
                      (root == 'self' and is_prog_method))
            if not rooted:
                continue
            if e.kind.startswith('self-attr-store'):
                hit.append(o + (e.kind.split(':')[1],))
            elif len(o) >= 2 and o[1] in FIELDS:
                hit.append(o)
        for o in e.origins:
            # x.<formula-holding field>.<formula field>...  (e.g. self.support.qmat)
            for i in range(1, len(o) - 1):
                if o[i] in ffields and o[i + 1] in FIELDS and o not in hit:
                    hit.append(o)
        if hit:
            bad.append((e, hit))
    return bad


def run(repo):
    res = RuleResult(RULE, 'formula objects are read-only for their consumers', TEXT)
    res.floor = 15
    cons = consumer_functions(repo)
    for fi, roots, is_prog in cons:
        res.functions.add(fi.fq)
        par = parents(fi.node)
        bad = offending(repo, fi, roots, is_prog)
        remaining = []
        accepted = []
        # idiom 1: zero extension
        for e, hit in bad:
            if is_zero_extension(par, e):
                accepted.append('zero-extension: ' + e.text)
            else:
                remaining.append((e, hit))
        # idiom 2: overwrite-after-mutate (do_math of a model layer, object from super().do_math)
        if fi.name == 'do_math' and remaining:
            sup = [(e, hit) for e, hit in remaining if _from_super_dual(hit)]
            if sup and overwrite_after_mutate(fi, [e for e, _ in sup], 'dual'):
                accepted += ['overwrite-after-mutate: ' + e.text for e, _ in sup]
                remaining = [x for x in remaining if x not in sup]
        ok = not remaining
        if not roots and not bad:
            continue          # not a consumer and touches no formula: nothing to record
        res.inst({'consumer': fi.fq, 'roots': sorted(roots), 'effects_on_formula': len(bad),
                  'accepted_idioms': accepted, 'ok': ok}, ok)
        for e, hit in remaining:
            res.fail(Finding(RULE, fi.fq, e.text,
                             '%s edits in place %s (reached through %s); the formula object is '
                             'shared with the model\'s cache / the caller, so every later '
                             'formulation or solve sees the edit'
                             % (fi.fq, ntext(e.target), sorted('.'.join(h) for h in hit)[0]),
                             repo.where(fi, e.node)))
    _positive(repo)
    return res


def _from_super_dual(hit):
    """Every may-origin of the edited object is the result of super().do_math(primal=False, ..)."""
    for h in hit:
        root = h[0]
        if not root.startswith('cached:super().do_math('):
            return False
        call = ast.parse(root[7:], mode='eval').body
        prim = None
        for k in call.keywords:
            if k.arg == 'primal':
                prim = k.value
        if prim is None and call.args:
            prim = call.args[0]
        if not (isinstance(prim, ast.Constant) and prim.value is False):
            return False
    return True


def _positive(repo):
    import types
    from rsx.loader import FuncInfo
    tree = ast.parse(POSITIVE)
    fi = FuncInfo('lp', None, tree.body[0])
    roots = formula_roots(repo, fi)
    bad = offending(repo, fi, roots, False)
    if 'formula' not in roots or len(bad) != 1:
        raise AnalysisError('R04 self-test: positive example not detected')
