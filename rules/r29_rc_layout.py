"""R29 row-layout agreement in the robust counterpart (C01, C03).

le_to_rc builds, for num_constr robust rows at once, the multiplier matrix
dual_var of shape (num_constr, size_support) and the stationarity rows
        left = dual_var @ support.linear[S].T  (+ ...)        shape (num_constr, |S|)
which are flattened row-major into one LinConstr: row n*|S| + j is (constraint n, support row j).
The sense vector handed to that LinConstr must have the same layout: the per-support-row pattern
support.sense[S] repeated once per constraint, i.e. np.tile(support.sense[S], num_constr) with
the *same* slice S as the linear block.  np.repeat (pattern element-wise repeated) pairs each row
with the sense of another support row: an equality stationarity row becomes an inequality and
the constraint is only protected against part of the set.

Anchors checked: the shape tuple of dual_var starts with num_constr; each LinConstr built from a
`left` defined as dual_var @ <support.linear slice>.T takes a sense defined by tile over the same
slice.  Any other construction of the sense vector is outside the interpreted idioms (exit 2).
"""
import ast

from rsx.ctor import bind_args
from .common import (AnalysisError, Finding, RuleResult, ntext, walk_no_nested, call_name, single_defs,
                     expand_locals, pmatch)

RULE = 'R29'
TEXT = ('in le_to_rc the sense vector of each block of stationarity rows is the support\'s sense '
        'pattern tiled once per robust row, over the same slice as the linear block')
P = {'props': ['C01', 'C03']}


def slice_key(sl):
    """canonical text of a row selection: [:n] == [0:n] == [:n, :]"""
    if isinstance(sl, ast.Tuple) and len(sl.elts) == 2 and isinstance(sl.elts[1], ast.Slice) and \
            sl.elts[1].lower is None and sl.elts[1].upper is None and sl.elts[1].step is None:
        sl = sl.elts[0]
    if isinstance(sl, ast.Slice):
        lo = None if sl.lower is None or (isinstance(sl.lower, ast.Constant) and sl.lower.value == 0) else ntext(sl.lower)
        hi = None if sl.upper is None else ntext(sl.upper)
        st = None if sl.step is None or (isinstance(sl.step, ast.Constant) and sl.step.value == 1) else ntext(sl.step)
        return 'slice(%s,%s,%s)' % (lo, hi, st)
    return ntext(sl)


def run(repo):
    res = RuleResult(RULE, 'row-layout agreement in the robust counterpart', TEXT)
    res.floor = 4
    fi = repo.func('lp.RoConstr.le_to_rc')
    res.functions.add(fi.fq)
    defs = single_defs(fi.node)

    def ex(e):
        return expand_locals(fi.node, e, depth=4, defs=defs)
    # anchor 1: the multiplier matrix  <model>.dvar((rows, size_support))
    dv = None
    for n in walk_no_nested(fi.node):
        if isinstance(n, ast.Assign) and len(n.targets) == 1 and isinstance(n.targets[0], ast.Name) and \
                pmatch('__.dvar((_r, _c))', n.value)[0] == 'match':
            dv = n
    if dv is None:
        raise AnalysisError('le_to_rc: allocation of the multiplier matrix <model>.dvar((rows, cols)) not found')
    dual = dv.targets[0].id
    nrows = ntext(ex(dv.value.args[0].elts[0]))
    res.inst({'multipliers': ntext(dv)[:70], 'rows': nrows}, True)
    # stationarity blocks and the LinConstr built from them, in source order
    assigns = sorted([n for n in ast.walk(fi.node) if isinstance(n, ast.Assign) and len(n.targets) == 1
                      and isinstance(n.targets[0], ast.Name)], key=lambda n: (n.lineno, n.col_offset))
    cur = {}            # name -> (slice key of the support rows, node)
    inline_terms = []   # (assign, block name, term) for terms added to a block in its defining expression
    n_blocks = 0
    for n in assigns:
        name, v = n.targets[0].id, n.value
        # locals other than the multiplier matrix are read through (rest = support.linear[k:]; dual_var @ rest.T)
        vx = expand_locals(fi.node, v, depth=4, defs={k_: d_ for k_, d_ in defs.items() if k_ != dual})
        st, b, _d = pmatch('%s @ _SL[_S].T' % dual, vx)
        if st != 'match' and isinstance(vx, ast.BinOp) and isinstance(vx.op, ast.Add):
            # the block and the random-coefficient term written as one sum:  dual @ L[S].T + self.raffine[:, S] * c[S]
            terms, stack = [], [vx]
            while stack:
                t_ = stack.pop()
                if isinstance(t_, ast.BinOp) and isinstance(t_.op, ast.Add):
                    stack += [t_.right, t_.left]
                else:
                    terms.append(t_)
            hits = [t_ for t_ in terms if pmatch('%s @ _SL[_S].T' % dual, t_)[0] == 'match']
            if len(hits) == 1:
                st, b, _d = pmatch('%s @ _SL[_S].T' % dual, hits[0])
                if b['_SL'][1].endswith('.linear'):
                    cur[name] = (slice_key(hits[0].right.value.slice),
                                 ast.copy_location(ast.Assign(targets=n.targets, value=hits[0]), n),
                                 b['_SL'][1][:-len('.linear')])
                    for t_ in terms:
                        if t_ is not hits[0]:
                            inline_terms.append((n, name, t_))
                    continue
        if st == 'match' and b['_SL'][1].endswith('.linear'):
            cur[name] = (slice_key(vx.right.value.slice), ast.copy_location(ast.Assign(targets=n.targets, value=vx), n),
                         b['_SL'][1][:-len('.linear')])
            continue
        if name in cur and not any(isinstance(x, ast.Name) and x.id == name for x in ast.walk(v)):
            if any(isinstance(x, ast.Name) and x.id == dual for x in ast.walk(vx)):
                raise AnalysisError('le_to_rc: `%s` is rebuilt from the multipliers by `%s`, a form the rule does '
                                    'not interpret' % (name, ntext(v)[:50]))
            cur.pop(name)          # the name now holds something else
        if isinstance(v, ast.Call) and call_name(v) == 'LinConstr':
            env = bind_args(repo.func('lp.LinConstr.__init__'), v) or {}
            lin = env.get('linear')
            src = [k for k in cur if lin is not None and any(isinstance(x, ast.Name) and x.id == k for x in ast.walk(lin))]
            if not src:
                continue
            rows_key, _node, sup = cur[src[0]]
            n_blocks += 1
            sense = env.get('sense')
            if sense is None:
                raise AnalysisError('le_to_rc: `%s` has no sense argument' % ntext(v)[:50])
            sdef = ex(sense)
            probs = []
            st_t, bt, _ = pmatch('np.tile(_SS[_S2], _REPS)', sdef)
            st_r, br, _ = pmatch('np.repeat(_SS[_S2], _REPS)', sdef)
            if st_r == 'match':
                probs.append('is np.repeat(..): each sense is repeated element-wise, so row n*|S|+j gets the '
                             'sense of another support row; the rows are laid out constraint-major and need '
                             'np.tile(pattern, <number of robust rows>)')
                bt = br
            elif st_t == 'match':
                reps = ex(bt['_REPS'][2])
                if isinstance(reps, ast.Tuple) and len(reps.elts) == 1:
                    reps = reps.elts[0]                     # np.tile(p, (n,)) is np.tile(p, n)
                # <model>.dvar((rows, cols)).shape[0] is rows
                sst, sb, _ = pmatch('__.dvar((_r, _c)).shape[0]', reps)
                if sst == 'match':
                    reps = sb['_r'][2]
                if ntext(ex(reps)) != nrows:
                    probs.append('tiles the pattern %s times instead of once per robust row (%s)'
                                 % (bt['_REPS'][1], nrows))
            else:
                raise AnalysisError('le_to_rc: the sense vector `%s` is built in a form the rule does not '
                                    'interpret' % ntext(sdef)[:60])
            if bt['_SS'][1] != sup + '.sense':
                probs.append('takes the senses from `%s`, the rows from `%s.linear`' % (bt['_SS'][1], sup))
            elif slice_key(bt['_S2'][2]) != rows_key:
                probs.append('takes %s.sense[%s] while the rows come from %s.linear[%s]'
                             % (sup, bt['_S2'][1], sup, ntext(_node.value.right.value.slice)))
            ok = not probs
            res.inst({'rows': ntext(_node.value)[:60], 'sense': ntext(sdef)[:60], 'ok': ok}, ok)
            for pr in probs:
                res.fail(Finding(RULE, fi.fq, 'sense layout of block %d' % n_blocks,
                                 'le_to_rc: the sense vector `%s` %s' % (ntext(sense)[:30], pr), repo.where(fi, n), P))
    # (c) the random coefficients enter the stationarity rows scaled by the support's constant vector over the
    #     same rows:  left = left + self.raffine[:, S] * support.const[S].  The support is a *dual* program
    #     whose constant is the cost vector of the primal after the sign changes of the dual construction
    #     (an entry is -1 where the variable's upper bound is 0): leaving the factor out mirrors those variables.
    n_terms = 0
    cands = []
    for n in assigns:
        v = n.value
        if not any(isinstance(x, ast.Attribute) and x.attr == 'raffine' and ntext(x.value) == 'self' for x in ast.walk(v)):
            continue
        name = n.targets[0].id
        if not (isinstance(v, ast.BinOp) and isinstance(v.op, ast.Add) and
                any(isinstance(x, ast.Name) and x.id == name for x in (v.left, v.right))):
            continue                 # not an accumulation onto a block of stationarity rows
        cands.append((n, name, v.right if isinstance(v.left, ast.Name) and v.left.id == name else v.left))
    for n_, name_, t_ in inline_terms:
        if any(isinstance(x, ast.Attribute) and x.attr == 'raffine' and ntext(x.value) == 'self' for x in ast.walk(t_)):
            cands.append((n_, name_, t_))
    for n, name, term in cands:
        term = expand_locals(fi.node, term, depth=4, defs={k_: d_ for k_, d_ in defs.items() if k_ != dual})
        n_terms += 1
        blk = cur.get(name)
        st_c, bc, _ = pmatch('self.raffine[:, _S] * _SUP.const[_S2]', term)
        if st_c != 'match':
            st_c, bc, _ = pmatch('_SUP.const[_S2] * self.raffine[:, _S]', term)
        probs = []
        if st_c == 'match':
            if slice_key(bc['_S'][2]) != slice_key(bc['_S2'][2]):
                probs.append('scales self.raffine[:, %s] by %s.const[%s]: different rows'
                             % (bc['_S'][1], bc['_SUP'][1], bc['_S2'][1]))
        elif pmatch('self.raffine[:, _S]', term)[0] == 'match' or pmatch('self.raffine', term)[0] == 'match':
            probs.append('adds the random coefficients `%s` without the factor <support>.const[..] of the same rows'
                         % ntext(term)[:40])
        else:
            raise AnalysisError('le_to_rc: the random-coefficient term `%s` of the stationarity rows has a form the '
                                'rule does not interpret' % ntext(term)[:60])
        ok = not probs
        res.inst({'stationarity': ntext(n)[:70], 'scaled_by_support_const': ok}, ok)
        for pr in probs:
            res.fail(Finding(RULE, fi.fq, 'random coefficients in the stationarity rows',
                             'le_to_rc: `%s` %s; for a variable of the set whose upper bound is 0 the dual construction '
                             'stores -1 there, so the counterpart would protect against the mirrored variable'
                             % (ntext(n)[:60], pr), repo.where(fi, n), {'props': ['C01', 'C03', 'C15']}))
    if n_terms < 1:
        raise AnalysisError('le_to_rc: the term adding self.raffine to the stationarity rows was not found')
    if n_blocks < 2:
        raise AnalysisError('le_to_rc: only %d stationarity blocks (dual_var @ support.linear[S].T -> LinConstr) found'
                            % n_blocks)
    return res
