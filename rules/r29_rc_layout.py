"""R29 row-layout agreement in the robust counterpart (C01, C03).

le_to_rc builds, for num_constr robust rows at once, the multiplier matrix
dual_var of shape (num_constr, size_support) and the stationarity rows
        left = dual_var @ support.linear[S].T  (+ ...)        shape (num_constr, |S|)
which are flattened row-major into one LinConstr: row n*|S| + j is (constraint n, support row j).
The sense vector handed to that LinConstr must have the same layout: the per-support-row pattern
support.sense[S] repeated once per constraint, i.e. np.tile(support.sense[S], num_constr) with
the *same* slice S as the linear block.  np.repeat (pattern element-wise repeated) pairs each row
with the sense of another support row: an equality stationarity row becomes an inequality and
the constraint is only protected against part of the set.

Anchors checked: the shape tuple of dual_var starts with num_constr; each LinConstr built from a
`left` defined as dual_var @ <support.linear slice>.T takes a sense defined by tile over the same
slice.  Any other construction of the sense vector is outside the interpreted idioms (exit 2).
"""
import ast

from rsx.ctor import bind_args
from .common import (AnalysisError, Finding, RuleResult, ntext, walk_no_nested, call_name)

RULE = 'R29'
TEXT = ('in le_to_rc the sense vector of each block of stationarity rows is the support\'s sense '
        'pattern tiled once per robust row, over the same slice as the linear block')
P = {'props': ['C01', 'C03']}


def run(repo):
    res = RuleResult(RULE, 'row-layout agreement in the robust counterpart', TEXT)
    res.floor = 3
    fi = repo.func('lp.RoConstr.le_to_rc')
    res.functions.add(fi.fq)
    # anchor 1: dual_var = <model>.dvar((num_constr, size_support))
    dv = None
    for n in walk_no_nested(fi.node):
        if isinstance(n, ast.Assign) and isinstance(n.value, ast.Call) and ntext(n.value.func).endswith('.dvar') \
                and n.value.args and isinstance(n.value.args[0], ast.Tuple):
            dv = n
    if dv is None:
        raise AnalysisError('le_to_rc: allocation of the multiplier matrix not found')
    dual = ntext(dv.targets[0])
    first_dim = ntext(dv.value.args[0].elts[0])
    ok = first_dim == 'num_constr'
    res.inst({'multipliers': ntext(dv)[:70], 'rows_are_constraints': ok}, ok)
    if not ok:
        raise AnalysisError('le_to_rc: the multiplier matrix is no longer (num_constr, size_support)')
    # walk statements in order, tracking the latest definition of `left` and of sense vectors
    defs = {}
    blocks = []
    for n in walk_no_nested(fi.node):
        pass
    order = [n for n in ast.walk(fi.node) if isinstance(n, ast.Assign) and len(n.targets) == 1
             and isinstance(n.targets[0], ast.Name)]
    order.sort(key=lambda n: (n.lineno, n.col_offset))
    lincs = []
    for n in order:
        name = n.targets[0].id
        v = n.value
        if isinstance(v, ast.Call) and ntext(v.func) == 'LinConstr':
            env = bind_args(repo.func('lp.LinConstr.__init__'), v)
            lincs.append((n, env, dict(defs)))
        # a later `left = left + ...` keeps the first (matrix-product) definition as the layout source
        if name == 'left' and isinstance(v, ast.BinOp) and isinstance(v.op, ast.MatMult):
            defs['left'] = v
        elif name != 'left':
            defs[name] = v
    n_blocks = 0
    for node, env, d in lincs:
        sense = env.get('sense')
        if not isinstance(sense, ast.Name) or 'left' not in ntext(env.get('linear')):
            continue
        left = d.get('left')
        sdef = d.get(sense.id)
        if left is None or sdef is None:
            raise AnalysisError('le_to_rc: definitions of left / %s not found before %s' % (sense.id, ntext(node)[:40]))
        if ntext(left.left) != dual:
            raise AnalysisError('le_to_rc: stationarity rows are not built as %s @ ...' % dual)
        # slice of support.linear on the right-hand side of the product
        lin_slices = [ntext(x.slice) for x in ast.walk(left.right)
                      if isinstance(x, ast.Subscript) and ntext(x.value) == 'support.linear']
        if len(lin_slices) != 1:
            raise AnalysisError('le_to_rc: cannot find the slice of support.linear in `%s`' % ntext(left)[:50])
        n_blocks += 1
        fn = call_name(sdef) if isinstance(sdef, ast.Call) else None
        sen_slices = [ntext(x.slice) for x in ast.walk(sdef)
                      if isinstance(x, ast.Subscript) and ntext(x.value) == 'support.sense']
        probs = []
        if fn in ('np.repeat', 'numpy.repeat'):
            probs.append('is np.repeat(..): each sense is repeated element-wise, so row n*|S|+j gets the '
                         'sense of another support row; the rows are laid out constraint-major and need '
                         'np.tile(pattern, num_constr)')
        elif fn in ('np.tile', 'numpy.tile'):
            reps = ntext(sdef.args[1]) if len(sdef.args) > 1 else ''
            if reps != 'num_constr':
                probs.append('tiles the pattern %s times instead of num_constr' % reps)
        else:
            raise AnalysisError('le_to_rc: the sense vector `%s = %s` is built in a form the rule does '
                                'not interpret' % (sense.id, ntext(sdef)[:50]))
        if sen_slices != lin_slices:
            probs.append('takes support.sense[%s] while the rows come from support.linear[%s]'
                         % (','.join(sen_slices), ','.join(lin_slices)))
        ok = not probs
        res.inst({'rows': ntext(left)[:60], 'sense': '%s = %s' % (sense.id, ntext(sdef)[:50]), 'ok': ok}, ok)
        for pr in probs:
            res.fail(Finding(RULE, fi.fq, '%s layout' % sense.id,
                             'le_to_rc: the sense vector %s %s' % (sense.id, pr), repo.where(fi, node), P))
    if n_blocks < 2:
        raise AnalysisError('le_to_rc: only %d stationarity blocks found' % n_blocks)
    return res
