"""R14 LP dual: complete case analysis over the bound patterns (C08).

In the dual branch of lp.Model.do_math the variable bounds are touched only through
comparisons with 0, +-inf and each other.  The rule extracts from the source
  * the masks            indices_X = np.where(<boolean expression over primal.lb / primal.ub>)[0]
  * the row blocks       appended under `if nX > 0:` -- coefficient c of the selector matrix,
                         right-hand side k * bound, sense (np.zeros -> `<=`, np.ones -> `=`)
  * the dual-row treatment per mask: dual_sense[mask] = 1 (primal variable free), negated rows
    (primal variable <= 0); otherwise the variable is >= 0
and, for every abstract pattern of (lb, ub) -- lb in {-inf, negative, 0, positive}, ub in
{negative, 0, positive, +inf}, lb < ub and lb == ub -- computes the set of x the construction
represents: (sign domain) intersected with (appended rows).  It must equal [lb, ub].
(Convention, stated: in the form built here an unflipped `<=` dual row encodes x >= 0, a
negated one x <= 0, an `=` row a free x; these are the code's own mask names.)

If the construction stops being a finite set of comparisons the rule ends with exit 2.
"""
import ast
import math

from .common import (AnalysisError, Finding, RuleResult, ntext, walk_no_nested, body_stmts,
                     call_name)

RULE = 'R14'
TEXT = ('for each of the 15 orderings of (lb, ub, 0, +-inf) the LP dual construction (masks, '
        'appended bound rows, sign treatment of the dual rows) represents exactly [lb, ub]')
P = {'props': ['C08', 'C01', 'C15']}
INF = float('inf')


def eval_mask(expr, lb, ub, root='primal'):
    if isinstance(expr, ast.BinOp) and isinstance(expr.op, ast.BitAnd):
        return eval_mask(expr.left, lb, ub) and eval_mask(expr.right, lb, ub)
    if isinstance(expr, ast.BinOp) and isinstance(expr.op, ast.BitOr):
        return eval_mask(expr.left, lb, ub) or eval_mask(expr.right, lb, ub)
    if isinstance(expr, ast.UnaryOp) and isinstance(expr.op, ast.Invert):
        return not eval_mask(expr.operand, lb, ub)
    if isinstance(expr, ast.Compare) and len(expr.ops) == 1:
        a = eval_val(expr.left, lb, ub)
        b = eval_val(expr.comparators[0], lb, ub)
        op = expr.ops[0]
        if isinstance(op, ast.Eq):
            return a == b
        if isinstance(op, ast.NotEq):
            return a != b
        if isinstance(op, ast.Lt):
            return a < b
        if isinstance(op, ast.LtE):
            return a <= b
        if isinstance(op, ast.Gt):
            return a > b
        if isinstance(op, ast.GtE):
            return a >= b
    if isinstance(expr, ast.Call) and call_name(expr) in ('np.isclose', 'numpy.isclose', 'np.allclose',
                                                          'math.isclose') and len(expr.args) >= 2:
        raise ToleranceMask(ntext(expr))
    raise AnalysisError('R14: mask expression `%s` is not a comparison of bounds' % ntext(expr)[:60])


class ToleranceMask(Exception):
    """a bound pattern is classified by a tolerance test (np.isclose) instead of an exact comparison"""



def eval_val(e, lb, ub):
    t = ntext(e)
    if t.endswith('.ub') or t == 'ub':
        return ub
    if t.endswith('.lb') or t == 'lb':
        return lb
    if t in ('np.inf', 'numpy.inf'):
        return INF
    if isinstance(e, ast.UnaryOp) and isinstance(e.op, ast.USub):
        return -eval_val(e.operand, lb, ub)
    if isinstance(e, ast.Constant) and isinstance(e.value, (int, float)):
        return float(e.value)
    raise AnalysisError('R14: value `%s` in a mask is not a bound, 0 or inf' % t[:40])


def extract(repo):
    fi = repo.func('lp.Model.do_math')
    from .common import primal_dual_arms
    arms = primal_dual_arms(fi)
    dual = arms[1] if arms else None
    if not dual:
        raise AnalysisError('lp.Model.do_math: dual branch not found')
    mod = ast.Module(body=dual, type_ignores=[])
    from .common import single_defs, expand_locals, const_num
    fdefs = single_defs(fi.node)

    def ex(e):
        return expand_locals(fi.node, e, depth=3, defs=fdefs)
    masks = {}
    counts = {}
    WHERE = ('np.where', 'numpy.where', 'np.nonzero', 'numpy.nonzero')
    for n in ast.walk(mod):
        # idx, = np.where(mask)   (one-element tuple target)
        if isinstance(n, ast.Assign) and len(n.targets) == 1 and isinstance(n.targets[0], (ast.Tuple, ast.List)) and \
                len(n.targets[0].elts) == 1 and isinstance(n.targets[0].elts[0], ast.Name) and \
                isinstance(n.value, ast.Call) and call_name(n.value) in WHERE and len(n.value.args) == 1:
            masks[n.targets[0].elts[0].id] = ex(n.value.args[0])
        if isinstance(n, ast.Assign) and len(n.targets) == 1 and isinstance(n.targets[0], ast.Name):
            v = n.value
            if isinstance(v, ast.Subscript) and isinstance(v.value, ast.Call) and \
                    call_name(v.value) in WHERE and len(v.value.args) == 1:
                masks[n.targets[0].id] = ex(v.value.args[0])
            elif isinstance(v, ast.Call) and call_name(v) in ('np.flatnonzero', 'numpy.flatnonzero') and v.args:
                masks[n.targets[0].id] = ex(v.args[0])
            # the number of selected columns: len(idx) / idx.size / idx.shape[0] / np.size(idx)
            if isinstance(v, ast.Call) and call_name(v) in ('len', 'np.size', 'numpy.size') and len(v.args) == 1 and \
                    isinstance(v.args[0], ast.Name):
                counts[n.targets[0].id] = v.args[0].id
            elif isinstance(v, ast.Attribute) and v.attr == 'size' and isinstance(v.value, ast.Name):
                counts[n.targets[0].id] = v.value.id
            elif isinstance(v, ast.Subscript) and isinstance(v.value, ast.Attribute) and v.value.attr == 'shape' and \
                    isinstance(v.value.value, ast.Name):
                counts[n.targets[0].id] = v.value.value.id
    if len(masks) < 4:
        raise AnalysisError('lp.Model.do_math: only %d bound masks found' % len(masks))
    for k_ in list(masks) + list(counts):
        fdefs.pop(k_, None)           # the index sets keep their names: they are what the blocks are keyed by

    def block_mask(test):
        """the index set a block is conditional on:  n > 0 / n / len(idx) > 0 / idx.size ..."""
        t = test.left if isinstance(test, ast.Compare) else test
        if isinstance(t, ast.Name):
            if t.id in counts:
                return counts[t.id]
            if t.id in masks:
                return t.id
        if isinstance(t, ast.Call) and call_name(t) in ('len', 'np.size', 'numpy.size') and t.args and \
                isinstance(t.args[0], ast.Name):
            return t.args[0].id
        if isinstance(t, ast.Attribute) and t.attr == 'size' and isinstance(t.value, ast.Name):
            return t.value.id
        if isinstance(t, ast.Subscript) and isinstance(t.value, ast.Attribute) and t.value.attr == 'shape' and \
                isinstance(t.value.value, ast.Name):
            return t.value.value.id
        return None
    blocks = []
    for n in ast.walk(mod):
        if not isinstance(n, ast.If):
            continue
        mask = block_mask(n.test)
        if mask is None or mask not in masks:
            continue
        if not any(isinstance(x, ast.Call) and call_name(x).endswith('csr_matrix') for s_ in n.body for x in ast.walk(s_)):
            continue          # not a block that appends rows (e.g. the sign treatment of the non-positive columns)
        coef = rhs = sense = None
        for st in n.body:
            if not isinstance(st, ast.Assign):
                continue
            v = st.value
            tname = ntext(st.targets[0])
            if isinstance(v, ast.Call) and call_name(v).endswith('csr_matrix'):
                from .r19_solver_siblings import _coef_sign
                first = v.args[0].elts[0] if isinstance(v.args[0], (ast.Tuple, ast.List)) and v.args[0].elts else v.args[0]
                first = ex(first)
                sg = _coef_sign(first)
                if sg is None:
                    raise AnalysisError('R14: sign of the coefficient vector `%s` of block %s not interpreted'
                                        % (ntext(first)[:50], mask))
                coef = float(sg)
                # the selector may be negated where it is stacked under the matrix:  vstack((M, -matrix_lb))
                for st2 in n.body:
                    for x in ast.walk(st2):
                        if isinstance(x, ast.Name) and x.id == tname and isinstance(x.ctx, ast.Load):
                            par_ = None
                            for y in ast.walk(st2):
                                if any(c is x for c in ast.iter_child_nodes(y)):
                                    par_ = y
                            if isinstance(par_, ast.UnaryOp) and isinstance(par_.op, ast.USub):
                                coef = -coef
                            elif isinstance(par_, (ast.Tuple, ast.List)):
                                pass
                            elif isinstance(par_, ast.Call) and ('vstack' in call_name(par_) or
                                                                 call_name(par_).endswith('csr_matrix')):
                                pass
                            else:
                                raise AnalysisError('R14: selector `%s` of block %s is used in a form the rule '
                                                    'does not interpret (%s)' % (tname, mask, ntext(par_)[:40]))
                if mask not in ntext(v):
                    raise AnalysisError('R14: selector matrix of block %s does not use its own mask' % mask)
            elif isinstance(v, ast.Call) and call_name(v) in ('np.concatenate', 'np.append', 'np.hstack',
                                                                'numpy.concatenate', 'numpy.append', 'numpy.hstack'):
                parts = v.args[0].elts if isinstance(v.args[0], (ast.Tuple, ast.List)) else list(v.args[:2])
                if len(parts) < 2:
                    continue
                last = ex(parts[-1])
                if 'const' in tname or (isinstance(parts[0], ast.Name) and 'const' in parts[0].id):
                    k = 1.0
                    if isinstance(last, ast.UnaryOp) and isinstance(last.op, ast.USub):
                        k, last = -1.0, last.operand
                    if isinstance(last, ast.Subscript) and isinstance(last.value, ast.UnaryOp) and \
                            isinstance(last.value.op, ast.USub):
                        k = -k
                        last = ast.Subscript(value=last.value.operand, slice=last.slice, ctx=ast.Load())
                    if not (isinstance(last, ast.Subscript) and ntext(last.slice) == mask):
                        raise AnalysisError('R14: right-hand side of block %s is `%s`' % (mask, ntext(last)[:40]))
                    which = 'ub' if ntext(last.value).endswith('.ub') else 'lb' if ntext(last.value).endswith('.lb') else None
                    if which is None:
                        raise AnalysisError('R14: right-hand side of block %s is not a bound' % mask)
                    rhs = (k, which)
                elif 'sense' in tname or (isinstance(parts[0], ast.Name) and 'sense' in parts[0].id):
                    if isinstance(last, ast.Call) and call_name(last) in ('np.zeros', 'numpy.zeros'):
                        sense = 0
                    elif isinstance(last, ast.Call) and call_name(last) in ('np.ones', 'numpy.ones'):
                        sense = 1
                    elif isinstance(last, ast.Call) and call_name(last) in ('np.full', 'numpy.full') and len(last.args) >= 2 \
                            and const_num(last.args[1]) in (0, 1):
                        sense = int(const_num(last.args[1]))
        if coef is None or rhs is None or sense is None:
            raise AnalysisError('R14: block for %s not fully interpreted (coef=%s rhs=%s sense=%s)'
                                % (mask, coef, rhs, sense))
        blocks.append({'mask': mask, 'coef': coef, 'rhs': rhs, 'sense': sense, 'node': n})
    appending = [n for n in ast.walk(mod) if isinstance(n, ast.If) and any(
        isinstance(x, ast.Call) and call_name(x).endswith('csr_matrix') for s_ in n.body for x in ast.walk(s_)) and
        any(isinstance(x, ast.Call) and 'vstack' in call_name(x) for s_ in n.body for x in ast.walk(s_))]
    if len(appending) != len(blocks):
        raise AnalysisError('lp.Model.do_math: %d blocks append rows to the primal matrix but only %d are conditional on '
                            'an index set the rule recognises' % (len(appending), len(blocks)))
    if len(blocks) < 2:
        raise AnalysisError('lp.Model.do_math: only %d appended bound-row blocks found' % len(blocks))
    # (with the upper- and lower-bound blocks recognised, a missing block -- e.g. the equality rows of variables fixed
    #  by their bounds -- is a fact about the construction: the case analysis below names the patterns it breaks)
    free_mask = neg_mask = None
    for n in ast.walk(mod):
        if isinstance(n, ast.Assign) and isinstance(n.targets[0], ast.Subscript):
            t = n.targets[0]
            if 'sense' in ntext(t.value) and isinstance(n.value, ast.Constant) and n.value.value == 1 \
                    and isinstance(t.slice, ast.Name) and t.slice.id in masks:
                free_mask = t.slice.id
            if 'linear' in ntext(t.value) and isinstance(n.value, ast.UnaryOp) and \
                    isinstance(n.value.op, ast.USub):
                for x in ast.walk(t.slice):
                    if isinstance(x, ast.Name) and x.id in masks:
                        neg_mask = x.id
    # second form of the sign change: the columns of the primal matrix are scaled by a +-1 vector,
    #     flip = np.ones(nv); flip[mask] = -1; M = M @ sp.diags(flip)
    # which only reaches the row blocks that are already part of M at that point
    flip_line = None
    if neg_mask is None:
        flips = {}
        for n in ast.walk(mod):
            if isinstance(n, ast.Assign) and isinstance(n.targets[0], ast.Subscript) and \
                    isinstance(n.targets[0].value, ast.Name) and isinstance(n.targets[0].slice, ast.Name) and \
                    n.targets[0].slice.id in masks and isinstance(n.value, ast.UnaryOp) and \
                    isinstance(n.value.op, ast.USub) and isinstance(n.value.operand, ast.Constant) and \
                    n.value.operand.value == 1:
                flips[n.targets[0].value.id] = n.targets[0].slice.id
        for n in ast.walk(mod):
            if isinstance(n, ast.Assign) and len(n.targets) == 1 and isinstance(n.targets[0], ast.Name) and \
                    'linear' in n.targets[0].id and isinstance(n.value, ast.BinOp) and \
                    isinstance(n.value.op, ast.MatMult):
                for x in ast.walk(n.value.right):
                    if isinstance(x, ast.Name) and x.id in flips and 'diags' in ntext(n.value.right):
                        neg_mask = flips[x.id]
                        flip_line = n.lineno
    if free_mask is None or neg_mask is None:
        raise AnalysisError('R14: free / non-positive treatment of the dual rows not found')
    for b in blocks:
        # is the block part of the matrix when the sign change is applied?
        b['flipped'] = flip_line is None or b['node'].lineno < flip_line
    # the objective row of the dual (dual_const) must be negated together with the row
    # the objective row of the dual (the `const` handed to the dual LinProg) must be negated together with
    # the row:  c[mask] = -c[mask]  or  c[mask] *= -1
    cname = None
    for n in ast.walk(mod):
        if isinstance(n, ast.Call) and isinstance(n.func, ast.Name) and n.func.id == 'LinProg' and len(n.args) >= 2 \
                and isinstance(n.args[1], ast.Name):
            cname = n.args[1].id
    if cname is None:
        raise AnalysisError('R14: the constant vector of the dual LinProg(..) is not a local')
    neg_const = False
    for n in ast.walk(mod):
        if isinstance(n, ast.Assign) and isinstance(n.targets[0], ast.Subscript) and \
                ntext(n.targets[0].value) == cname and ntext(n.targets[0].slice) == neg_mask and \
                isinstance(n.value, ast.UnaryOp) and isinstance(n.value.op, ast.USub):
            neg_const = True
        if isinstance(n, ast.Assign) and isinstance(n.targets[0], ast.Subscript) and \
                ntext(n.targets[0].value) == cname and ntext(n.targets[0].slice) == neg_mask and \
                isinstance(n.value, ast.BinOp) and isinstance(n.value.op, ast.Mult) and \
                any(ntext(x_) in ('-1', '-1.0') for x_ in (n.value.left, n.value.right)) and \
                any(ntext(x_) == ntext(n.targets[0]) for x_ in (n.value.left, n.value.right)):
            neg_const = True              # c[mask] = -1 * c[mask]
        if isinstance(n, ast.AugAssign) and isinstance(n.op, ast.Mult) and isinstance(n.target, ast.Subscript) and \
                ntext(n.target.value) == cname and ntext(n.target.slice) == neg_mask and \
                isinstance(n.value, ast.UnaryOp) and isinstance(n.value.op, ast.USub) and \
                isinstance(n.value.operand, ast.Constant) and n.value.operand.value == 1:
            neg_const = True
    if not neg_const:
        # "never negated" is only a conclusion when the vector is a plain copy of the primal objective: any
        # other construction (np.where(..), a product with a sign vector) may carry the sign change itself
        def plain(e):
            if isinstance(e, ast.Call) and isinstance(e.func, ast.Attribute) and \
                    e.func.attr in ('copy', 'reshape', 'flatten', 'ravel', 'astype', 'squeeze'):
                return plain(e.func.value)
            if isinstance(e, ast.Call) and call_name(e) in ('np.array', 'numpy.array', 'np.copy', 'numpy.copy',
                                                           'np.asarray', 'numpy.asarray') and e.args:
                return plain(e.args[0])
            while isinstance(e, ast.Attribute):
                e = e.value
            return isinstance(e, ast.Name)
        defs_ = [n.value for n in ast.walk(mod) if isinstance(n, ast.Assign) and len(n.targets) == 1 and
                 isinstance(n.targets[0], ast.Name) and n.targets[0].id == cname]
        if not defs_ or not all(plain(ex(d)) for d in defs_):
            raise AnalysisError('R14: the dual constant `%s` is built by `%s`, a form in which the rule cannot see '
                                'whether the entries of the negated rows change sign'
                                % (cname, '; '.join(ntext(d)[:50] for d in defs_)))
    return fi, masks, blocks, free_mask, neg_mask, neg_const


def represented(masks, blocks, free_mask, neg_mask, lb, ub):
    lo, hi = -INF, INF
    if eval_mask(masks[free_mask], lb, ub):
        pass
    elif eval_mask(masks[neg_mask], lb, ub):
        hi = 0.0
    else:
        lo = 0.0
    rows = []
    for b in blocks:
        if not eval_mask(masks[b['mask']], lb, ub):
            continue
        k, which = b['rhs']
        r = k * (ub if which == 'ub' else lb)
        c = b['coef']
        if not b.get('flipped', True) and eval_mask(masks[neg_mask], lb, ub):
            c = -c          # the row was appended after the column of this x <= 0 variable was negated
        rows.append('%+g x %s %g' % (c, '=' if b['sense'] else '<=', r))
        x0 = r / c
        if b['sense'] == 1:
            lo, hi = max(lo, x0), min(hi, x0)
        elif c > 0:
            hi = min(hi, x0)
        else:
            lo = max(lo, x0)
    return lo, hi, rows


PATTERNS = [(-INF, INF), (-INF, 5.0), (-INF, 0.0), (-INF, -1.0), (-2.0, INF), (-2.0, 5.0), (-2.0, 0.0),
            (-2.0, -1.0), (0.0, INF), (0.0, 5.0), (3.0, INF), (3.0, 5.0),
            (0.0, 0.0), (3.0, 3.0), (-2.0, -2.0)]


def run(repo):
    res = RuleResult(RULE, 'LP dual: bound-pattern case analysis', TEXT)
    res.floor = 15
    fi, masks, blocks, free_mask, neg_mask, neg_const = extract(repo)
    res.functions.add(fi.fq)
    res.notes.append('masks: ' + '; '.join('%s = %s' % (k, ntext(v)) for k, v in sorted(masks.items())))
    res.notes.append('blocks: ' + '; '.join('%s: %+g x %s %+g*%s' % (b['mask'], b['coef'], '=' if b['sense'] else '<=',
                                                                       b['rhs'][0], b['rhs'][1]) for b in blocks))
    # the case analysis below is exact only if the masks are exact comparisons of the bounds
    for mname, mexpr in sorted(masks.items()):
        try:
            eval_mask(mexpr, 0.0, 1.0)
        except AnalysisError:
            continue          # a mask over something else than the bounds (e.g. the senses): not part of this analysis
        except ToleranceMask as exc:
            res.inst({'mask': mname, 'exact_comparison': False}, False)
            res.fail(Finding(RULE, fi.fq, 'tolerance mask ' + mname,
                             'LP dual: the bound pattern `%s` is decided by the tolerance test `%s`: a variable with '
                             'a genuine but narrow range (ub - lb within the relative tolerance, e.g. '
                             '100000 <= x <= 100000.5) is classified like lb == ub and gets the row of a fixed '
                             'variable -- the returned program is then not the dual of the primal'
                             % (mname, exc), repo.where(fi), P))
            res.floor = 1          # the pattern analysis is not run on an inexact mask
            return res
    for lb, ub in PATTERNS:
        lo, hi, rows = represented(masks, blocks, free_mask, neg_mask, lb, ub)
        ok = (lo == lb and hi == ub)
        res.inst({'lb': lb, 'ub': ub, 'represented': [lo, hi] if lo <= hi else 'empty', 'rows': rows, 'ok': ok}, ok)
        if not ok:
            culprit = ''
            for b in blocks:
                if eval_mask(masks[b['mask']], lb, ub) and b['sense'] == 1:
                    culprit = b['mask']
            res.fail(Finding(RULE, fi.fq, 'pattern lb=%g ub=%g' % (lb, ub),
                             'LP dual: for a variable with lb=%g, ub=%g the construction represents %s '
                             '(rows %s) instead of [%g, %g]%s; the "dual" of a feasible bounded LP with '
                             'such a variable is not its dual' % (lb, ub, 'the empty set' if lo > hi
                                                                  else '[%g, %g]' % (lo, hi), rows, lb, ub,
                                                                  ' -- block %s' % culprit if culprit else ''),
                             repo.where(fi), P))
    res.inst({'negated rows also negate the dual constant': neg_const}, neg_const)
    if not neg_const:
        res.fail(Finding(RULE, fi.fq, 'negated row constant',
                         'rows of non-positive variables are negated but the matching entries of the '
                         'dual right-hand side are not', repo.where(fi), P))
    return res
