"""R15 column bookkeeping / integrality alignment (C07, C09).

The `vtype` vector of a compiled program must give column j the type of the variable block
that owns column j.

(a) lp.Model.do_math builds vtype *position-wise*: initialised to 'C' for all self.last columns
    and filled block by block at [item.first : item.first + item.size] in a loop over
    self.vars + self.auxs.  The alternative -- concatenating the blocks' types in list order --
    is only correct when vars + auxs tile [0, last) contiguously, and that invariant does not
    hold in this code base: the front ends allocate formulation-time columns (le_to_rc,
    dro_to_roc, rule_var, DecRule.to_affine) *before* the layers roll their auxiliary columns
    back, so after a re-formulation the non-auxiliary blocks have gaps (checked on every run:
    ro.Model.do_math calls le_to_rc before rc_model.do_math).
(b) every variable allocated at formulation time (calls of .dvar( inside do_math of the layers,
    le_to_rc, dro_to_roc, DecRule.to_affine, IPCone.to_pot / split) is continuous: no vtype
    argument or 'C'; rule_var is the one place that allocates typed columns, from the decision
    variables' own vtype.
(c) the aux rollback (refresh block) of each layer resets auxs and last together.
"""
import ast

from rsx.ctor import bind_args
from .common import (AnalysisError, Finding, RuleResult, MustFlow, ntext, walk_no_nested,
                     body_stmts, is_self_attr, call_name)

RULE = 'R15'
TEXT = ('vtype is built position-wise from each block\'s first/size; formulation-time variables '
        'are continuous; the aux rollback resets auxs and last together')
P = {'props': ['C07', 'C09']}
FORMULATION = ['lp.Model.do_math', 'socp.Model.do_math', 'gcp.Model.do_math', 'lp.RoConstr.le_to_rc',
               'dro.Model.dro_to_roc', 'lp.DecRule.to_affine', 'lp.IPCone.to_pot', 'lp.IPCone.split']


def run(repo):
    res = RuleResult(RULE, 'column bookkeeping / integrality alignment', TEXT)
    res.floor = 12
    fi = repo.func('lp.Model.do_math')
    res.functions.add(fi.fq)
    from .common import expand_locals, single_defs
    xdefs = single_defs(fi.node)
    # the primal program: the LinProg(..) whose vtype argument is a local that is filled from the variables
    ctor = None
    vname = None
    for n in walk_no_nested(fi.node):
        if isinstance(n, ast.Call) and ntext(n.func) == 'LinProg':
            env = bind_args(repo.func('lp.LinProg.__init__'), n)
            v = env.get('vtype') if env else None
            if isinstance(v, ast.Name) and any(
                    isinstance(a, ast.Assign) and any(isinstance(t, ast.Name) and t.id == v.id for t in a.targets)
                    and ('self.vars' in ntext(a.value) or 'self.last' in ntext(a.value))
                    for a in walk_no_nested(fi.node)):
                ctor, vname = n, v.id
    if ctor is None:
        raise AnalysisError('lp.Model.do_math: LinProg(..., vtype, ...) not found')
    defs = [n for n in walk_no_nested(fi.node) if isinstance(n, ast.Assign)
            and any(isinstance(t, ast.Name) and t.id == vname for t in n.targets)]
    stores = [n for n in walk_no_nested(fi.node) if isinstance(n, ast.Assign)
              and isinstance(n.targets[0], ast.Subscript) and ntext(n.targets[0].value) == vname]
    primal_defs = [d for d in defs if 'self.vars' in ntext(d.value) or 'self.last' in ntext(d.value)
                   or "'C'" in ntext(d.value)]
    if not primal_defs:
        raise AnalysisError('lp.Model.do_math: definition of the primal vtype not found')
    d = primal_defs[0]
    concat_form = 'np.concatenate' in ntext(d.value) and 'self.vars' in ntext(d.value)
    positional = False
    if not concat_form:
        init_ok = "'C'" in ntext(d.value) and 'self.last' in ntext(d.value)
        for st in stores:
            sl = st.targets[0].slice
            if isinstance(sl, ast.Slice) and sl.lower is not None and sl.upper is not None:
                lo = ntext(expand_locals(fi.node, sl.lower, defs=xdefs))
                hi = ntext(expand_locals(fi.node, sl.upper, defs=xdefs))
                if lo.endswith('.first') and lo.split('.')[0] in hi and ('.size' in hi or '.last' in hi):
                    positional = init_ok
    # the contiguity invariant is broken by the front ends (documented above): re-validate
    ro_dm = repo.func('ro.Model.do_math')

    class _Order(MustFlow):
        def __init__(self):
            super().__init__()
            self.before = False

        def refine(self, test, branch, state):
            return state

        def visit(self, node, state):
            for n in ast.walk(node):
                if isinstance(n, ast.Call) and isinstance(n.func, ast.Attribute) and n.func.attr == 'le_to_rc' \
                        and 'filled' not in state:
                    self.before = True

        def transfer(self, node, state):
            for n in ast.walk(node):
                if isinstance(n, ast.Call) and ntext(n.func) == 'self.rc_model.do_math':
                    state = state | {'filled'}
            return state
    od = _Order()
    od.run(body_stmts(ro_dm))
    gap_possible = od.before
    ok = positional or (concat_form and not gap_possible)
    res.inst({'vtype_construction': 'position-wise' if positional else 'concatenation' if concat_form else 'unknown',
              'definition': ntext(d.value)[:80], 'formulation_time_columns_precede_aux_rollback': gap_possible,
              'ok': ok}, ok)
    if not ok and not concat_form and not positional:
        raise AnalysisError('lp.Model.do_math: the construction of vtype is neither the concatenation '
                            'idiom nor the position-wise idiom')
    if not ok:
        res.fail(Finding(RULE, fi.fq, 'vtype by concatenation',
                         'lp.Model.do_math concatenates the types of self.vars + self.auxs in list order, '
                         'which equals the column order only if those blocks tile [0, last) without gaps; '
                         'ro/dro allocate robust-counterpart columns before the auxiliary columns of the '
                         'previous formulation are rolled back, so after solve -> st -> solve the vector '
                         'is shorter than the number of columns (IndexError in the MILP interfaces) and '
                         'integer blocks behind the gap would mark the wrong columns',
                         repo.where(fi, d), P))
    # ---------------------------------------------------------------- (b)
    for fq in FORMULATION:
        f2 = repo.func(fq)
        res.functions.add(fq)
        calls = [n for n in walk_no_nested(f2.node) if isinstance(n, ast.Call)
                 and isinstance(n.func, ast.Attribute) and n.func.attr == 'dvar']
        dv = repo.func('lp.Model.dvar')
        for c in calls:
            env = bind_args(dv, c)
            vt = env.get('vtype') if env else None
            if vt is not None:
                from .common import expand_locals
                vt = expand_locals(f2.node, vt)
            if vt is not None and not isinstance(vt, ast.Constant):
                raise AnalysisError('%s: the vtype `%s` of a formulation-time variable is not a literal' % (fq, ntext(vt)[:30]))
            ok = vt is None or vt.value == 'C'
            res.inst({'formulation_time_dvar': fq, 'call': ntext(c)[:50], 'continuous': ok}, ok)
            if not ok:
                res.fail(Finding(RULE, fq, 'typed formulation-time variable: ' + ntext(c)[:40],
                                 '%s allocates a formulation-time variable with vtype=%s; auxiliary / '
                                 'dual / epigraph columns must be continuous' % (fq, ntext(vt)[:20]),
                                 repo.where(f2, c), P))
    rv = repo.func('dro.Model.rule_var')
    dv = repo.func('lp.Model.dvar')
    typed = 0
    ok = True
    why = ''
    for c in [n for n in walk_no_nested(rv.node) if isinstance(n, ast.Call) and isinstance(n.func, ast.Attribute)
              and n.func.attr == 'dvar']:
        env = bind_args(dv, c) or {}
        vt = env.get('vtype')
        if vt is None or (isinstance(vt, ast.Constant) and vt.value == 'C'):
            continue
        typed += 1
        # everything that flows into the type string: its definitions and accumulations
        contrib = [vt]
        if isinstance(vt, ast.Name):
            contrib = [n.value for n in walk_no_nested(rv.node)
                       if (isinstance(n, ast.Assign) and any(isinstance(t, ast.Name) and t.id == vt.id for t in n.targets))
                       or (isinstance(n, ast.AugAssign) and isinstance(n.target, ast.Name) and n.target.id == vt.id)]
        def closure(v, depth=0, seen=None):
            """v together with the definitions of the locals it reads (any number of definitions each)"""
            seen = seen if seen is not None else set()
            out = [v]
            if depth > 4:
                return out
            for x in ast.walk(v):
                if isinstance(x, ast.Name) and x.id not in seen:
                    seen.add(x.id)
                    for n in walk_no_nested(rv.node):
                        if isinstance(n, ast.Assign) and any(isinstance(t, ast.Name) and t.id == x.id for t in n.targets):
                            out += closure(n.value, depth + 1, seen)
                        elif isinstance(n, ast.AugAssign) and isinstance(n.target, ast.Name) and n.target.id == x.id:
                            out += closure(n.value, depth + 1, seen)
                        elif isinstance(n, ast.Call) and isinstance(n.func, ast.Attribute) and \
                                n.func.attr in ('append', 'extend', 'insert') and ntext(n.func.value) == x.id and n.args:
                            out += closure(n.args[-1], depth + 1, seen)       # parts.append(dvar.vtype * k)
            return out
        for v in contrib:
            if isinstance(v, ast.Constant) and v.value == '':
                continue
            if any(isinstance(x, ast.Attribute) and x.attr == 'vtype' for c_ in closure(v) for x in ast.walk(c_)):
                continue
            calls_ = [x for x in ast.walk(v) if isinstance(x, ast.Call) and
                      ntext(x.func) not in ('len', 'str', "''.join", 'list', 'tuple')]
            if calls_:
                raise AnalysisError('rule_var: the type string is built through `%s`, which the rule does not follow'
                                    % ntext(calls_[0])[:40])
            ok = False
            why = ntext(v)[:40]
    if typed == 0:
        ok = False
        why = 'no dvar(.., vtype=..) call is left'
    res.inst({'rule_var': 'typed columns come from the decisions\' own vtype', 'ok': ok}, ok)
    if not ok:
        res.fail(Finding(RULE, rv.fq, 'rule_var vtype', 'rule_var must allocate its constant columns with '
                         'the vtype string assembled from each decision variable\'s own vtype (%s)' % why,
                         repo.where(rv), P))
    # ---------------------------------------------------------------- (c)
    for fq in ('lp.Model.do_math', 'socp.Model.do_math', 'gcp.Model.do_math'):
        f3 = repo.func(fq)
        blk = None
        for n in walk_no_nested(f3.node):
            if isinstance(n, ast.If) and ntext(n.test) == 'refresh':
                blk = n
            elif isinstance(n, ast.If) and ntext(n.test) == 'not refresh' and n.orelse:
                blk = ast.If(test=n.test, body=n.orelse, orelse=[])
                ast.copy_location(blk, n)
        if blk is None:
            raise AnalysisError('%s: `if refresh:` rollback block not found' % fq)
        from .common import expand_locals
        txt = []
        for s_ in blk.body:
            if isinstance(s_, ast.Assign) and len(s_.targets) == 1 and is_self_attr(s_.targets[0], 'last'):
                # a local alias of self.vars[-1] is the same block
                val_ = expand_locals(f3.node, s_.value)
                if isinstance(val_, ast.BinOp) and isinstance(val_.op, ast.Add) and ntext(val_.left).endswith('.size') \
                        and ntext(val_.right).endswith('.first'):
                    val_ = ast.BinOp(left=val_.right, op=ast.Add(), right=val_.left)      # a + b == b + a
                txt.append('self.last = ' + ntext(val_))
            else:
                txt.append(ntext(s_))
        last_assign = [t for t in txt if t.startswith('self.last =')]
        known = ('self.last = self.vars[-1].first + self.vars[-1].size', 'self.last = self.vars[-1].last')
        if last_assign and not any(t in known for t in last_assign):
            rhs = last_assign[0].split('=', 1)[1]
            if '.first' in rhs or '.last' in rhs:
                raise AnalysisError('%s: the rollback computes self.last as `%s`, a form the rule does '
                                    'not interpret' % (fq, last_assign[0]))
            # no reference to the position of a block at all: cannot be the end of the last block
            res.inst({'rollback': fq, 'statements': txt, 'ok': False}, False)
            res.fail(Finding(RULE, fq, 'aux rollback position',
                             '%s rolls the column counter back with `%s`, which does not use the position '
                             '(.first/.last) of the last non-auxiliary block: the non-auxiliary blocks are '
                             'not contiguous after a re-formulation (R15a), so new auxiliary columns would '
                             'be allocated on top of live ones' % (fq, last_assign[0]), repo.where(f3, blk), P))
            continue
        auxs_reset = any(t in ('self.auxs = []', 'self.auxs = list()', 'self.auxs.clear()') for t in txt)
        ok = auxs_reset and bool(last_assign)
        res.inst({'rollback': fq, 'statements': txt, 'ok': ok}, ok)
        if not ok:
            res.fail(Finding(RULE, fq, 'aux rollback', '%s: the refresh block must reset self.auxs to [] '
                             'and self.last to the end of the last non-auxiliary block together' % fq,
                             repo.where(f3, blk), P))
    return res
