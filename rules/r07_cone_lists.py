"""R07 formula consumers account for every cone list.

(a) Every consumer of a formula -- a function reading >= 3 formula fields, at least one of
    them formula-only (qmat xmat lmi ub lb vtype obj), from one root -- handles each of
    `qmat`, `xmat`, `lmi` of that root: iterates it (loop / comprehension), tests it in a
    condition (the `if formula.xmat: warnings.warn(..)` idiom, `len(primal.qmat) == 0`
    early-outs), or passes it through to a program constructor.  The layered dual builders
    (lp / socp / gcp do_math) count as one consumer.  Export / table / repr methods are R21's.
(b) Producer / consumer agreement on the bound code of a dual formula: le_to_rc reads
    support.ub / support.lb only through `== 0`; every value the dual builders can store in
    the ub / lb of the formula they return is in {0, +inf} resp. {-inf, 0} (abstract
    evaluation over the finite value domain {0, 1, +inf, -inf}).
"""
import ast

from .common import (AnalysisError, Finding, RuleResult, ntext, walk_no_nested, body_stmts,
                     is_self_attr, call_name)
from .r04_formula_readonly import FIELDS, PROG_CLASSES

RULE = 'R07'
TEXT = ('every formula consumer iterates, tests (warn/raise/early-out) or passes through each of '
        'qmat, xmat and lmi; the bounds written by the dual builders stay in the code '
        '{0, +-inf} that le_to_rc interprets')
CONES = ('qmat', 'xmat', 'lmi')
FORMULA_ONLY = {'qmat', 'xmat', 'lmi', 'ub', 'lb', 'vtype', 'obj'}
SKIP_NAMES = {'show', 'showlc', 'showqc', 'showec', 'showlmi', '__repr__', 'lp_export', 'to_lp',
              '__init__', 'solve'}
LAYERED = ['lp.Model.do_math', 'socp.Model.do_math', 'gcp.Model.do_math']


def roots_of(fi):
    reads = {}
    for n in walk_no_nested(fi.node):
        if isinstance(n, ast.Attribute) and isinstance(n.value, ast.Name) and n.attr in FIELDS \
                and isinstance(n.ctx, ast.Load):
            reads.setdefault(n.value.id, set()).add(n.attr)
    return {k: v for k, v in reads.items() if len(v) >= 3 and (v & FORMULA_ONLY)}


def _aliases(fi, root, field):
    """local names bound to an expression mentioning root.field"""
    out = set()
    for n in walk_no_nested(fi.node):
        if isinstance(n, ast.Assign) and len(n.targets) == 1 and isinstance(n.targets[0], ast.Name):
            if _mentions(n.value, root, field, set()):
                out.add(n.targets[0].id)
        # lst.extend(root.field) / lst += root.field / lst.append(root.field): lst now holds its elements
        elif isinstance(n, ast.Call) and isinstance(n.func, ast.Attribute) and n.func.attr in ('extend', 'append') \
                and isinstance(n.func.value, ast.Name) and n.args and _mentions(n.args[0], root, field, set()):
            out.add(n.func.value.id)
        elif isinstance(n, ast.AugAssign) and isinstance(n.target, ast.Name) and isinstance(n.op, ast.Add) and \
                _mentions(n.value, root, field, set()):
            out.add(n.target.id)
    return out


def _mentions(expr, root, field, aliases):
    for n in ast.walk(expr):
        if isinstance(n, ast.Attribute) and n.attr == field and isinstance(n.value, ast.Name) \
                and n.value.id == root:
            return True
        if isinstance(n, ast.Name) and n.id in aliases:
            return True
    return False


def handling(repo, fi, root, field):
    """-> list of strings describing how `root.field` is handled in fi (empty = ignored)."""
    al = _aliases(fi, root, field)
    how = []
    for n in walk_no_nested(fi.node):
        if isinstance(n, ast.For) and _mentions(n.iter, root, field, al):
            how.append('loop')
        elif isinstance(n, (ast.ListComp, ast.GeneratorExp, ast.SetComp, ast.DictComp)):
            if any(_mentions(g.iter, root, field, al) for g in n.generators):
                how.append('comprehension')
        elif isinstance(n, ast.If) and _mentions(n.test, root, field, al):
            body_txt = ' '.join(ntext(s) for s in n.body)
            if 'warn' in body_txt:
                how.append('test+warn')
            elif any(isinstance(s, ast.Raise) for s in ast.walk(n)):
                how.append('test+raise')
            else:
                how.append('test')
        elif isinstance(n, ast.Call) and isinstance(n.func, ast.Name):
            r = repo.resolve_name(fi.module, n.func.id)
            if r is not None and getattr(r, 'fq', None) in PROG_CLASSES:
                if any(_mentions(a, root, field, al) for a in n.args):
                    how.append('pass-through')
            elif n.func.id in ('flat', 'len') and any(_mentions(a, root, field, al) for a in n.args):
                how.append('flattened')
    return how


# ---------------------------------------------------------------------------- (b) bound code
INF = 'inf'


def _neg(vals):
    m = {'0': '0', '+inf': '-inf', '-inf': '+inf', '1': '-1', '-1': '1'}
    return {m[v] for v in vals}


def _mul(a, b):
    out = set()
    for x in a:
        for y in b:
            if x == '0' or y == '0':
                out.add('0')
            else:
                sx = -1 if x.startswith('-') else 1
                sy = -1 if y.startswith('-') else 1
                inf = 'inf' in x or 'inf' in y
                s = sx * sy
                out.add(('+inf' if s > 0 else '-inf') if inf else ('1' if s > 0 else '-1'))
    return out


class BoundEval:
    def __init__(self, fi, lower_layer_attrs):
        self.fi = fi
        self.lower = lower_layer_attrs     # e.g. {'dual_lp.ub', 'dual_socp.lb'}
        self.assigns = {}
        self.stores = {}
        for n in walk_no_nested(fi.node):
            if isinstance(n, ast.Assign) and len(n.targets) == 1:
                t = n.targets[0]
                if isinstance(t, ast.Name):
                    self.assigns.setdefault(t.id, []).append(n.value)
                elif isinstance(t, ast.Subscript) and isinstance(t.value, ast.Name):
                    self.stores.setdefault(t.value.id, []).append(n.value)

    def ev(self, e, seen=None, which=None):
        seen = seen or set()
        if isinstance(e, ast.Constant) and isinstance(e.value, (int, float)):
            if e.value == 0:
                return {'0'}
            if e.value == 1:
                return {'1'}
            raise AnalysisError('bound value %r outside the code' % e.value)
        if isinstance(e, ast.Attribute):
            t = ntext(e)
            if t in ('np.inf', 'numpy.inf', 'math.inf'):
                return {'+inf'}
            if t in self.lower:
                return set(self.lower[t])
        if isinstance(e, ast.UnaryOp) and isinstance(e.op, ast.USub):
            return _neg(self.ev(e.operand, seen))
        if isinstance(e, ast.BinOp) and isinstance(e.op, ast.Mult):
            if isinstance(e.left, ast.List):          # [x] * n
                return self.ev(e.left, seen)
            if isinstance(e.right, ast.List):
                return self.ev(e.right, seen)
            return _mul(self.ev(e.left, seen), self.ev(e.right, seen))
        if isinstance(e, (ast.List, ast.Tuple)):
            out = set()
            for x in e.elts:
                out |= self.ev(x, seen)
            return out
        if isinstance(e, ast.Call):
            cn = call_name(e)
            if cn in ('np.zeros', 'numpy.zeros'):
                return {'0'}
            if cn in ('np.ones', 'numpy.ones'):
                return {'1'}
            if cn in ('np.repeat', 'numpy.repeat') and e.args:
                return self.ev(e.args[0], seen)
            if cn in ('np.append', 'numpy.append') and len(e.args) >= 2:
                return self.ev(e.args[0], seen) | self.ev(e.args[1], seen)
            if cn in ('np.full', 'numpy.full') and len(e.args) >= 2:
                return self.ev(e.args[1], seen)
            if cn in ('np.full_like', 'numpy.full_like') and len(e.args) >= 2:
                return self.ev(e.args[1], seen)
            if cn in ('np.zeros_like', 'numpy.zeros_like'):
                return {'0'}
            if cn in ('np.ones_like', 'numpy.ones_like'):
                return {'1'}
            if cn in ('np.array', 'np.concatenate', 'np.hstack', 'numpy.concatenate', 'numpy.hstack'):
                return self.ev(e.args[0], seen)
        if isinstance(e, ast.Subscript):
            return self.ev(e.value, seen)
        if isinstance(e, ast.Name):
            if e.id in seen:
                return set()
            seen = seen | {e.id}
            vals = set()
            found = False
            for v in self.assigns.get(e.id, []) + self.stores.get(e.id, []):
                found = True
                vals |= self.ev(v, seen)
            if not found:
                raise AnalysisError('%s: bound vector `%s` has no interpretable definition'
                                    % (self.fi.fq, e.id))
            return vals
        raise AnalysisError('%s: cannot evaluate the bound expression `%s` over {0, +-inf}'
                            % (self.fi.fq, ntext(e)[:60]))


def dual_bound_sets(repo, fq, lower):
    """Values the dual branch of `fq` can put in the ub / lb of the programs it constructs."""
    fi = repo.func(fq)
    # the dual branch: else-part of `if primal:`
    from .common import primal_dual_arms
    arms = primal_dual_arms(fi)
    dual_body = arms[1] if arms else None
    if dual_body is None:
        raise AnalysisError('%s: `if primal: ... else:` structure not found' % fq)
    ctors = []
    for st in dual_body:
        for n in ast.walk(st):
            if isinstance(n, ast.Call) and isinstance(n.func, ast.Name):
                r = repo.resolve_name(fi.module, n.func.id)
                if r is not None and getattr(r, 'fq', None) in PROG_CLASSES:
                    ctors.append((n, r))
    if not ctors:
        raise AnalysisError('%s: dual branch constructs no program' % fq)
    from rsx.ctor import bind_args
    # restrict the evaluator to assignments inside the dual branch
    class _Sub:
        pass
    sub = _Sub()
    sub.fq = fq
    sub.node = ast.Module(body=dual_body, type_ignores=[])
    be = BoundEval(sub, lower)
    ub, lb = set(), set()
    for call, cls in ctors:
        env = bind_args(repo.resolve_method(cls, '__init__'), call)
        ub |= be.ev(env['ub'])
        lb |= be.ev(env['lb'])
    return ub, lb


def props_for(fq):
    if fq.endswith('_solver.solve') or fq == 'lp.def_sol':
        return ['C11']
    if fq == 'lp.RoConstr.le_to_rc':
        return ['C01', 'C03']
    if fq == 'dro.Ambiguity.mix_support':
        return ['C03', 'C04']
    if fq == 'gcp.GCProg.to_socp':
        return ['C18']
    return ['C08', 'C01', 'C03']


def run(repo):
    res = RuleResult(RULE, 'formula consumers account for every cone list', TEXT)
    res.floor = 40
    layered = {}
    n_cons = 0
    for fi in repo.all_functions():
        if fi.module in ('deco', 'cpt_solver_bkp'):
            continue
        if fi.name in SKIP_NAMES and not fi.module.endswith('_solver'):
            continue
        for root, fields in sorted(roots_of(fi).items()):
            if root == 'self' and fi.cls is not None and fi.name != 'to_socp':
                continue
            res.functions.add(fi.fq)
            n_cons += 1
            for f in CONES:
                how = handling(repo, fi, root, f)
                if fi.fq in LAYERED:
                    layered.setdefault(f, []).extend('%s:%s' % (fi.fq, h) for h in how)
                    continue
                strong = {'loop', 'comprehension', 'test+warn', 'test+raise'}
                if fi.name == 'to_socp':
                    strong = strong | {'pass-through'}
                ok = bool(set(how) & strong)
                res.inst({'consumer': fi.fq, 'root': root, 'list': f, 'handled': sorted(set(how))}, ok)
                if not ok:
                    res.fail(Finding(RULE, fi.fq, '%s.%s ignored' % (root, f),
                                     '%s reads %s of the formula `%s` but never looks at %s.%s: %s '
                                     'constraints of that formula are silently dropped by this consumer'
                                     % (fi.fq, ', '.join(sorted(fields)), root, root, f,
                                        {'qmat': 'second-order cone', 'xmat': 'exponential cone',
                                         'lmi': 'semidefinite'}[f]), repo.where(fi),
                                     {'props': props_for(fi.fq)}))
    for fq in LAYERED:      # the dual builders read `primal`, whatever the number of fields
        fi = repo.func(fq)
        for f in CONES:
            for h in handling(repo, fi, 'primal', f):
                layered.setdefault(f, []).append('%s:%s' % (fq, h))
    for f in CONES:
        how = layered.get(f, [])
        ok = any(h.endswith((':loop', ':comprehension')) for h in how)
        res.inst({'consumer': 'dual builders lp+socp+gcp', 'list': f, 'handled': sorted(set(how))}, ok)
        if not ok:
            res.fail(Finding(RULE, 'gcp.Model.do_math', 'primal.%s ignored' % f,
                             'no layer of the dual construction looks at primal.%s' % f,
                             repo.where(repo.func('gcp.Model.do_math')), {'props': ['C08', 'C01', 'C03']}))
    if n_cons < 14:
        raise AnalysisError('only %d formula consumers found: extractor blind' % n_cons)

    # ---- (b)
    base = {'0', '+inf', '-inf'}
    ub1, lb1 = dual_bound_sets(repo, 'lp.Model.do_math', {})
    ub2, lb2 = dual_bound_sets(repo, 'socp.Model.do_math',
                               {'dual_lp.ub': ub1, 'dual_lp.lb': lb1})
    ub3, lb3 = dual_bound_sets(repo, 'gcp.Model.do_math',
                               {'dual_socp.ub': ub2, 'dual_socp.lb': lb2})
    for fq, ub, lb in (('lp.Model.do_math', ub1, lb1), ('socp.Model.do_math', ub2, lb2),
                       ('gcp.Model.do_math', ub3, lb3)):
        ok = ub <= {'0', '+inf'} and lb <= {'0', '-inf'}
        res.inst({'dual_builder': fq, 'ub_values': sorted(ub), 'lb_values': sorted(lb), 'ok': ok}, ok)
        if not ok:
            res.fail(Finding(RULE, fq, 'dual bound code',
                             'the dual built by %s can carry ub in %s / lb in %s; le_to_rc only '
                             'interprets ub == 0 (multiplier <= 0) and lb == 0 (multiplier >= 0), any '
                             'other finite bound is silently ignored in the robust counterpart'
                             % (fq, sorted(ub), sorted(lb)), repo.where(repo.func(fq)),
                             {'props': ['C08', 'C01', 'C03']}))
    # consumer side: le_to_rc uses support.ub / support.lb only in `== 0`
    lr = repo.func('lp.RoConstr.le_to_rc')
    from .common import single_defs, expand_locals
    ldefs = single_defs(lr.node)
    alias_vals = {id(v) for v in ldefs.values()}       # `x = support.ub`: a hoisted read, judged where x is used
    uses = []
    for n in walk_no_nested(lr.node):
        if isinstance(n, ast.Attribute) and n.attr in ('ub', 'lb') and ntext(n.value) == 'support' \
                and id(n) not in alias_vals:
            uses.append(n)
    cmp_ok = 0
    alias_reads = 0
    for n in walk_no_nested(lr.node):
        if not isinstance(n, ast.Compare):
            continue
        left = expand_locals(lr.node, n.left, defs=ldefs)
        if isinstance(left, ast.Attribute) and left.attr in ('ub', 'lb') \
                and ntext(left.value) == 'support' and isinstance(n.ops[0], ast.Eq) \
                and isinstance(n.comparators[0], ast.Constant) and n.comparators[0].value == 0:
            cmp_ok += 1
            if not isinstance(n.left, ast.Attribute):
                alias_reads += 1
    # reads through an alias are not in `uses`; any other use of the alias name is one more read
    for k, v in ldefs.items():
        if isinstance(v, ast.Attribute) and v.attr in ('ub', 'lb') and ntext(v.value) == 'support':
            n_loads = sum(1 for x in walk_no_nested(lr.node) if isinstance(x, ast.Name) and x.id == k
                          and isinstance(x.ctx, ast.Load))
            uses += [v] * n_loads
    ok = len(uses) == cmp_ok and cmp_ok >= 2
    res.inst({'consumer': 'le_to_rc bound code', 'reads': len(uses), 'as == 0 tests': cmp_ok}, ok)
    if not ok:
        res.fail(Finding(RULE, lr.fq, 'support bound code',
                         'le_to_rc reads support.ub/lb other than through `== 0` tests (%d reads, %d '
                         'tests): the {0, +-inf} code shared with the dual builders no longer holds'
                         % (len(uses), cmp_ok), repo.where(lr), {'props': ['C08', 'C01', 'C03']}))
    # and the sign of the multiplier bound each test produces
    sign_ok = _le_to_rc_signs(lr)
    res.inst({'consumer': 'le_to_rc multiplier signs', 'ok': sign_ok}, sign_ok)
    if not sign_ok:
        res.fail(Finding(RULE, lr.fq, 'multiplier sign',
                         'le_to_rc must bound the multipliers by `<= 0` where support.ub == 0 and by '
                         '`>= 0` where support.lb == 0', repo.where(lr), {'props': ['C08', 'C01', 'C03']}))
    return res


def _le_to_rc_signs(lr):
    """index_pos = (support.ub == 0) -> dual_var[:, index_pos] <= 0 ; index_neg = (support.lb == 0)
    -> dual_var[:, index_neg] >= 0.  A mask name may be reused for the two bounds (at_zero = support.ub == 0; ..;
    at_zero = support.lb == 0; ..): each read is resolved through the definitions that reach it."""
    from .common import single_defs, expand_locals
    from rsx.webs import reaching_values
    ldefs = single_defs(lr.node)
    reach = reaching_values(lr.node)
    got = {}
    for n in walk_no_nested(lr.node):
        if isinstance(n, ast.Compare) and len(n.ops) == 1 and isinstance(n.left, ast.Subscript) and \
                isinstance(n.comparators[0], ast.Constant) and n.comparators[0].value == 0:
            # the column mask of the multiplier block, with hoisted masks / aliases expanded
            sl = n.left.slice
            texts = [ntext(expand_locals(lr.node, sl, depth=3, defs=ldefs)).replace(' ', '')]
            for x in ast.walk(sl):
                if isinstance(x, ast.Name) and x.id not in ldefs:
                    vals = reach.get(id(x))
                    if vals and all(v is not None for v in vals):
                        texts += [ntext(expand_locals(lr.node, v, depth=3, defs=ldefs)).replace(' ', '') for v in vals]
            for idx in texts:
                for which in ('ub', 'lb'):
                    if 'support.%s==0' % which in idx:
                        got.setdefault(which, set()).add(type(n.ops[0]).__name__)
    return got.get('ub') == {'LtE'} and got.get('lb') == {'GtE'}
