"""R38 a cache token has one consumer (C09, C18).

pupdate / dupdate are set by every mutator and cleared by the do_math that refreshes the cache they guard.  A second
cache guarded by the same token (a memo of the SOC approximation in soc_solve, say) misses every invalidation the
owner has already consumed: change the model, call solve() -- the token is cleared -- and the second cache is served
stale.  T: a method that tests self.pupdate / self.dupdate also clears it.  (The analysis lives next to R02:
rules/r02_invalidation.token_consumers.)
"""
from .common import RuleResult
from .r02_invalidation import token_consumers

RULE = 'R38'
TEXT = 'a method that decides from self.pupdate / self.dupdate whether a cached object is valid also clears that token'


def run(repo):
    res = RuleResult(RULE, 'single consumer of a cache token', TEXT)
    res.floor = 4
    token_consumers(repo, res, RULE)
    return res
