"""R31 writer / reader agreement on the layout of the event-wise decision columns (C12, C13).

dro.Model.rule_var lays the constant part of every decision out as
        [ decision d ][ event e of d ][ entry k ]      offset(d) + size(d) * e + k
with offset(d) the running sum of size(d') * (#events of d') over the earlier decisions; it
records offset(d) in d.ro_first *before* adding d's own block.  DecVar.get() reads the values
back with  ro_first + e * size + k.  The rule extracts both index expressions and both running
sums and requires the same three-term form (base + size*event + arange(size)) with
  * the event factor an event position on both sides (edict[s] in the writer -- scenario -> event
    -- and the loop variable over range(len(event_adapt)) in the reader),
  * the same block length size * len(event_adapt) in the two running sums of the writer,
  * ro_first assigned from the running sum before it is advanced.
"""
import ast

from .common import (AnalysisError, Finding, RuleResult, ntext, walk_no_nested, call_name, accum)

RULE = 'R31'
TEXT = ('rule_var (writer) and DecVar.get (reader) use the same column layout '
        'offset + size*event + entry, with offsets accumulated identically')
P = {'props': ['C12', 'C13']}


def add_terms(e):
    if isinstance(e, ast.BinOp) and isinstance(e.op, ast.Add):
        return add_terms(e.left) + add_terms(e.right)
    return [e]


def mul_factors(e):
    if isinstance(e, ast.BinOp) and isinstance(e.op, ast.Mult):
        return mul_factors(e.left) + mul_factors(e.right)
    return [e]


def classify_index(expr):
    """-> dict(base=text, size=text, event=text, k=text) or raises AnalysisError"""
    out = {}
    for t in add_terms(expr):
        if isinstance(t, ast.Call) and call_name(t) in ('np.arange', 'numpy.arange'):
            out['k'] = ntext(t.args[0])
        elif isinstance(t, ast.BinOp) and isinstance(t.op, ast.Mult):
            fs = mul_factors(t)
            if len(fs) != 2:
                raise AnalysisError('R31: product `%s` has %d factors' % (ntext(t), len(fs)))
            sizes = [f for f in fs if ntext(f).endswith('size')]
            if len(sizes) != 1:
                raise AnalysisError('R31: cannot find the block size in `%s`' % ntext(t))
            out['size'] = ntext(sizes[0])
            out['event'] = [f for f in fs if f is not sizes[0]][0]
        else:
            out['base'] = ntext(t)
    if set(out) != {'k', 'size', 'event', 'base'}:
        raise AnalysisError('R31: index expression `%s` is not base + size*event + arange(size)' % ntext(expr)[:60])
    return out


def run(repo):
    res = RuleResult(RULE, 'layout agreement rule_var / DecVar.get', TEXT)
    res.floor = 5
    rv = repo.func('dro.Model.rule_var')
    gt = repo.func('lp.DecVar.get')
    res.functions.update([rv.fq, gt.fq])
    # ---- writer
    w_index = None
    for n in walk_no_nested(rv.node):
        if isinstance(n, ast.Call) and isinstance(n.func, ast.Attribute) and n.func.attr == 'extend' \
                and ntext(n.func.value) == 'index' and w_index is None:
            arg = n.args[0]
            while isinstance(arg, ast.Call) and call_name(arg) in ('list', 'tuple'):
                arg = arg.args[0]
            if 'size' in ntext(arg) and 'num' not in ntext(arg):
                w_index = arg
    if w_index is None:
        raise AnalysisError('rule_var: index.extend(start + size*edict[s] + arange(size)) not found')
    w = classify_index(w_index)
    # the running sum recorded in ro_first: the name on the right of  <d>.ro_first = <name>
    count_var = None
    for n in walk_no_nested(rv.node):
        if isinstance(n, ast.Assign) and isinstance(n.targets[0], ast.Attribute) and \
                n.targets[0].attr == 'ro_first' and isinstance(n.value, ast.Name):
            count_var = n.value.id
    if count_var is None:
        raise AnalysisError('rule_var: `<decision>.ro_first = <running sum>` not found')
    incs = {}
    for n in walk_no_nested(rv.node):
        a = accum(n)
        if a is not None and a[0] in (count_var, w['base']):
            incs[a[0]] = sorted(ntext(f).replace('dvar.', '').replace('self.', '') for f in mul_factors(a[1]))
    # ---- reader
    r_index = None
    for n in walk_no_nested(gt.node):
        if isinstance(n, ast.Assign) and isinstance(n.targets[0], ast.Name) and 'ro_first' in ntext(n.value):
            r_index = n.value
    if r_index is None:
        raise AnalysisError('DecVar.get: index expression with ro_first not found')
    r = classify_index(r_index)

    def rec(desc, ok, msg, fi):
        res.inst({'check': desc, 'ok': ok}, ok)
        if not ok:
            res.fail(Finding(RULE, fi.fq, desc, msg, repo.where(fi), P))

    # event factors
    w_ev_ok = isinstance(w['event'], ast.Subscript) and isinstance(w['event'].value, ast.Name) and any(
        isinstance(n, ast.Assign) and ntext(n.targets[0]) == w['event'].value.id and
        isinstance(n.value, ast.Call) and call_name(n.value) == 'event_dict' for n in walk_no_nested(rv.node))
    rec('writer: event factor is event_dict(..)[scenario]', w_ev_ok,
        'rule_var multiplies the block size by `%s`, which is not the event position of the scenario '
        '(event_dict(dvar.event_adapt)[s])' % ntext(w['event']), rv)
    r_ev = ntext(r['event'])
    r_ev_ok = any(isinstance(n, ast.For) and isinstance(n.target, ast.Name) and n.target.id == r_ev and
                  'len(self.event_adapt)' in ntext(n.iter) and
                  any(r_index is x for x in ast.walk(n)) for n in walk_no_nested(gt.node))
    rec('reader: event factor ranges over the event positions', r_ev_ok,
        'DecVar.get multiplies the block size by `%s`, which does not range over range(len(self.event_adapt))'
        % r_ev, gt)
    rec('entry term is arange(size) on both sides', w['k'].split('.')[-1] == 'size' and r['k'].split('.')[-1] == 'size'
        and w['size'].split('.')[-1] == 'size' and r['size'].split('.')[-1] == 'size',
        'writer uses arange(%s) with size %s, reader arange(%s) with size %s' % (w['k'], w['size'], r['k'], r['size']), gt)
    rec('reader base is ro_first', r['base'].endswith('ro_first'),
        'DecVar.get starts from `%s`, not from ro_first' % r['base'], gt)
    # running sums
    inc_ok = count_var in incs and w['base'] in incs and incs[count_var] == incs[w['base']] and \
        any('len(' in x for x in incs[count_var]) and 'size' in incs[count_var]
    rec('writer: both running sums advance by size * len(event_adapt)', inc_ok,
        'rule_var advances `%s` by %s and `%s` by %s; both must be size * len(event_adapt)'
        % (count_var, incs.get(count_var), w['base'], incs.get(w['base'])), rv)
    # ro_first assigned from count before count advances (same loop body, earlier statement)
    order_ok = False
    for n in walk_no_nested(rv.node):
        if isinstance(n, ast.For):
            a = [i for i, s_ in enumerate(n.body) if isinstance(s_, ast.Assign) and
                 isinstance(s_.targets[0], ast.Attribute) and s_.targets[0].attr == 'ro_first']
            b = [i for i, s_ in enumerate(n.body) if (accum(s_) or (None,))[0] == count_var]
            if a and b and a[0] < b[0]:
                order_ok = True
    rec('writer: ro_first recorded before the running sum advances', order_ok,
        'rule_var must assign dvar.ro_first = count before adding the decision\'s own block to count', rv)
    return res
