"""R31 writer / reader agreement on the layout of the event-wise decision columns (C12, C13).

dro.Model.rule_var lays the constant part of every decision out as
        [ decision d ][ event e of d ][ entry k ]      offset(d) + size(d) * e + k
with offset(d) the running sum of size(d') * (#events of d') over the earlier decisions; it
records offset(d) in d.ro_first *before* adding d's own block.  DecVar.get() reads the values
back with  ro_first + e * size + k.  The rule extracts both index expressions and both running
sums and requires the same three-term form (base + size*event + arange(size)) with
  * the event factor an event position on both sides (edict[s] in the writer -- scenario -> event
    -- and the loop variable over range(len(event_adapt)) in the reader),
  * the same block length size * len(event_adapt) in the two running sums of the writer,
  * ro_first assigned from the running sum before it is advanced.
"""
import ast

from .common import (AnalysisError, Finding, RuleResult, ntext, walk_no_nested, call_name, accum,
                     single_defs, expand_locals, pmatch)

RULE = 'R31'
TEXT = ('rule_var (writer) and DecVar.get (reader) use the same column layout '
        'offset + size*event + entry, with offsets accumulated identically')
P = {'props': ['C12', 'C13']}


def add_terms(e):
    if isinstance(e, ast.BinOp) and isinstance(e.op, ast.Add):
        return add_terms(e.left) + add_terms(e.right)
    return [e]


def mul_factors(e):
    if isinstance(e, ast.BinOp) and isinstance(e.op, ast.Mult):
        return mul_factors(e.left) + mul_factors(e.right)
    return [e]


def classify_index(expr):
    """-> dict(base=text, size=text, event=node, k=text) or raises AnalysisError"""
    out = {}
    for t in add_terms(expr):
        if isinstance(t, ast.Call) and call_name(t) in ('np.arange', 'numpy.arange'):
            pos = [a for a in t.args]
            if len(pos) == 2 and isinstance(pos[0], ast.Constant) and pos[0].value == 0:
                pos = pos[1:]                     # arange(0, n) == arange(n)
            if len(pos) != 1:
                raise AnalysisError('R31: `%s` is not arange(size)' % ntext(t))
            out['k'] = ntext(pos[0])
        elif isinstance(t, ast.BinOp) and isinstance(t.op, ast.Mult):
            fs = mul_factors(t)
            if len(fs) != 2:
                raise AnalysisError('R31: product `%s` has %d factors' % (ntext(t), len(fs)))
            sizes = [f for f in fs if ntext(f).endswith('size')]
            if len(sizes) != 1:
                raise AnalysisError('R31: cannot find the block size in `%s`' % ntext(t))
            out['size'] = ntext(sizes[0])
            out['event'] = [f for f in fs if f is not sizes[0]][0]
        else:
            out['base'] = ntext(t)
    if set(out) != {'k', 'size', 'event', 'base'}:
        raise AnalysisError('R31: index expression `%s` is not base + size*event + arange(size)' % ntext(expr)[:60])
    return out


def run(repo):
    res = RuleResult(RULE, 'layout agreement rule_var / DecVar.get', TEXT)
    res.floor = 5
    rv = repo.func('dro.Model.rule_var')
    gt = repo.func('lp.DecVar.get')
    res.functions.update([rv.fq, gt.fq])
    wdefs = {k: v for k, v in single_defs(rv.node).items() if k not in ('size',)}
    rdefs = single_defs(gt.node)

    def wx(e):
        return expand_locals(rv.node, e, depth=3, defs=wdefs)

    def rx(e):
        return expand_locals(gt.node, e, depth=3, defs=rdefs)

    def strip(e):
        while isinstance(e, ast.Call) and call_name(e) in ('list', 'tuple') and e.args:
            e = e.args[0]
        return e
    # ---- writer: the first  <index list>.extend(..) / += ..  whose argument mentions a size (not `num`)
    w_index = None
    for n in sorted(walk_no_nested(rv.node), key=lambda x: (getattr(x, 'lineno', 0), getattr(x, 'col_offset', 0))):
        arg = None
        if isinstance(n, ast.Call) and isinstance(n.func, ast.Attribute) and n.func.attr == 'extend' and n.args:
            arg = n.args[0]
        elif isinstance(n, ast.AugAssign) and isinstance(n.op, ast.Add) and isinstance(n.target, ast.Name):
            arg = n.value
        if arg is None or w_index is not None:
            continue
        arg = wx(strip(arg))
        if 'size' in ntext(arg) and 'arange' in ntext(arg) and 'num' not in ntext(arg).replace('num_', ''):
            w_index = arg
    if w_index is None:
        raise AnalysisError('rule_var: index.extend(start + size*edict[s] + arange(size)) not found')
    w = classify_index(w_index)
    # the running sum recorded in ro_first: the name on the right of  <d>.ro_first = <name>
    count_var = None
    for n in walk_no_nested(rv.node):
        if isinstance(n, ast.Assign) and isinstance(n.targets[0], ast.Attribute) and \
                n.targets[0].attr == 'ro_first' and isinstance(n.value, ast.Name):
            count_var = n.value.id
    if count_var is None:
        raise AnalysisError('rule_var: `<decision>.ro_first = <running sum>` not found')
    incs = {}
    from .common import zip_elem_defs, expand_locals as _xl
    zdefs = zip_elem_defs(rv.node)            # for dvar, width in zip(self.dec_vars, widths): width is size*len(..)
    for n in sorted(walk_no_nested(rv.node), key=lambda x: (getattr(x, 'lineno', 0), getattr(x, 'col_offset', 0))):
        a = accum(n)
        if a is not None and a[0] in (count_var, w['base']) and a[0] not in incs:
            # (the first accumulation in document order: the block of the constant columns, where the
            #  index expression found above lives; the name is reused for the coefficient columns further down)
            if zdefs:
                a = (a[0], _xl(rv.node, a[1], defs=zdefs))
            for f_ in mul_factors(wx(a[1])):
                if isinstance(f_, ast.Name):
                    raise AnalysisError('rule_var: the running sum `%s` advances by `%s`, a local the rule cannot '
                                        'read through' % (a[0], f_.id))
            incs[a[0]] = sorted(ntext(f).split('.')[-1] if not ntext(f).startswith('len(') else
                                'len(' + ntext(f)[4:-1].split('.')[-1] + ')' for f in mul_factors(wx(a[1])))
    if count_var not in incs or w['base'] not in incs:
        raise AnalysisError('rule_var: the running sums `%s` / `%s` are not advanced by  x += ..' % (count_var, w['base']))
    # ---- reader
    r_index = None
    for n in walk_no_nested(gt.node):
        if isinstance(n, ast.Assign) and isinstance(n.targets[0], ast.Name) and 'ro_first' in ntext(rx(n.value)) \
                and 'arange' in ntext(rx(n.value)):
            r_index = n
    if r_index is None:
        raise AnalysisError('DecVar.get: index expression with ro_first not found')
    r = classify_index(rx(r_index.value))

    def rec(desc, ok, msg, fi):
        res.inst({'check': desc, 'ok': ok}, ok)
        if not ok:
            res.fail(Finding(RULE, fi.fq, desc, msg, repo.where(fi), P))

    # event factors
    st, b, _d = pmatch('event_dict(__)[_s]', w['event'])
    if st == 'shape':
        raise AnalysisError('rule_var: the event factor `%s` is not event_dict(..)[scenario] in a form the rule follows'
                            % ntext(w['event'])[:50])
    s_ok = st == 'match' and any(isinstance(n, ast.For) and isinstance(n.target, ast.Name) and n.target.id == b['_s'][1]
                                 and 'num_scen' in ntext(wx(n.iter)) for n in walk_no_nested(rv.node))
    rec('writer: event factor is event_dict(..)[scenario]', s_ok,
        'rule_var multiplies the block size by `%s`, which is not the event position of the scenario '
        '(event_dict(dvar.event_adapt)[s])' % ntext(w['event']), rv)
    r_ev = ntext(r['event'])
    loops = [n for n in walk_no_nested(gt.node) if isinstance(n, ast.For) and any(x is r_index for x in ast.walk(n))]
    r_ev_ok = False
    known_shape = False
    for n in loops:
        it = rx(n.iter)
        if isinstance(n.target, ast.Name) and n.target.id == r_ev:
            known_shape = True
            r_ev_ok = pmatch('range(len(self.event_adapt))', it)[0] == 'match'
        elif isinstance(n.target, ast.Tuple) and n.target.elts and ntext(n.target.elts[0]) == r_ev:
            known_shape = True
            r_ev_ok = pmatch('enumerate(self.event_adapt)', it)[0] == 'match'
    if not known_shape:
        raise AnalysisError('DecVar.get: the loop binding the event factor `%s` was not found' % r_ev)
    rec('reader: event factor ranges over the event positions', r_ev_ok,
        'DecVar.get multiplies the block size by `%s`, which does not range over the positions of self.event_adapt'
        % r_ev, gt)
    rec('entry term is arange(size) on both sides', w['k'].split('.')[-1] == 'size' and r['k'].split('.')[-1] == 'size'
        and w['size'].split('.')[-1] == 'size' and r['size'].split('.')[-1] == 'size',
        'writer uses arange(%s) with size %s, reader arange(%s) with size %s' % (w['k'], w['size'], r['k'], r['size']), gt)
    rec('reader base is ro_first', r['base'].endswith('ro_first'),
        'DecVar.get starts from `%s`, not from ro_first' % r['base'], gt)
    # running sums
    inc_ok = incs[count_var] == incs[w['base']] and \
        any('len(' in x for x in incs[count_var]) and 'size' in incs[count_var]
    rec('writer: both running sums advance by size * len(event_adapt)', inc_ok,
        'rule_var advances `%s` by %s and `%s` by %s; both must be size * len(event_adapt)'
        % (count_var, incs.get(count_var), w['base'], incs.get(w['base'])), rv)
    order_ok = False
    for n in walk_no_nested(rv.node):
        if isinstance(n, ast.For):
            a = [i for i, s_ in enumerate(n.body) if isinstance(s_, ast.Assign) and
                 isinstance(s_.targets[0], ast.Attribute) and s_.targets[0].attr == 'ro_first']
            b_ = [i for i, s_ in enumerate(n.body) if (accum(s_) or (None,))[0] == count_var]
            if a and b_ and a[0] < b_[0]:
                order_ok = True
    rec('writer: ro_first recorded before the running sum advances', order_ok,
        'rule_var must assign dvar.ro_first = count before adding the decision\'s own block to count', rv)
    return res
