"""R25 rebuilt objects keep every field, and every field is consumed.  (R16 = its dro instance.)

(a) Propagation.  For every class K of the expression / constraint algebra and every own method
    M (not __init__) that returns a constructor call K2(...) with K2 == K or K2 a base of K: every
    constructor parameter p of K2 that __init__ stores as the field self.p must be *bound* in
    that call.  A parameter left at its default while the receiver may hold another value is
    dropped on the way (the result silently means something else).
(b) Inherited leak.  For every subclass S that adds constructor fields to its base K and does
    not override a method M of K that returns exactly K(...): calling M on an S returns a K
    without S's fields.  Reported when S and K live in the same front end (a Dec* result
    degraded to a non-Dec* object is rejected loudly by dro.Model.st and is only noted).
(c) Liveness.  A constructor parameter stored as a field and never loaded anywhere in the
    package is dead: whatever the caller put there cannot influence the compiled program.
"""
import ast

from rsx.ctor import bind_args, MISSING
from .common import (AnalysisError, Finding, RuleResult, ClassInfo, ntext, walk_no_nested,
                     is_self_attr, body_stmts, MustFlow)

RULE = 'R25'
TEXT = ('operators that rebuild an expression from self pass on every constructor field; a '
        'subclass does not inherit a method that returns its base class without the subclass\'s '
        'fields; no constructor field is stored and never read')

SCOPE_SKIP = {'Model', 'LinProg', 'SOCProg', 'GCProg', 'Solution', 'SparseVec', 'Scen', 'ScenLoc',
              'ScenILoc', 'RandVal'}
# (class, param): reason -- parameters that are deliberately not propagated
EXEMPT_PARAM = {
    ('lp.Affine', 'sparray'): 'memo of the index array, rebuilt on demand from the shape',
    ('lp.Vars', 'sparray'): 'memo',
    ('lp.DecAffine', 'event_adapt@E'): 'an expectation is not event-wise: E() resets the partition',
    ('lp.PWConstr', 'supp_set'): 'the set is already pushed into every piece by forall()',
    ('lp.LinConstr', 'sign'): 'never set to a non-default value anywhere',
    ('lp.Vars', 'name'): 'display only',
    ('lp.DecVar', 'name'): 'display only',
}
# methods whose purpose is to change the field they do not propagate
EXEMPT_METHOD = {
    ('lp.DecAffine', 'E'): 'sets ctype to E and resets the event partition by definition',
    ('lp.DecVar', 'E'): 'idem',
    ('lp.DecVarSub', 'E'): 'idem',
    ('lp.DecRoAffine', 'E'): 'sets ctype',
    ('lp.DecAffine', '__add__'): 'binary combination table (ctype: E wins; comb_set of partitions) -- R16b',
    ('lp.DecRoAffine', '__add__'): 'binary combination table -- R16b',
}
DEAD_OK = {
    ('gcp.Model', 'psd_vars'): 'not a constructor parameter; unused bookkeeping',
    ('lp.Model', 'nobj'): 'consumed in __init__ itself (creates the objective variable)',
    ('lp.Affine', 'expect'): 'not a constructor parameter; unused flag',
    ('lp.PWConstr', 'supp_set'): 'the set is already pushed into the pieces',
    ('lp.IPCone', 'branches'): 'bookkeeping of split(), not a parameter',
    ('lp.Solution', 'xs'): 'never set by any interface',
}


def stored_params(repo, ci):
    """{param: field} for `self.field = param` in ci.__init__ (own class only, plus what its
    super().__init__ chain stores, by recursion)."""
    out = {}
    for c in repo.mro(ci):
        init = c.methods.get('__init__')
        if init is None:
            continue
        params = set(init.params[1:]) | set(init.kwonly)
        for n in walk_no_nested(init.node):
            if isinstance(n, ast.Assign) and len(n.targets) == 1 and is_self_attr(n.targets[0]) \
                    and isinstance(n.value, ast.Name) and n.value.id in params and c is ci:
                out[n.value.id] = n.targets[0].attr
        if c is ci:
            break
    return out


def returned_ctor_calls(repo, fi):
    """[(call, ClassInfo)] for `return K(...)` and `x = K(...); ...; return x` (single binding)."""
    out = []
    binds = {}
    for n in walk_no_nested(fi.node):
        if isinstance(n, ast.Assign) and len(n.targets) == 1 and isinstance(n.targets[0], ast.Name):
            binds.setdefault(n.targets[0].id, []).append(n.value)
    for n in walk_no_nested(fi.node):
        if isinstance(n, ast.Return) and n.value is not None:
            vals = [n.value]
            if isinstance(n.value, ast.Name):
                vals = binds.get(n.value.id, [])
            for v in vals:
                if isinstance(v, ast.Call) and isinstance(v.func, ast.Name):
                    r = repo.resolve_name(fi.module, v.func.id)
                    if isinstance(r, ClassInfo):
                        out.append((v, r))
    return out


def in_scope(ci):
    return ci.module == 'lp' and ci.name not in SCOPE_SKIP


def run(repo):
    res = RuleResult(RULE, 'rebuilt objects keep every field; every field is consumed', TEXT)
    res.floor = 60
    # ------------------------------------------------------------------ (a)
    for ci in repo.module('lp').classes.values():
        if not in_scope(ci):
            continue
        for name, fi in sorted(ci.methods.items()):
            if name in ('__init__', '__repr__', '__str__') or fi.absorbed:
                continue
            for call, k2 in returned_ctor_calls(repo, fi):
                if not (k2 is ci or repo.is_subclass(ci, k2)):
                    continue
                init = repo.resolve_method(k2, '__init__')
                if init is None:
                    continue
                env = bind_args(init, call)
                if env is None:
                    raise AnalysisError('cannot bind constructor call in %s' % fi.fq)
                explicit = set()
                a = init.node.args
                pos = [p.arg for p in a.posonlyargs + a.args][1:]
                for p, _v in zip(pos, call.args):
                    explicit.add(p)
                for kw in call.keywords:
                    explicit.add(kw.arg)
                sp = stored_params(repo, k2)
                res.functions.add(fi.fq)
                for p, field in sorted(sp.items()):
                    const_bound = p in explicit and isinstance(env.get(p), ast.Constant) and \
                        (ci.fq, name) not in EXEMPT_METHOD and field in _own_fields(repo, ci)
                    if const_bound:
                        # spelling out the default (sparray=None) is the same as leaving the parameter out
                        allp = [x.arg for x in a.posonlyargs + a.args]
                        dflt = dict(zip(allp[len(allp) - len(a.defaults):], a.defaults))
                        d = dflt.get(p)
                        if isinstance(d, ast.Constant) and d.value == env[p].value and type(d.value) is type(env[p].value):
                            const_bound = False
                            explicit = explicit - {p}
                    if const_bound:
                        ok = False
                    elif p in explicit:
                        ok = True
                    elif (k2.fq, p) in EXEMPT_PARAM or (ci.fq, name) in EXEMPT_METHOD or \
                            (ci.fq, '%s@%s' % (p, name)) in EXEMPT_PARAM:
                        ok = True
                    else:
                        ok = False
                    res.inst({'method': fi.fq, 'rebuilds': k2.name, 'param': p,
                              'bound': p in explicit, 'ok': ok}, ok)
                    if not ok and const_bound:
                        res.fail(Finding(RULE, fi.fq, '%s(...): %s = constant' % (k2.name, p),
                                         '%s rebuilds %s from self with `%s` fixed to the constant %s '
                                         'instead of self.%s' % (fi.fq, k2.name, p, ntext(env[p]), field),
                                         repo.where(fi, call), {'props': _props(ci, p)}))
                    elif not ok:
                        res.fail(Finding(RULE, fi.fq, '%s(...): %s not passed' % (k2.name, p),
                                         '%s returns %s(...) built from self without passing `%s` '
                                         '(stored as self.%s): the result falls back to the default '
                                         'and silently loses what the receiver carried'
                                         % (fi.fq, k2.name, p, field), repo.where(fi, call),
                                         {'props': _props(ci, p)}))
    # ------------------------------------------------------------------ (b)
    for s in repo.module('lp').classes.values():
        if not in_scope(s) or not s.bases:
            continue
        k = s.bases[0]
        if not in_scope(k):
            continue
        extra = set(stored_params(repo, s).values()) - set(stored_params(repo, k).values())
        own_init = s.methods.get('__init__')
        if own_init is not None:
            for n in walk_no_nested(own_init.node):
                if isinstance(n, ast.Assign):
                    for t in n.targets:
                        if is_self_attr(t):
                            extra.add(t.attr)
        base_fields = set()
        for c in repo.mro(k):
            i2 = c.methods.get('__init__')
            if i2:
                for n in walk_no_nested(i2.node):
                    if isinstance(n, ast.Assign):
                        for t in n.targets:
                            if is_self_attr(t):
                                base_fields.add(t.attr)
        extra -= base_fields
        if not extra:
            continue
        for c in repo.mro(k):
            if not in_scope(c):
                continue
            for name, fi in sorted(c.methods.items()):
                if name in ('__init__', '__repr__', '__str__', '__call__') or fi.absorbed:
                    continue
                if repo.resolve_method(s, name) is not fi:
                    continue                      # overridden somewhere between S and c
                for call, k2 in returned_ctor_calls(repo, fi):
                    if k2 is not c:
                        continue
                    same_front = s.name.startswith(('Dec', 'Rand')) == k2.name.startswith(('Dec', 'Rand'))
                    ok = not same_front
                    res.inst({'subclass': s.fq, 'inherits': fi.fq, 'returns': k2.name,
                              'loses': sorted(extra), 'same_front_end': same_front}, ok)
                    if not ok:
                        res.fail(Finding(RULE, fi.fq, '%s inherits -> %s' % (s.name, k2.name),
                                         '%s does not override %s, which returns a plain %s(...): '
                                         'called on a %s the result loses %s and is compiled as if '
                                         'those fields had their defaults'
                                         % (s.fq, fi.fq, k2.name, s.name, sorted(extra)),
                                         repo.where(fi, call), {'props': ['C06', 'C12']}))
    # ------------------------------------------------------------------ (c)
    loads = {}
    for m in repo.modules.values():
        for n in ast.walk(m.tree):
            if isinstance(n, ast.Attribute) and isinstance(n.ctx, ast.Load):
                loads[n.attr] = loads.get(n.attr, 0) + 1
            elif isinstance(n, ast.AugAssign) and isinstance(n.target, ast.Attribute):
                loads[n.target.attr] = loads.get(n.target.attr, 0) + 1      # x.f += v reads x.f
    for ci in repo.all_classes():
        if ci.module in ('deco', 'cpt_solver_bkp'):
            continue
        init = ci.methods.get('__init__')
        if init is None:
            continue
        for n in walk_no_nested(init.node):
            if isinstance(n, ast.Assign):
                for t in n.targets:
                    if is_self_attr(t):
                        dead = loads.get(t.attr, 0) == 0
                        if not dead:
                            continue
                        ok = (ci.fq, t.attr) in DEAD_OK
                        res.inst({'class': ci.fq, 'field': t.attr, 'never_read': True, 'accepted': ok}, ok)
                        if not ok:
                            res.fail(Finding(RULE, ci.fq + '.__init__', 'dead field self.%s' % t.attr,
                                             '%s stores self.%s but nothing in the package ever reads '
                                             '.%s: a value a public method puts there (e.g. the axis of '
                                             'sum()) cannot reach the compiled program or the evaluator'
                                             % (ci.fq, t.attr, t.attr), repo.where(init, n),
                                             {'props': ['C06', 'C12']}))
    fixed_flag_dependency(repo, res)
    return res


def _own_fields(repo, ci):
    out = set()
    for c in repo.mro(ci):
        out |= set(stored_params(repo, c).values())
    return out


def _props(ci, p):
    if ci.name.startswith('Dec') and p in ('ctype', 'event_adapt', 'fixed'):
        return ['C04', 'C13', 'C06'] if p == 'ctype' else ['C13', 'C06']
    return ['C06', 'C12']


# ----------------------------------------------------------------------------- (d) the `fixed` flag only decays
def fixed_flag_dependency(repo, res):
    """A DecAffine rebuilt from `self` inside a DecAffine method is static (fixed=True) only if `self` is:
    on every path to the construction, the value handed over as `fixed` depends on self.fixed (it is
    self.fixed, or a local whose reaching definition mentions self.fixed, directly or through its own
    previous value).  `fixed` is the only guard against products of adaptive decisions with random
    variables and against convex atoms of decision rules (C10, C13)."""
    ci = repo.cls('lp.DecAffine')
    init = repo.resolve_method(ci, '__init__')
    n_sites = 0
    for name, fi in sorted(ci.methods.items()):
        if name == '__init__' or fi.absorbed:
            continue
        sites = [n for n in walk_no_nested(fi.node) if isinstance(n, ast.Call) and isinstance(n.func, ast.Name)
                 and n.func.id == 'DecAffine']
        if not sites:
            continue
        site_ids = {id(c) for c in sites}
        verdicts = {}

        class _Dep(MustFlow):
            def refine(self, test, branch, state):
                return state

            def transfer(self, node, state):
                if isinstance(node, ast.Assign) and len(node.targets) == 1 and isinstance(node.targets[0], ast.Name):
                    v = node.targets[0].id
                    dep = any(is_self_attr(x, 'fixed') for x in ast.walk(node.value)) or \
                        (('dep', v) in state and any(isinstance(x, ast.Name) and x.id == v for x in ast.walk(node.value)))
                    # a local that depends on a dependent local
                    dep = dep or any(isinstance(x, ast.Name) and ('dep', x.id) in state for x in ast.walk(node.value))
                    # the constant False is `False and self.fixed` with the conjunction folded away
                    dep = dep or (isinstance(node.value, ast.Constant) and node.value.value is False)
                    state = state - {('dep', v)}
                    if dep:
                        state = state | {('dep', v)}
                return state

            def visit(self, node, state):
                for c in ast.walk(node):
                    if id(c) in site_ids:
                        env = bind_args(init, c) or {}
                        fx = env.get('fixed')
                        if fx is None:
                            continue
                        ok = any(is_self_attr(x, 'fixed') for x in ast.walk(fx)) or \
                            any(isinstance(x, ast.Name) and ('dep', x.id) in state for x in ast.walk(fx))
                        verdicts[id(c)] = (c, fx, verdicts.get(id(c), (None, None, True))[2] and ok)
        _Dep().run(body_stmts(fi))
        for c, fx, ok in verdicts.values():
            n_sites += 1
            res.functions.add(fi.fq)
            res.inst({'method': fi.fq, 'fixed_argument': ntext(fx)[:40], 'depends_on_self.fixed': ok}, ok)
            if not ok:
                res.fail(Finding(RULE, fi.fq, 'fixed flag does not depend on self.fixed',
                                 '%s builds a DecAffine with fixed=%s, which on some path does not depend on '
                                 'self.fixed: an adaptive (affinely dependent) decision comes out flagged static, and '
                                 'the guards against decision-rule x random-variable products and convex atoms of '
                                 'decision rules no longer see it' % (fi.fq, ntext(fx)[:40]), repo.where(fi, c),
                                 {'props': ['C10', 'C13', 'C06']}))
    if n_sites < 5:
        raise AnalysisError('only %d DecAffine(.., fixed=..) constructions found in DecAffine methods' % n_sites)
