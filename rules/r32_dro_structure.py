"""R32 structure of the worst-case-expectation (moment dual) reformulation (C03, C04).

mix_support lifts every expectation set into the probability-weighted (perspective) space:
    for event e with scenario set I_e:   A_e v_e - (sum_{s in I_e} p_s) b_e   (senses of the set e)
and dro_to_roc dualises the moment problem with alpha (one per scenario) and beta (one column per
event): one support constraint over the *dual* lifted set, and for each scenario s the inequality
    left_s <= alpha[s] + sum over the events k containing s of z' beta[:, k].

The rule locates each of these constructs structurally, expands single-definition locals, and
compares it with a pattern (rules/common.pmatch):
    equal up to consistent renaming   -> discharged
    same shape, a leaf differs        -> finding   (the construct is recognised and says something else:
                                         another index, another field, another constant, another operator)
    other shape / construct not found -> ANALYSIS-ERROR (exit 2): the rule cannot judge a restructured
                                         function and says so instead of guessing.
"""
import ast

from rsx.ctor import bind_args
from .common import (AnalysisError, Finding, RuleResult, ntext, walk_no_nested, call_name, accum,
                     single_defs, expand_locals, best_match)

RULE = 'R32'
TEXT = ('mix_support pairs each expectation set with its own scenario set and scales it by that '
        'event\'s probability mass; dro_to_roc uses one alpha/beta per row, the dual support, and '
        'per-scenario inequalities over exactly the events containing the scenario')
P = {'props': ['C03', 'C04']}


def run(repo):
    res = RuleResult(RULE, 'structure of the worst-case-expectation reformulation', TEXT)
    res.floor = 10
    ms = repo.func('dro.Ambiguity.mix_support')
    dr = repo.func('dro.Model.dro_to_roc')
    res.functions.update([ms.fq, dr.fq])

    def rec(fi, key, ok, msg, node=None):
        res.inst({'function': fi.fq, 'check': key, 'ok': ok}, ok)
        if not ok:
            res.fail(Finding(RULE, fi.fq, key, '%s: %s' % (fi.fq, msg), repo.where(fi, node), P))

    def judge(fi, key, node, patterns, msg, binds_check=None):
        """match -> ok; leaf difference -> finding; other shape -> blind"""
        st, b, diffs = best_match(patterns, node)
        if st == 'shape':
            raise AnalysisError('R32 %s: `%s` has a form the rule does not interpret (%s)'
                                % (key, ntext(node)[:80], '; '.join(diffs[:2])))
        ok = st == 'match'
        if ok and binds_check is not None:
            extra = binds_check(b)
            if extra:
                ok = False
                diffs = [extra]
        rec(fi, key, ok, '%s (found `%s`: %s)' % (msg, ntext(node)[:90], '; '.join(diffs[:3])), node)
        return b

    # ------------------------------------------------------------------ mix_support
    mdefs = single_defs(ms.node)

    def mx(e):
        return expand_locals(ms.node, e, depth=4, defs=mdefs)

    loops = [n for n in walk_no_nested(ms.node) if isinstance(n, ast.For) and isinstance(n.iter, ast.Call)
             and call_name(n.iter) == 'zip']
    if len(loops) != 1 or not isinstance(loops[0].target, ast.Tuple) or len(loops[0].target.elts) != 2 \
            or not all(isinstance(e, ast.Name) for e in loops[0].target.elts):
        raise AnalysisError('mix_support: the loop `for <set>, <scenarios> in zip(..)` over the expectation '
                            'events was not found')
    loop = loops[0]
    ev_name, idx_name = loop.target.elts[0].id, loop.target.elts[1].id
    judge(ms, 'events paired with their scenario sets', mx(loop.iter),
          ['zip(self.exp_constr, self.exp_constr_indices)'],
          'the expectation sets and their scenario sets must be paired by zip(self.exp_constr, '
          'self.exp_constr_indices)')
    body = ast.Module(body=loop.body, type_ignores=[])
    st_calls = [n for n in ast.walk(body) if isinstance(n, ast.Call) and isinstance(n.func, ast.Attribute)
                and n.func.attr == 'st' and 'exp_model' in ntext(mx(n.func.value)) and n.args]
    if len(st_calls) != 1:
        raise AnalysisError('mix_support: expected one <exp_model>.st(..) in the event loop, found %d' % len(st_calls))
    a0 = mx(st_calls[0].args[0])
    if not isinstance(a0, ast.Name):
        raise AnalysisError('mix_support: exp_model.st(%s): argument not interpreted' % ntext(a0)[:40])
    rec(ms, 'each expectation set is defined from its own constraints', a0.id == ev_name,
        'exp_model.st(..) receives `%s` instead of the loop\'s own constraint tuple `%s`' % (a0.id, ev_name),
        st_calls[0])
    # lifted rows
    subs = [n for n in ast.walk(body) if isinstance(n, ast.BinOp) and isinstance(n.op, (ast.Sub, ast.Add))
            and '.const' in ntext(mx(n)) and '.linear' in ntext(mx(n)) and '@' in ntext(mx(n))]
    subs = [n for n in subs if not any(n is not m and any(x is n for x in ast.walk(m)) for m in subs)]
    if len(subs) != 1:
        raise AnalysisError('mix_support: the lifted rows  <A> @ v - p[..].sum() * <b>  were not found')
    lifted = mx(subs[0])

    def chk(b):
        if b['_i'][1] != idx_name:
            return 'the probability mass sums p over `%s`, not over the event\'s own scenario set `%s`' \
                % (b['_i'][1], idx_name)
        return None
    from .common import pmatch
    for bad, why in (('_L.linear @ _v - _nmp.sum() * _L.const', 'the total probability mass of all scenarios'),
                     ('_L.linear @ _v - _nmp[_i[__]] * _L.const', 'the probability of a single scenario'),
                     ('_L.linear @ _v - _nmp[__] * _L.const', 'the probability of a single scenario / an unsummed slice'),
                     ('_L.linear @ _v - _L.const', 'no probability mass at all')):
        if pmatch(bad, lifted)[0] == 'match' or pmatch(bad, subs[0])[0] == 'match':
            rec(ms, 'lifted rows are  A v - (sum of the event\'s p) b', False,
                'the constants of an expectation set are scaled by %s; they must be scaled by p[%s].sum(), the '
                'mass of exactly the scenarios of that event (found `%s`)' % (why, idx_name, ntext(subs[0])[:80]),
                subs[0])
            lifted = None
            break
    b = {} if lifted is None else judge(ms, 'lifted rows are  A v - (sum of the event\'s p) b', lifted,
              ['_L.linear @ _v - _p[_i].sum() * _L.const', '_L.linear @ _v - _L.const * _p[_i].sum()'],
              'the lifted rows of an expectation set must be  <set>.linear @ v - p[<event scenarios>].sum() * '
              '<set>.const', chk)
    lin = [n for n in ast.walk(body) if isinstance(n, ast.Call) and call_name(n) == 'LinConstr']
    if len(lin) != 1 or len(lin[0].args) != 4:
        raise AnalysisError('mix_support: the LinConstr(.., sense) of the expectation block was not found')
    sense = mx(lin[0].args[3])
    if lifted is None:
        pass
    elif '_L' in b and isinstance(sense, ast.Attribute):
        ok = sense.attr == 'sense' and ntext(sense.value) == b['_L'][0]
        rec(ms, 'lifted rows keep the senses of the expectation set', ok,
            'the LinConstr of an expectation block takes `%s` as senses; it must be the .sense of the set whose '
            'rows it lifts (%s)' % (ntext(sense)[:60], b['_L'][1][:50]), lin[0])
    elif isinstance(sense, ast.Call) and call_name(sense) in ('np.zeros', 'np.ones', 'numpy.zeros', 'numpy.ones'):
        rec(ms, 'lifted rows keep the senses of the expectation set', False,
            'the LinConstr of an expectation block takes the constant vector `%s` as senses: equalities / '
            'inequalities of the expectation set are no longer told apart' % ntext(lin[0].args[3])[:50], lin[0])
    else:
        raise AnalysisError('mix_support: sense argument `%s` not interpreted' % ntext(sense)[:50])
    pl = [n for n in walk_no_nested(ms.node) if isinstance(n, ast.Call) and call_name(n) == 'LinConstr'
          and not any(n is x for x in ast.walk(body))]
    if len(pl) != 1:
        raise AnalysisError('mix_support: the LinConstr of the probability block was not found')
    judge(ms, 'probability block copies linear / const / sense of one formula', mx(pl[0]),
          ['LinConstr(__, _S.linear, _S.const, _S.sense)'],
          'the probability block must be LinConstr(mix_model, S.linear, S.const, S.sense) of one formula S')
    # embedded formulas are primal, without objective; the lifted model is returned on the requested side
    emb = [n for n in walk_no_nested(ms.node) if isinstance(n, ast.Call) and isinstance(n.func, ast.Attribute)
           and n.func.attr == 'do_math' and ('pro_model' in ntext(mx(n.func.value)) or
                                              'exp_model' in ntext(mx(n.func.value)))]
    if len(emb) != 2:
        raise AnalysisError('mix_support: expected the do_math() of pro_model and of exp_model, found %d' % len(emb))
    dm = repo.func('gcp.Model.do_math')
    for c in emb:
        env = bind_args(dm, c) or {}
        pr, ob = env.get('primal'), env.get('obj')
        if not isinstance(pr, ast.Constant) or not isinstance(ob, ast.Constant):
            raise AnalysisError('mix_support: arguments of `%s` not interpreted' % ntext(c)[:60])
        rec(ms, 'embedded formula `%s` is primal, without objective' % ntext(c.func.value)[-20:],
            pr.value is True and ob.value is False,
            '`%s` must be do_math(obj=False), the primal standard form without objective' % ntext(c)[:70], c)
    rets = [n.value for n in walk_no_nested(ms.node) if isinstance(n, ast.Return) and n.value is not None]
    if not rets:
        raise AnalysisError('mix_support: no return')
    for r in rets:
        judge(ms, 'lifted model returned on the requested side, without objective', mx(r),
              ['self.mix_model.do_math(primal, obj=False)'],
              'every return of mix_support must be self.mix_model.do_math(primal, obj=False)')

    # ------------------------------------------------------------------ dro_to_roc
    ddefs = single_defs(dr.node)

    def dx(e):
        return expand_locals(dr.node, e, depth=4, defs=ddefs)

    # support constraint over the dual lifted set
    sup = [n for n in walk_no_nested(dr.node) if isinstance(n, ast.Call) and isinstance(n.func, ast.Attribute)
           and n.func.attr == 'le_to_rc']
    if len(sup) != 1 or len(sup[0].args) != 1:
        raise AnalysisError('dro_to_roc: the support constraint (..).le_to_rc(<lifted set>) was not found')
    setarg = dx(sup[0].args[0])
    if not (isinstance(setarg, ast.Call) and isinstance(setarg.func, ast.Attribute) and
            setarg.func.attr == 'mix_support'):
        raise AnalysisError('dro_to_roc: le_to_rc(%s): the lifted set is not a mix_support(..) call'
                            % ntext(setarg)[:50])
    env = bind_args(ms, setarg) or {}
    pr = env.get('primal')
    if not isinstance(pr, ast.Constant):
        raise AnalysisError('dro_to_roc: mix_support(%s) not interpreted' % ntext(pr)[:30])
    rec(dr, 'the dual of the lifted set is used', pr.value is False,
        'the lifted set handed to le_to_rc must be mix_support(primal=False): le_to_rc needs the dual '
        'standard form (found `%s`)' % ntext(setarg)[:60], sup[0])
    amb = setarg.func.value
    if isinstance(amb, ast.Name):
        defs = [ntext(n.value) for n in walk_no_nested(dr.node) if isinstance(n, ast.Assign)
                and any(isinstance(t, ast.Name) and t.id == amb.id for t in n.targets)]
        if not defs or not all(d.startswith(('constr.', 'self.')) for d in defs):
            raise AnalysisError('dro_to_roc: definitions of the ambiguity set `%s` not interpreted: %s'
                                % (amb.id, defs))
        ok = sorted(defs) == ['constr.ambset', 'self.obj_ambiguity']
        rec(dr, 'ambiguity set: the constraint\'s own, else the default', ok,
            'the ambiguity set must be the constraint\'s own (constr.ambset) when it has one and '
            'self.obj_ambiguity otherwise (found %s)' % defs)
    recv = sup[0].func.value
    judge(dr, 'support constraint is  (left <= 0).le_to_rc(..)', recv, ['_l <= 0'],
          'the moment-dual support constraint must be (left <= 0)')
    left_name = recv.left.id if isinstance(recv, ast.Compare) and isinstance(recv.left, ast.Name) else None
    if left_name is None:
        raise AnalysisError('dro_to_roc: left-hand side of the support constraint is not a local')
    line = sup[0].lineno
    base = [n for n in walk_no_nested(dr.node) if isinstance(n, ast.Assign) and len(n.targets) == 1 and
            ntext(n.targets[0]) == left_name and n.lineno < line and accum(n) is None]
    accs = [n for n in walk_no_nested(dr.node) if (accum(n) or (None,))[0] == left_name and n.lineno < line]
    if len(base) != 1 or len(accs) != 1:
        raise AnalysisError('dro_to_roc: expected `%s = <alpha> @ p` and one accumulation over the events '
                            'before the support constraint (found %d / %d)' % (left_name, len(base), len(accs)))
    bb = judge(dr, 'support constraint starts from alpha @ p', base[0].value, ['_alpha @ _p'],
               'the support constraint must start from alpha @ p')
    jloop = [n for n in walk_no_nested(dr.node) if isinstance(n, ast.For) and any(x is accs[0] for x in n.body)]
    if len(jloop) != 1 or not isinstance(jloop[0].target, ast.Name):
        raise AnalysisError('dro_to_roc: the loop over the events around `%s` was not found' % ntext(accs[0])[:50])
    jv = jloop[0].target.id

    def chk_j(b):
        if b['_j'][1] != jv:
            return 'the event index is `%s`, not the loop variable `%s`' % (b['_j'][1], jv)
        return None
    bj = judge(dr, 'event j contributes  E_j[:n] @ beta[:, j]  with one index', accum(accs[0])[1],
               ['_V[_j][:__] @ _B[:, _j]'],
               'each expectation event must contribute var_exp_list[j][:num_rand] @ beta[:, j] with the same j',
               chk_j)
    it = dx(jloop[0].iter)
    if not (isinstance(it, ast.Call) and call_name(it) == 'range' and len(it.args) == 1):
        raise AnalysisError('dro_to_roc: event loop iterates `%s`' % ntext(it)[:40])
    rec(dr, 'the event loop covers every expectation event', 'exp_constr' in ntext(it.args[0]),
        'the loop adding the beta terms runs over range(%s), not over the number of expectation events '
        '(len(<ambiguity set>.exp_constr))' % ntext(it.args[0])[:50], jloop[0])
    # per-scenario inequality
    foralls = [n for n in walk_no_nested(dr.node) if isinstance(n, ast.Call) and isinstance(n.func, ast.Attribute)
               and n.func.attr == 'forall']
    sloops = [n for n in walk_no_nested(dr.node) if isinstance(n, ast.For) and isinstance(n.target, ast.Name)
              and 'num_scen' in ntext(dx(n.iter)) and any(any(f is x for x in ast.walk(n)) for f in foralls)]
    if len(sloops) != 1:
        raise AnalysisError('dro_to_roc: the loop over the scenarios (range(num_scen)) around .forall(..) '
                            'was not found')
    sv = sloops[0].target.id
    ineqs = [n for n in ast.walk(sloops[0]) if isinstance(n, ast.Compare) and len(n.ops) == 1 and
             isinstance(n.ops[0], (ast.LtE, ast.GtE)) and isinstance(n.left, ast.Name) and
             isinstance(n.comparators[0], ast.Name)]
    if len(ineqs) != 1:
        raise AnalysisError('dro_to_roc: the per-scenario inequality `left <= right` was not found')
    rec(dr, 'scenario inequality is left <= right', isinstance(ineqs[0].ops[0], ast.LtE),
        'the per-scenario inequality must be left <= right (found `%s`)' % ntext(ineqs[0]), ineqs[0])
    rname = ineqs[0].comparators[0].id
    rdefs = [n for n in ast.walk(sloops[0]) if isinstance(n, ast.Assign) and ntext(n.targets[0]) == rname]
    if not rdefs:
        raise AnalysisError('dro_to_roc: definitions of `%s` not found' % rname)
    alpha_txt = bb['_alpha'][1] if '_alpha' in bb else 'alpha'
    beta_txt = bj['_B'][1] if '_B' in bj else 'beta'
    ev_var = None
    saw_beta = False
    for d in rdefs:
        a = accum(d)
        v = a[1] if a is not None else d.value
        pats = ['(_z @ %s[:, _ev]).sum()' % beta_txt] if a is not None else \
            ['%s[_s] + (_z @ %s[:, _ev]).sum()' % (alpha_txt, beta_txt), '%s[_s]' % alpha_txt]

        def chk_s(b):
            if '_s' in b and b['_s'][1] != sv:
                return 'alpha is indexed by `%s`, not by the scenario `%s`' % (b['_s'][1], sv)
            return None
        br = judge(dr, 'right-hand side of the scenario inequality (%s)' % ('added term' if a is not None else 'definition %d' % rdefs.index(d)), v, pats,
                   'the right-hand side of scenario s must be alpha[s], plus (z @ beta[:, <events of s>]).sum() '
                   'when s belongs to expectation events', chk_s)
        if '_ev' in br:
            saw_beta = True
            ev_var = br['_ev'][2]
    if not saw_beta:
        raise AnalysisError('dro_to_roc: no right-hand side adds the beta term')
    evdef = dx(ev_var) if ev_var is not None else None
    if not isinstance(evdef, ast.ListComp):
        raise AnalysisError('dro_to_roc: the events of a scenario (`%s`) are not given by a list comprehension'
                            % (ntext(ev_var)[:40] if ev_var is not None else '?'))

    def chk_ev(b):
        if b['_s'][1] != sv:
            return 'membership is tested for `%s`, not for the scenario `%s`' % (b['_s'][1], sv)
        return None
    judge(dr, 'events of scenario s = all events whose member list contains s', evdef,
          ['[_k for _k in range(__) if _s in _A.exp_constr_indices[_k]]'],
          'the events of a scenario must be [k for k in range(num_event) if s in ambset.exp_constr_indices[k]]',
          chk_ev)
    for f in foralls:
        if any(f is x for x in ast.walk(sloops[0])):
            a = f.args[0] if f.args else None
            if a is None:
                raise AnalysisError('dro_to_roc: forall() without argument')
            judge(dr, 'scenario inequality holds over the scenario\'s own support', a, ['_A.sup_constr[%s]' % sv],
                  'the per-scenario robust inequality must be taken .forall(ambset.sup_constr[%s])' % sv)
    # (z) adaptive rules inside an expectation with an explicit random term.  For a piece  a(x) + b'z  and a scenario
    #     rule x_s(z) = x0 + X z, the random part of the scenario inequality is  b + X'a : the z-slope of `linear @ drule`
    #     (the .raffine of that product) has to flow into the random coefficient handed to RoAffine(..).
    _rule_slope_kept(repo, res)
    return res


def _rule_slope_kept(repo, res):
    fi = repo.func('dro.Model.dro_to_roc')
    res.functions.add(fi.fq)
    defs = {}
    for n in walk_no_nested(fi.node):
        if isinstance(n, ast.Assign):
            for t in n.targets:
                for x in ast.walk(t):
                    if isinstance(x, ast.Name) and isinstance(x.ctx, ast.Store):
                        defs.setdefault(x.id, []).append(n.value)
        elif isinstance(n, ast.AugAssign) and isinstance(n.target, ast.Name):
            defs.setdefault(n.target.id, []).append(n.value)
        elif isinstance(n, (ast.For, ast.comprehension)):
            # a loop variable derives from what is iterated (zip / enumerate arguments, generator elements included)
            for x in ast.walk(n.target):
                if isinstance(x, ast.Name):
                    defs.setdefault(x.id, []).append(n.iter)

    def closure(e, seen=None, depth=0):
        seen = seen if seen is not None else set()
        out = [e]
        if depth > 6:
            return out
        for x in ast.walk(e):
            if isinstance(x, ast.Name) and x.id not in seen:
                seen.add(x.id)
                for v in defs.get(x.id, []):
                    out += closure(v, seen, depth + 1)
        return out
    calls = [n for n in walk_no_nested(fi.node) if isinstance(n, ast.Call) and isinstance(n.func, ast.Name) and
             n.func.id == 'RoAffine' and len(n.args) >= 2]
    if not calls:
        raise AnalysisError('dro_to_roc: the RoAffine(<random part>, <deterministic part>, ..) of the scenario '
                            'inequality was not found')
    n_ok = 0
    for c in calls:
        cl = closure(c.args[0])
        rule_names = {k for k, vs in defs.items() for v in vs if 'drule_list' in ntext(v) or 'rule_var' in ntext(v)}
        rule_names |= {'drule'} if 'drule' in defs or any(
            isinstance(x, ast.For) and 'drule' in ntext(x.target) for x in walk_no_nested(fi.node)) else set()

        def from_rule(e):
            return any(isinstance(x, ast.Name) and (x.id in rule_names) for y in closure(e) for x in ast.walk(y))
        slope = any(isinstance(x, ast.Attribute) and x.attr == 'raffine' and from_rule(x.value)
                    for y in cl for x in ast.walk(y))
        res.inst({'function': fi.fq, 'random part': ntext(c.args[0])[:40], 'includes_rule_slope': slope}, slope)
        n_ok += 1
        if not slope:
            res.fail(Finding(RULE, fi.fq, 'z-slope of the scenario rule dropped',
                             'dro_to_roc builds the random part `%s` of the scenario inequality without the z-slope of the '
                             'decision rule (the .raffine of <coefficients> @ drule): for affinely adaptive decisions inside '
                             'an expectation with an explicit random term the worst case is under-estimated'
                             % ntext(c.args[0])[:40], repo.where(fi, c), P))
    if n_ok < 1:
        raise AnalysisError('R32(z): nothing checked')
