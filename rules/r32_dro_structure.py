"""R32 structure of the worst-case-expectation reformulation (C03, C04).

Structural necessary conditions of the moment dual in dro.Model.dro_to_roc and of the lifted
ambiguity set in Ambiguity.mix_support (each one is a place where a one-token slip yields a
different, silently accepted ambiguity set):

mix_support
  (a) expectation events and their scenario sets are paired by zip(self.exp_constr,
      self.exp_constr_indices) in that order;
  (b) the right-hand side of event k is scaled by the probability mass of exactly that event,
      p[<indices of the same pair>].sum() * exp_support.const, and the rows keep
      exp_support.sense; the probability block uses pro_support.linear / const / sense of one
      formula;
  (c) every formula embedded is the *primal* of its model (do_math(obj=False) without
      primal=False) and the lifted model is returned through do_math(primal, obj=False).
dro_to_roc
  (d) one alpha (length num_scen) and one beta ((num_rand, num_event)) per constraint row; the
      support constraint is  alpha @ p + sum_j var_exp_list[j][:num_rand] @ beta[:, j] <= 0
      lowered with le_to_rc(mixed_support) where mixed_support = ambset.mix_support(primal=False);
      the column index of beta and the index of var_exp_list are the same loop variable;
  (e) the scenario inequality is  left <= alpha[s] (+ (z @ beta[:, event_indices]).sum())  with s
      the scenario loop variable and event_indices the events whose member list contains s
      (a comprehension over range(num_event) filtered by `s in ambset.exp_constr_indices[k]`).
"""
import ast

from .common import (AnalysisError, Finding, RuleResult, ntext, walk_no_nested, call_name, accum)

RULE = 'R32'
TEXT = ('mix_support pairs each expectation set with its own scenario set and scales it by that '
        'event\'s probability mass; dro_to_roc uses one alpha/beta per row, the dual support, and '
        'per-scenario inequalities over exactly the events containing the scenario')
P = {'props': ['C03', 'C04']}


def _kw(call, name):
    for k in call.keywords:
        if k.arg == name:
            return k.value
    return None


def run(repo):
    res = RuleResult(RULE, 'structure of the worst-case-expectation reformulation', TEXT)
    res.floor = 10
    ms = repo.func('dro.Ambiguity.mix_support')
    dr = repo.func('dro.Model.dro_to_roc')
    res.functions.update([ms.fq, dr.fq])

    def rec(fi, key, ok, msg):
        res.inst({'function': fi.fq, 'check': key, 'ok': ok}, ok)
        if not ok:
            res.fail(Finding(RULE, fi.fq, key, '%s: %s' % (fi.fq, msg), repo.where(fi), P))

    # ------------------------------------------------------------------ mix_support
    loop = None
    for n in walk_no_nested(ms.node):
        if isinstance(n, ast.For) and isinstance(n.iter, ast.Call) and call_name(n.iter) == 'zip':
            loop = n
    if loop is None or not isinstance(loop.target, ast.Tuple) or len(loop.target.elts) != 2:
        raise AnalysisError('mix_support: loop over zip(exp_constr, exp_constr_indices) not found')
    zargs = [ntext(a) for a in loop.iter.args]
    rec(ms, 'events paired with their scenario sets',
        zargs == ['self.exp_constr', 'self.exp_constr_indices'],
        'the expectation sets and their scenario sets are paired by zip(%s); it must be '
        'zip(self.exp_constr, self.exp_constr_indices)' % ', '.join(zargs))
    ev_name, idx_name = ntext(loop.target.elts[0]), ntext(loop.target.elts[1])
    body = ast.Module(body=loop.body, type_ignores=[])
    st_args = [ntext(n.args[0]) for n in ast.walk(body) if isinstance(n, ast.Call)
               and ntext(n.func).endswith('exp_model.st') and n.args]
    rec(ms, 'each expectation set is defined from its own constraints', st_args == [ev_name],
        'exp_model.st(..) receives %s instead of the loop\'s own constraint tuple `%s`' % (st_args, ev_name))
    # scaling term
    scal = [n for n in ast.walk(body) if isinstance(n, ast.BinOp) and isinstance(n.op, ast.Mult)
            and 'exp_support.const' in ntext(n) and '.sum()' in ntext(n)]
    if len(scal) != 1:
        raise AnalysisError('mix_support: the perspective term p[..].sum() * exp_support.const was not found')
    t = scal[0]
    mass = t.left if 'const' in ntext(t.right) else t.right
    ok = isinstance(mass, ast.Call) and isinstance(mass.func, ast.Attribute) and mass.func.attr == 'sum' and \
        isinstance(mass.func.value, ast.Subscript) and ntext(mass.func.value.slice) == idx_name and \
        ntext(mass.func.value.value) == 'p'
    rec(ms, 'perspective scaling by the event\'s own probability mass', ok,
        'the constants of an expectation set are scaled by `%s`; it must be p[%s].sum(), the probability '
        'mass of exactly the scenarios of that event' % (ntext(mass), idx_name))
    # sign: linear @ exp_var - mass * const
    par = {}
    for n in ast.walk(body):
        for c in ast.iter_child_nodes(n):
            par[id(c)] = n
    up = par.get(id(t))
    ok = isinstance(up, ast.BinOp) and isinstance(up.op, ast.Sub) and up.right is t and \
        'exp_support.linear' in ntext(up.left)
    rec(ms, 'lifted rows are  linear @ v - mass * const', ok,
        'the lifted rows must be exp_support.linear @ exp_var - p[..].sum() * exp_support.const '
        '(found `%s`)' % (ntext(up)[:70] if up is not None else '?'))
    lin = [n for n in ast.walk(body) if isinstance(n, ast.Call) and call_name(n) == 'LinConstr']
    ok = len(lin) == 1 and len(lin[0].args) == 4 and ntext(lin[0].args[3]) == 'exp_support.sense'
    rec(ms, 'lifted rows keep the senses of the expectation set', ok,
        'the LinConstr of an expectation block must take exp_support.sense')
    pl = [n for n in walk_no_nested(ms.node) if isinstance(n, ast.Call) and call_name(n) == 'LinConstr'
          and 'pro_support' in ntext(n)]
    ok = len(pl) == 1 and [ntext(a) for a in pl[0].args[1:]] == ['pro_support.linear', 'pro_support.const',
                                                                 'pro_support.sense']
    rec(ms, 'probability block copies linear / const / sense of one formula', ok,
        'the probability block must be LinConstr(mix_model, pro_support.linear, pro_support.const, '
        'pro_support.sense)')
    # (c) primal formulas embedded, lifted model returned with the requested side
    emb = [n for n in walk_no_nested(ms.node) if isinstance(n, ast.Call) and isinstance(n.func, ast.Attribute)
           and n.func.attr == 'do_math' and ('pro_model' in ntext(n.func) or 'exp_model' in ntext(n.func))]
    ok = len(emb) == 2 and all(_kw(c, 'primal') is None and not c.args and
                               isinstance(_kw(c, 'obj'), ast.Constant) and _kw(c, 'obj').value is False for c in emb)
    rec(ms, 'embedded formulas are primal, without objective', ok,
        'pro_model / exp_model must be embedded through do_math(obj=False) (the primal standard form)')
    rets = [n.value for n in walk_no_nested(ms.node) if isinstance(n, ast.Return) and n.value is not None]
    ok = bool(rets) and all(isinstance(r, ast.Call) and ntext(r.func) == 'self.mix_model.do_math' and r.args
                            and ntext(r.args[0]) == 'primal' and isinstance(_kw(r, 'obj'), ast.Constant)
                            and _kw(r, 'obj').value is False for r in rets)
    rec(ms, 'lifted model returned as do_math(primal, obj=False)', ok,
        'every return of mix_support must be self.mix_model.do_math(primal, obj=False)')
    # ------------------------------------------------------------------ dro_to_roc
    binds = {}
    for n in walk_no_nested(dr.node):
        if isinstance(n, ast.Assign) and len(n.targets) == 1 and isinstance(n.targets[0], ast.Name):
            binds.setdefault(n.targets[0].id, []).append(n.value)
    for nm in ('mixed_support', 'ambset', 'alpha', 'beta', 'left', 'right', 'event_indices', 'inequality'):
        if nm not in binds:
            raise AnalysisError('dro_to_roc: the local `%s` the rule anchors on no longer exists '
                                '(renamed or restructured): cannot judge' % nm)
    msup = binds.get('mixed_support', [])
    ok = len(msup) == 1 and isinstance(msup[0], ast.Call) and ntext(msup[0].func) == 'ambset.mix_support' and \
        isinstance(_kw(msup[0], 'primal'), ast.Constant) and _kw(msup[0], 'primal').value is False
    rec(dr, 'the dual of the lifted set is used', ok,
        'mixed_support must be ambset.mix_support(primal=False): le_to_rc needs the dual standard form')
    amb = binds.get('ambset', [])
    ok = len(amb) == 1 and 'constr.ambset' in ntext(amb[0]) and 'self.obj_ambiguity' in ntext(amb[0])
    rec(dr, 'ambiguity set: the constraint\'s own, else the default', ok,
        'ambset must be the constraint\'s own set when it has one and self.obj_ambiguity otherwise')
    al = binds.get('alpha', [])
    be = [b for b in binds.get('beta', []) if isinstance(b, ast.Call)]
    ok = len(al) == 1 and 'num_scen' in ntext(al[0]) and len(be) == 1 and \
        ntext(be[0].args[0]).replace(' ', '') == '(num_rand,num_event)'
    rec(dr, 'alpha has one entry per scenario, beta is (num_rand, num_event)', ok,
        'alpha must be dvar(num_scen) and beta dvar((num_rand, num_event)) (found %s / %s)'
        % ([ntext(a) for a in al], [ntext(b) for b in be]))
    # support constraint
    sup_calls = [n for n in walk_no_nested(dr.node) if isinstance(n, ast.Call) and isinstance(n.func, ast.Attribute)
                 and n.func.attr == 'le_to_rc']
    ok = len(sup_calls) == 1 and ntext(sup_calls[0].args[0]) == 'mixed_support' and \
        ntext(sup_calls[0].func.value).replace(' ', '') in ('left<=0', '(left<=0)')
    rec(dr, 'support constraint: (left <= 0).le_to_rc(mixed_support)', ok,
        'the moment-dual support constraint must be (left <= 0).le_to_rc(mixed_support)')
    first_left = [v for v in binds.get('left', []) if ntext(v) == 'alpha @ p']   # noqa
    rec(dr, 'support constraint starts from alpha @ p', len(first_left) == 1,
        'the support constraint must start from alpha @ p')
    augs = [n for n in walk_no_nested(dr.node) if (accum(n) or (None,))[0] == 'left']
    augs = [n for n in augs if 'beta' in ntext(accum(n)[1])]
    if len(augs) != 1:
        raise AnalysisError('dro_to_roc: expected one accumulation of the beta terms into `left`, found %d' % len(augs))
    ok = False
    if len(augs) == 1:
        v = accum(augs[0])[1]
        jvar = None
        for n in walk_no_nested(dr.node):
            if isinstance(n, ast.For) and any(x is augs[0] for x in n.body) and 'num_event' in ntext(n.iter):
                jvar = ntext(n.target)
        ok = jvar is not None and isinstance(v, ast.BinOp) and isinstance(v.op, ast.MatMult) and \
            ntext(v.left) == 'var_exp_list[%s][:num_rand]' % jvar and ntext(v.right) == 'beta[:, %s]' % jvar
    rec(dr, 'event j: var_exp_list[j][:num_rand] @ beta[:, j] with one index', ok,
        'each expectation event must contribute var_exp_list[j][:num_rand] @ beta[:, j] with the same j '
        'ranging over range(num_event)')
    # scenario inequality
    rights = binds.get('right', [])
    sloops = [n for n in walk_no_nested(dr.node) if isinstance(n, ast.For) and ntext(n.iter) in
              ('range(num_scen)', 'range(self.num_scen)')]
    if not sloops or not rights:
        raise AnalysisError('dro_to_roc: scenario loop / right-hand side not found')
    svar = ntext(sloops[0].target)
    # definitions of `right`: every non-accumulating one starts from alpha[s]; the beta term is added in
    # a definition or in an accumulation  right = right + ..
    r_acc = [accum(n)[1] for n in walk_no_nested(dr.node) if (accum(n) or (None,))[0] == 'right']
    r_base = [r for r in rights if not (isinstance(r, ast.BinOp) and any(r.right is a or r.left is a for a in r_acc))]
    ok = bool(r_base) and all(('alpha[%s]' % svar) in ntext(r) for r in r_base) and \
        any('beta[:, event_indices]' in ntext(r) for r in r_base + r_acc)
    rec(dr, 'scenario inequality uses alpha[s] (+ z @ beta[:, event_indices])', ok,
        'the right-hand sides %s must be alpha[%s] plus, when the scenario belongs to expectation events, '
        '(z @ beta[:, event_indices]).sum()' % ([ntext(r) for r in rights], svar))
    ev = binds.get('event_indices', [])
    ok = len(ev) == 1 and isinstance(ev[0], ast.ListComp) and 'range(num_event)' in ntext(ev[0].generators[0].iter) \
        and len(ev[0].generators[0].ifs) == 1 and \
        ntext(ev[0].generators[0].ifs[0]) == '%s in ambset.exp_constr_indices[%s]' % (svar, ntext(ev[0].generators[0].target)) \
        and ntext(ev[0].elt) == ntext(ev[0].generators[0].target)
    rec(dr, 'event_indices = all events whose member list contains s', ok,
        'event_indices must be [k for k in range(num_event) if %s in ambset.exp_constr_indices[k]] '
        '(found %s)' % (svar, [ntext(e)[:70] for e in ev]))
    ineq = binds.get('inequality', [])
    ok = len(ineq) == 1 and ntext(ineq[0]).replace(' ', '') == 'left<=right'
    rec(dr, 'scenario inequality is left <= right', ok,
        'the per-scenario inequality must be left <= right (found %s)' % [ntext(i) for i in ineq])
    return res
