"""R17 read-back guards and sense pairing.

(a) Every read of a solution's x / objval / y (any function of the package: get(), __call__,
    dual(), optimal()) is dominated by a test that the same solution object is not None, whose
    failing branch raises (or returns, for optimal()); a *returned* objval is additionally
    dominated by an np.isnan(..objval) test that raises.  Reads are discovered, not listed.
(b) Sense pairing: every objective setter named min* sets self.sign = 1, every max* sets
    self.sign = -1; each do_math builds its epigraph comparison with exactly one factor of the
    model's sign on the objective; each get() returns sign * objval with exactly one sign factor;
    LinConstr.dual and Bounds.dual multiply the solver's multipliers by model.sign.
"""
import ast

from .common import (AnalysisError, Finding, RuleResult, MustFlow, ntext, walk_no_nested,
                     body_stmts, is_self_attr, expand_locals)

RULE = 'R17'
TEXT = ('solution values are read only behind a not-None test (objval returned only behind a NaN '
        'test that raises); the optimisation sense is applied exactly once when building the '
        'epigraph and exactly once when reading the objective and the duals back')
SOL_FIELDS = {'x', 'objval', 'y'}

POSITIVE = '''
def get(self):
    solution = self.solution
    return self.sign * solution.objval
'''


class _Guard(MustFlow):
    def __init__(self, fi):
        super().__init__()
        self.fi = fi
        self.alias = {}
        for n in walk_no_nested(fi.node):
            if isinstance(n, ast.Assign) and len(n.targets) == 1 and isinstance(n.targets[0], ast.Name) \
                    and isinstance(n.value, (ast.Attribute, ast.Name)):
                self.alias.setdefault(n.targets[0].id, set()).add(ntext(n.value))
        self.reads = []       # (node, solexpr text, guarded_none, guarded_nan, in_return)
        self._in_return = False

    def names_of(self, expr):
        """all textual names of the same solution object (the expression and its aliases)."""
        t = ntext(expr)
        out = {t}
        if isinstance(expr, ast.Name):
            out |= self.alias.get(expr.id, set())
        # reverse aliases: solution = self.solution  => `self.solution` also known as `solution`
        for k, vs in self.alias.items():
            if t in vs:
                out.add(k)
        # dro_model = self.dro_model ; dro_model.solution  <->  self.dro_model.solution
        if isinstance(expr, ast.Attribute) and isinstance(expr.value, ast.Name):
            for v in self.alias.get(expr.value.id, set()):
                out.add(v + '.' + expr.attr)
        return out

    def is_solution_expr(self, expr):
        if isinstance(expr, ast.Attribute) and expr.attr == 'solution':
            return True
        if isinstance(expr, ast.Name):
            return any(a.endswith('.solution') or a == 'solution' for a in self.alias.get(expr.id, set())) \
                or expr.id == 'solution' and any(True for _ in self.alias.get('solution', []))
        return False

    def _none_guarded(self, names, state):
        from rsx.flow import holds
        for nm in names:
            if ('cond', False, nm + ' is None') in state or ('cond', True, nm + ' is not None') in state or \
                    holds(state, nm + ' is None', False):
                return True
        return False

    def _nan_guarded(self, names, state):
        from rsx.flow import holds
        for nm in names:
            if ('cond', False, 'np.isnan(%s.objval)' % nm) in state or \
                    ('cond', True, 'not np.isnan(%s.objval)' % nm) in state or \
                    holds(state, 'np.isnan(%s.objval)' % nm, False):
                return True
        return False

    def visit(self, node, state):
        for n in ast.walk(node):
            if isinstance(n, ast.Attribute) and n.attr in SOL_FIELDS and isinstance(n.ctx, ast.Load) \
                    and self.is_solution_expr(n.value):
                names = self.names_of(n.value)
                st_here = self.local_state(node, n, state)       # `sol is not None and not isnan(sol.objval)`
                self.reads.append((n, ntext(n.value), self._none_guarded(names, st_here),
                                   self._nan_guarded(names, st_here), node))


def scan_reads(fi):
    fl = _Guard(fi)
    o = fl.run(body_stmts(fi))
    ret_nodes = {id(n.value) for n in walk_no_nested(fi.node)
                 if isinstance(n, ast.Return) and n.value is not None}
    out = []
    for n, sol, g_none, g_nan, stmt in fl.reads:
        in_return = id(stmt) in ret_nodes
        out.append({'node': n, 'sol': sol, 'field': n.attr, 'none': g_none, 'nan': g_nan,
                    'returned': in_return})
    return out


def mul_count(expr, pred):
    """number of multiplicative factors of expr satisfying pred (through *, unary -)."""
    if isinstance(expr, ast.BinOp) and isinstance(expr.op, ast.Mult):
        return mul_count(expr.left, pred) + mul_count(expr.right, pred)
    if isinstance(expr, ast.UnaryOp):
        return mul_count(expr.operand, pred)
    if isinstance(expr, ast.Subscript):
        # selecting entries commutes with scaling:  (y * s)[idx]  ==  y[idx] * s
        return mul_count(expr.value, pred) if not pred(expr) else 1
    if isinstance(expr, ast.Call) and isinstance(expr.func, ast.Attribute) and \
            expr.func.attr in ('reshape', 'flatten', 'ravel', 'copy', 'item', 'squeeze'):
        return mul_count(expr.func.value, pred)
    return 1 if pred(expr) else 0


def run(repo):
    res = RuleResult(RULE, 'read-back guards and sense pairing', TEXT)
    res.floor = 30
    # ---------------------------------------------------------------- (a)
    nreads = 0
    for fi in repo.all_functions():
        if fi.module in ('deco', 'cpt_solver_bkp') or fi.module.endswith('_solver') or fi.name == 'def_sol':
            continue
        if not any(isinstance(n, ast.Attribute) and n.attr in SOL_FIELDS for n in walk_no_nested(fi.node)):
            continue
        for r in scan_reads(fi):
            nreads += 1
            res.functions.add(fi.fq)
            probs = []
            if not r['none']:
                probs.append('not dominated by a `%s is None` test that raises' % r['sol'])
            if r['field'] == 'objval' and r['returned'] and fi.name != 'optimal' and not r['nan']:
                probs.append('objval is returned without passing an np.isnan test that raises')
            ok = not probs
            res.inst({'function': fi.fq, 'read': '%s.%s' % (r['sol'], r['field']),
                      'none_guard': r['none'], 'nan_guard': r['nan'], 'ok': ok}, ok)
            for pr in probs:
                res.fail(Finding(RULE, fi.fq, 'read %s.%s: %s' % (r['sol'], r['field'], pr.split(' test')[0][:40]),
                                 '%s reads %s.%s %s: an unsolved or failed model would yield a '
                                 'stale/None value instead of an error'
                                 % (fi.fq, r['sol'], r['field'], pr), repo.where(fi, r['node']),
                                 {'props': ['C12', 'C17', 'C11']}))
    if nreads < 12:
        raise AnalysisError('only %d solution reads found: extractor blind' % nreads)

    # ---------------------------------------------------------------- (b) setters
    for cfq in ('lp.Model', 'ro.Model', 'dro.Model'):
        ci = repo.cls(cfq)
        for name, fi in sorted(ci.methods.items()):
            if not (name.startswith('min') or name.startswith('max')):
                continue
            want = 1 if name.startswith('min') else -1
            vals = []
            for n in walk_no_nested(fi.node):
                if isinstance(n, ast.Assign) and any(is_self_attr(t, 'sign') for t in n.targets):
                    v = n.value
                    if isinstance(v, ast.Constant):
                        vals.append(v.value)
                    elif isinstance(v, ast.UnaryOp) and isinstance(v.op, ast.USub) and \
                            isinstance(v.operand, ast.Constant):
                        vals.append(-v.operand.value)
                    else:
                        vals.append(ntext(v))
            ok = vals == [want]
            res.functions.add(fi.fq)
            res.inst({'setter': fi.fq, 'sign_assigned': vals, 'expected': want}, ok)
            if not ok:
                res.fail(Finding(RULE, fi.fq, 'self.sign = %+d' % want,
                                 '%s must set self.sign = %+d exactly once (found %s): min f and '
                                 '-max -f would otherwise differ' % (fi.fq, want, vals),
                                 repo.where(fi), {'props': ['C12', 'C15', 'C14']}))
    # epigraph: one sign factor on the objective
    for fq in ('lp.Model.do_math', 'socp.Model.do_math', 'gcp.Model.do_math', 'ro.Model.do_math',
               'dro.Model.do_math'):
        fi = repo.func(fq)
        res.functions.add(fq)
        sign_alias = {'self.sign'}
        for n in walk_no_nested(fi.node):
            if isinstance(n, ast.Assign) and ntext(n.value) == 'self.sign' and isinstance(n.targets[0], ast.Name):
                sign_alias.add(n.targets[0].id)
        comps = []
        for n in walk_no_nested(fi.node):
            if isinstance(n, ast.Compare) and any(is_self_attr(x, 'obj') for x in ast.walk(n)) and \
                    isinstance(n.ops[0], (ast.GtE, ast.LtE)):
                comps.append(n)
        if not comps:
            raise AnalysisError('%s: epigraph comparison not found' % fq)
        for c in comps:
            # the product containing self.obj
            prods = [x for x in ast.walk(c) if isinstance(x, ast.BinOp) and isinstance(x.op, ast.Mult)
                     and any(is_self_attr(y, 'obj') for y in ast.walk(x))]
            top = None
            for p in prods:
                if not any(p is not q and any(p is z for z in ast.walk(q)) for q in prods):
                    top = p
            nsign = mul_count(top, lambda e: ntext(e) in sign_alias) if top is not None else 0
            ok = nsign == 1
            res.inst({'epigraph': fq, 'comparison': ntext(c)[:70], 'sign_factors': nsign}, ok)
            if not ok:
                res.fail(Finding(RULE, fq, 'epigraph sign: ' + ntext(c)[:50],
                                 '%s builds the epigraph `%s` with %d factors of the model sign on the '
                                 'objective (must be exactly 1)' % (fq, ntext(c)[:60], nsign),
                                 repo.where(fi, c), {'props': ['C12', 'C15', 'C06']}))
    # ro deterministic branch hands the sign down
    rd = repo.func('ro.Model.do_math')
    handed = any(isinstance(n, ast.Assign) and ntext(n.targets[0]) == 'self.rc_model.sign'
                 and ntext(n.value) == 'self.sign' for n in walk_no_nested(rd.node))
    res.inst({'ro.do_math': 'self.rc_model.sign = self.sign', 'ok': handed}, handed)
    if not handed:
        res.fail(Finding(RULE, rd.fq, 'self.rc_model.sign = self.sign',
                         'ro.Model.do_math no longer hands its sign to rc_model for deterministic '
                         'objectives', repo.where(rd), {'props': ['C12', 'C15', 'C06']}))
    # get(): sign * objval once
    for fq in ('lp.Model.get', 'ro.Model.get', 'dro.Model.get'):
        fi = repo.func(fq)
        res.functions.add(fq)
        from .common import expand_locals
        rets = [expand_locals(fi.node, n.value) for n in walk_no_nested(fi.node)
                if isinstance(n, ast.Return) and n.value is not None]
        ok = bool(rets)
        detail = []
        for r in rets:
            ns = mul_count(r, lambda e: ntext(e) == 'self.sign')
            no = mul_count(r, lambda e: isinstance(e, ast.Attribute) and e.attr == 'objval')
            detail.append((ns, no))
            if (ns, no) != (1, 1):
                ok = False
        res.inst({'get': fq, 'sign_and_objval_factors': detail}, ok)
        if not ok:
            res.fail(Finding(RULE, fq, 'return self.sign * objval',
                             '%s must return exactly sign * objval (found factor counts %s)' % (fq, detail),
                             repo.where(fi), {'props': ['C12', 'C15']}))
    # dual(): multiplied by model sign once
    for fq in ('lp.LinConstr.dual', 'lp.Bounds.dual'):
        fi = repo.func(fq)
        res.functions.add(fq)
        prods = [n for n in walk_no_nested(fi.node) if isinstance(n, (ast.Assign, ast.Return)) and n.value is not None
                 and any(isinstance(x, ast.Subscript) and "y[" in ntext(x) for x in ast.walk(n.value))]
        ok = bool(prods)
        for p in prods:
            val = expand_locals(fi.node, p.value)
            ns = mul_count(val, lambda e: ntext(e) in ('self.model.sign', 'model.sign'))
            if ns != 1:
                # the sign may be applied to the selected entries in a later statement on the same local
                tgt = p.targets[0].id if isinstance(p, ast.Assign) and isinstance(p.targets[0], ast.Name) else None
                later = [m for m in walk_no_nested(fi.node) if isinstance(m, ast.Assign) and tgt is not None
                         and any(isinstance(x, ast.Name) and x.id == tgt for x in ast.walk(m.value)) and m is not p]
                ns += sum(mul_count(m.value, lambda e: ntext(e) in ('self.model.sign', 'model.sign')) for m in later)
            if ns != 1:
                ok = False
        res.inst({'dual': fq, 'reads_of_y': len(prods), 'ok': ok}, ok)
        if not ok:
            res.fail(Finding(RULE, fq, 'y[..] * self.model.sign',
                             '%s must multiply every multiplier it reads from solution.y by '
                             'self.model.sign exactly once' % fq, repo.where(fi),
                             {'props': ['C14', 'C12']}))
    _positive()
    return res


def _positive():
    from rsx.loader import FuncInfo
    fi = FuncInfo('lp', None, ast.parse(POSITIVE).body[0])
    rs = scan_reads(fi)
    if len(rs) != 1 or rs[0]['none']:
        raise AnalysisError('R17 self-test: unguarded read not detected')
