"""R34 bound objects pair values, column indices and duals position by position (C14, C15, C05).

A Bounds(model, indices, values, btype) object says  x[indices[k]] <= / >= values[k]  for every k, and
Bounds.dual() returns the reduced costs as pi[indices] -- entry k of the result belongs to entry k of
the slice the user wrote.  Both pairings are positional, so at every construction site
  (a) the index vector handed over is an order-preserving function of the variable's own indices:
      reshaping / flattening / fancy indexing keep the order, np.unique / np.sort / sorted / set do not;
  (b) the value vector is the right-hand side *broadcast* to the variable's shape (other + np.zeros(shape),
      np.broadcast_to, element-wise selection): np.resize / np.tile / np.repeat fill cyclically, which
      coincides with broadcasting only for scalars and full-shape arrays.
Only these recognised deviations are findings; any other construction is not judged.
"""
import ast

from rsx.ctor import bind_args
from .common import (AnalysisError, Finding, RuleResult, ClassInfo, ntext, walk_no_nested, call_name)

RULE = 'R34'
TEXT = ('Bounds(..) are built with the variable\'s indices in their own order and with values obtained by '
        'NumPy broadcasting')
REORDER = {'np.unique', 'numpy.unique', 'np.sort', 'numpy.sort', 'sorted', 'set', 'frozenset', 'np.argsort'}
CYCLIC = {'np.resize', 'numpy.resize', 'np.tile', 'numpy.tile', 'np.repeat', 'numpy.repeat'}


def _deep(fi, e, depth=0):
    """the expression with locals replaced by (each of) their definitions, as texts of the calls it contains"""
    calls = set()
    seen = set()

    def rec(x, d):
        for n in ast.walk(x):
            if isinstance(n, ast.Call):
                calls.add(call_name(n))
            if isinstance(n, ast.Name) and d < 4 and n.id not in seen:
                seen.add(n.id)
                for a in walk_no_nested(fi.node):
                    if isinstance(a, ast.Assign) and any(isinstance(t, ast.Name) and t.id == n.id for t in a.targets):
                        rec(a.value, d + 1)
    rec(e, depth)
    return calls


def run(repo):
    res = RuleResult(RULE, 'bound objects pair positionally', TEXT)
    res.floor = 4
    k = repo.cls('lp.Bounds')
    init = repo.resolve_method(k, '__init__')
    n = 0
    for fi in repo.all_functions():
        if fi.module != 'lp':
            continue
        for c in walk_no_nested(fi.node):
            if not (isinstance(c, ast.Call) and isinstance(c.func, ast.Name)):
                continue
            r = repo.resolve_name(fi.module, c.func.id)
            if not (isinstance(r, ClassInfo) and r is k):
                continue
            env = bind_args(init, c) or {}
            idx, val = env.get('indices'), env.get('values')
            if idx is None or val is None:
                raise AnalysisError('%s: cannot bind Bounds(..) arguments' % fi.fq)
            n += 1
            res.functions.add(fi.fq)
            bad_i = sorted(_deep(fi, idx) & REORDER)
            bad_v = sorted(_deep(fi, val) & CYCLIC)
            res.inst({'site': fi.fq, 'call': ntext(c)[:60], 'indices_reordered_by': bad_i, 'values_filled_by': bad_v},
                     not bad_i and not bad_v)
            if bad_i:
                res.fail(Finding(RULE, fi.fq, 'Bounds indices reordered (%s)' % bad_i[0],
                                 '%s builds a Bounds whose index vector passes through %s: the bound no longer '
                                 'lists the columns in the order of the slice the user wrote, so dual() pairs '
                                 'reduced costs with the wrong entries (and array-valued bounds with the wrong '
                                 'columns)' % (fi.fq, ', '.join(bad_i)), repo.where(fi, c),
                                 {'props': ['C14', 'C15', 'C12']}))
            if bad_v:
                res.fail(Finding(RULE, fi.fq, 'Bounds values filled cyclically (%s)' % bad_v[0],
                                 '%s builds the value vector of a Bounds with %s, which repeats the data cyclically; '
                                 'NumPy broadcasting (other + np.zeros(shape)) differs from that for any right-hand '
                                 'side that broadcasts along a trailing axis, e.g. a column against a matrix variable'
                                 % (fi.fq, ', '.join(bad_v)), repo.where(fi, c), {'props': ['C15', 'C05']}))
    if n < 4:
        raise AnalysisError('only %d Bounds(..) constructions found' % n)
    return res
