"""Helpers shared by the rule modules."""
import ast

from rsx.loader import (AnalysisError, ntext, attr_path, is_self_attr, call_name,
                        walk_no_nested, body_stmts, ClassInfo, FuncInfo)
from rsx.flow import MustFlow, join, assigned_names
from rsx.report import Finding, RuleResult

MODEL_LAYERS = ['lp.Model', 'socp.Model', 'gcp.Model']


def self_list_growth(fi):
    """Names X such that the function does self.X.append(...) / .extend(...) / .insert(...) /
    self.X += ... / self.X = self.X + ..."""
    out = {}
    for n in walk_no_nested(fi.node):
        if isinstance(n, ast.Call) and isinstance(n.func, ast.Attribute) \
                and n.func.attr in ('append', 'extend', 'insert') and is_self_attr(n.func.value):
            out.setdefault(n.func.value.attr, []).append(n)
        elif isinstance(n, ast.AugAssign) and is_self_attr(n.target) and isinstance(n.op, ast.Add) \
                and not (isinstance(n.value, ast.Constant) and isinstance(n.value.value, (int, float))):
            out.setdefault(n.target.attr, []).append(n)
        elif isinstance(n, ast.Assign) and len(n.targets) == 1 and is_self_attr(n.targets[0]) \
                and isinstance(n.value, ast.BinOp) and is_self_attr(n.value.left, n.targets[0].attr) \
                and not (isinstance(n.value.right, ast.Constant) and isinstance(n.value.right.value, (int, float))):
            out.setdefault(n.targets[0].attr, []).append(n)      # (x = x + 1 is a counter, not a list)
    return out


def is_empty_container(expr):
    if isinstance(expr, (ast.List, ast.Tuple)) and not expr.elts:
        return True
    if isinstance(expr, ast.Dict) and not expr.keys:
        return True
    if isinstance(expr, ast.Call) and isinstance(expr.func, ast.Name) \
            and expr.func.id in ('list', 'dict', 'set') and not expr.args and not expr.keywords:
        return True
    return False


def ends_in_raise(stmts):
    """Every path through stmts ends in raise (no normal exit, no return)."""
    mf = MustFlow()
    o = mf.run(stmts)
    return o.normal is None and not o.returns and not o.breaks and not o.continues and bool(o.raises)


def const_str(node):
    if isinstance(node, ast.Constant) and isinstance(node.value, str):
        return node.value
    return None


def isinstance_classes(test):
    """isinstance(x, A) / isinstance(x, (A, B)) -> (ntext(x), [names]) else None."""
    if isinstance(test, ast.Call) and isinstance(test.func, ast.Name) and test.func.id == 'isinstance' \
            and len(test.args) == 2:
        x, c = test.args
        if isinstance(c, ast.Tuple):
            names = [ntext(e) for e in c.elts]
        else:
            names = [ntext(c)]
        return ntext(x), names
    return None


# ----------------------------------------------------------------------------- local aliases
def single_defs(fn_node):
    """name -> value expression, for locals bound exactly once by a plain `name = value`
    (never augmented, never a loop/with target, not a parameter)."""
    counts, vals = {}, {}
    params = {a.arg for a in fn_node.args.posonlyargs + fn_node.args.args + fn_node.args.kwonlyargs}
    for n in walk_no_nested(fn_node):
        if isinstance(n, ast.Assign):
            for t in n.targets:
                for x in ast.walk(t):
                    if isinstance(x, ast.Name):
                        counts[x.id] = counts.get(x.id, 0) + 1
                        if t is x and len(n.targets) == 1:
                            vals[x.id] = n.value
        elif isinstance(n, (ast.AugAssign, ast.AnnAssign)):
            for x in ast.walk(n.target):
                if isinstance(x, ast.Name):
                    counts[x.id] = counts.get(x.id, 0) + 2
        elif isinstance(n, (ast.For, ast.comprehension)):
            for x in ast.walk(n.target):
                if isinstance(x, ast.Name):
                    counts[x.id] = counts.get(x.id, 0) + 2
        elif isinstance(n, ast.withitem) and n.optional_vars is not None:
            for x in ast.walk(n.optional_vars):
                if isinstance(x, ast.Name):
                    counts[x.id] = counts.get(x.id, 0) + 2
        elif isinstance(n, ast.NamedExpr):
            counts[n.target.id] = counts.get(n.target.id, 0) + 2
    return {k: v for k, v in vals.items() if counts.get(k) == 1 and k not in params}


class _Expand(ast.NodeTransformer):
    def __init__(self, defs, depth):
        self.defs = defs
        self.depth = depth

    def visit_Name(self, node):
        if isinstance(node.ctx, ast.Load) and node.id in self.defs and self.depth > 0:
            import copy
            v = copy.deepcopy(self.defs[node.id])
            return _Expand(self.defs, self.depth - 1).visit(v)
        return node


def expand_locals(fn_node, expr, depth=3, defs=None):
    """`expr` with every single-definition local replaced by its defining expression (to the
    given depth).  Purely for recognising what an expression is made of."""
    import copy
    defs = single_defs(fn_node) if defs is None else defs
    return ast.fix_missing_locations(_Expand(defs, depth).visit(copy.deepcopy(expr)))


def const_num(e):
    """numeric value of a literal, folding unary minus / plus (also nested): --1 -> 1"""
    if isinstance(e, ast.Constant) and isinstance(e.value, (int, float)) and not isinstance(e.value, bool):
        return e.value
    if isinstance(e, ast.UnaryOp) and isinstance(e.op, (ast.USub, ast.UAdd)):
        v = const_num(e.operand)
        if v is None:
            return None
        return -v if isinstance(e.op, ast.USub) else v
    return None


def accum(stmt, ops=(ast.Add,)):
    """(name, increment expression) when stmt is  name += e  or  name = name + e  (or e + name for
    the commutative operators given); else None"""
    if isinstance(stmt, ast.AugAssign) and isinstance(stmt.target, ast.Name) and isinstance(stmt.op, ops):
        return stmt.target.id, stmt.value
    if isinstance(stmt, ast.Assign) and len(stmt.targets) == 1 and isinstance(stmt.targets[0], ast.Name) and \
            isinstance(stmt.value, ast.BinOp) and isinstance(stmt.value.op, ops):
        t = stmt.targets[0].id
        v = stmt.value
        if isinstance(v.left, ast.Name) and v.left.id == t:
            return t, v.right
        if isinstance(v.right, ast.Name) and v.right.id == t and isinstance(v.op, (ast.Add, ast.Mult)):
            return t, v.left
    return None
