"""Helpers shared by the rule modules."""
import ast

from rsx.loader import (AnalysisError, ntext, attr_path, is_self_attr, call_name,
                        walk_no_nested, body_stmts, ClassInfo, FuncInfo)
from rsx.flow import MustFlow, join, assigned_names
from rsx.report import Finding, RuleResult

MODEL_LAYERS = ['lp.Model', 'socp.Model', 'gcp.Model']


def self_list_growth(fi):
    """Names X such that the function does self.X.append(...) / .extend(...) / .insert(...) /
    self.X += ... / self.X = self.X + ..."""
    out = {}
    for n in walk_no_nested(fi.node):
        if isinstance(n, ast.Call) and isinstance(n.func, ast.Attribute) \
                and n.func.attr in ('append', 'extend', 'insert') and is_self_attr(n.func.value):
            out.setdefault(n.func.value.attr, []).append(n)
        elif isinstance(n, ast.AugAssign) and is_self_attr(n.target) and isinstance(n.op, ast.Add) \
                and not (isinstance(n.value, ast.Constant) and isinstance(n.value.value, (int, float))):
            out.setdefault(n.target.attr, []).append(n)
        elif isinstance(n, ast.Assign) and len(n.targets) == 1 and is_self_attr(n.targets[0]) \
                and isinstance(n.value, ast.BinOp) and is_self_attr(n.value.left, n.targets[0].attr) \
                and not (isinstance(n.value.right, ast.Constant) and isinstance(n.value.right.value, (int, float))):
            out.setdefault(n.targets[0].attr, []).append(n)      # (x = x + 1 is a counter, not a list)
    return out


def is_empty_container(expr):
    if isinstance(expr, (ast.List, ast.Tuple)) and not expr.elts:
        return True
    if isinstance(expr, ast.Dict) and not expr.keys:
        return True
    if isinstance(expr, ast.Call) and isinstance(expr.func, ast.Name) \
            and expr.func.id in ('list', 'dict', 'set') and not expr.args and not expr.keywords:
        return True
    return False


def ends_in_raise(stmts):
    """Every path through stmts ends in raise (no normal exit, no return)."""
    mf = MustFlow()
    o = mf.run(stmts)
    return o.normal is None and not o.returns and not o.breaks and not o.continues and bool(o.raises)


def const_str(node):
    if isinstance(node, ast.Constant) and isinstance(node.value, str):
        return node.value
    return None


def isinstance_classes(test):
    """isinstance(x, A) / isinstance(x, (A, B)) -> (ntext(x), [names]) else None."""
    if isinstance(test, ast.Call) and isinstance(test.func, ast.Name) and test.func.id == 'isinstance' \
            and len(test.args) == 2:
        x, c = test.args
        if isinstance(c, ast.Tuple):
            names = [ntext(e) for e in c.elts]
        else:
            names = [ntext(c)]
        return ntext(x), names
    return None


# ----------------------------------------------------------------------------- local aliases
def single_defs(fn_node):
    """name -> value expression, for locals bound exactly once by a plain `name = value`
    (never augmented, never a loop/with target, not a parameter)."""
    counts, vals = {}, {}
    params = {a.arg for a in fn_node.args.posonlyargs + fn_node.args.args + fn_node.args.kwonlyargs}
    for n in walk_no_nested(fn_node):
        if isinstance(n, ast.Assign):
            for t in n.targets:
                for x in ast.walk(t):
                    if isinstance(x, ast.Name) and isinstance(x.ctx, ast.Store):
                        counts[x.id] = counts.get(x.id, 0) + 1
                        if t is x and len(n.targets) == 1:
                            vals[x.id] = n.value
        elif isinstance(n, (ast.AugAssign, ast.AnnAssign)):
            for x in ast.walk(n.target):
                if isinstance(x, ast.Name):
                    counts[x.id] = counts.get(x.id, 0) + 2
        elif isinstance(n, (ast.For, ast.comprehension)):
            for x in ast.walk(n.target):
                if isinstance(x, ast.Name):
                    counts[x.id] = counts.get(x.id, 0) + 2
        elif isinstance(n, ast.withitem) and n.optional_vars is not None:
            for x in ast.walk(n.optional_vars):
                if isinstance(x, ast.Name):
                    counts[x.id] = counts.get(x.id, 0) + 2
        elif isinstance(n, ast.NamedExpr):
            counts[n.target.id] = counts.get(n.target.id, 0) + 2
    # an object that is updated in place after its definition does not equal its defining expression
    mutated = set()
    for n in walk_no_nested(fn_node):
        if isinstance(n, ast.Subscript) and isinstance(n.ctx, (ast.Store, ast.Del)) and isinstance(n.value, ast.Name):
            mutated.add(n.value.id)
        elif isinstance(n, ast.Call) and isinstance(n.func, ast.Attribute) and isinstance(n.func.value, ast.Name) and \
                n.func.attr in ('append', 'extend', 'insert', 'pop', 'remove', 'clear', 'sort', 'reverse', 'update',
                                'resize', 'fill', 'add', 'setdefault'):
            mutated.add(n.func.value.id)
        elif isinstance(n, ast.AugAssign) and isinstance(n.target, ast.Subscript) and isinstance(n.target.value, ast.Name):
            mutated.add(n.target.value.id)
    def _path(e):
        if isinstance(e, ast.Name):
            return True
        if isinstance(e, ast.Attribute):
            return _path(e.value)
        if isinstance(e, ast.Subscript):
            sl = e.slice.operand if isinstance(e.slice, ast.UnaryOp) else e.slice
            return isinstance(sl, ast.Constant) and _path(e.value)
        return False
    # (an alias of an existing object -- a name / attribute / constant-subscript path -- stays the same object)
    out = {k: v for k, v in vals.items() if counts.get(k) == 1 and k not in params
           and (k not in mutated or _path(v))}
    # a local assigned several times, always by the same expression, is as good as one definition
    multi = {}
    for n in walk_no_nested(fn_node):
        if isinstance(n, ast.Assign) and len(n.targets) == 1 and isinstance(n.targets[0], ast.Name):
            multi.setdefault(n.targets[0].id, []).append(n.value)
    for k, vs in multi.items():
        if k not in out and k not in params and k not in mutated and len(vs) > 1 and counts.get(k) == len(vs) and \
                len({ntext(v) for v in vs}) == 1:
            out[k] = vs[0]
    return out


class _Expand(ast.NodeTransformer):
    def __init__(self, defs, depth):
        self.defs = defs
        self.depth = depth

    def visit_Name(self, node):
        if isinstance(node.ctx, ast.Load) and node.id in self.defs and self.depth > 0:
            import copy
            v = copy.deepcopy(self.defs[node.id])
            return _Expand(self.defs, self.depth - 1).visit(v)
        return node


def expand_locals(fn_node, expr, depth=3, defs=None):
    """`expr` with every single-definition local replaced by its defining expression (to the
    given depth).  Purely for recognising what an expression is made of."""
    import copy
    defs = single_defs(fn_node) if defs is None else defs
    return ast.fix_missing_locations(_Expand(defs, depth).visit(copy.deepcopy(expr)))


def const_num(e):
    """numeric value of a literal, folding unary minus / plus (also nested): --1 -> 1"""
    if isinstance(e, ast.Constant) and isinstance(e.value, (int, float)) and not isinstance(e.value, bool):
        return e.value
    if isinstance(e, ast.UnaryOp) and isinstance(e.op, (ast.USub, ast.UAdd)):
        v = const_num(e.operand)
        if v is None:
            return None
        return -v if isinstance(e.op, ast.USub) else v
    return None


def accum(stmt, ops=(ast.Add,)):
    """(name, increment expression) when stmt is  name += e  or  name = name + e  (or e + name for
    the commutative operators given); else None"""
    if isinstance(stmt, ast.AugAssign) and isinstance(stmt.target, ast.Name) and isinstance(stmt.op, ops):
        return stmt.target.id, stmt.value
    if isinstance(stmt, ast.Assign) and len(stmt.targets) == 1 and isinstance(stmt.targets[0], ast.Name) and \
            isinstance(stmt.value, ast.BinOp) and isinstance(stmt.value.op, ops):
        t = stmt.targets[0].id
        v = stmt.value
        if isinstance(v.left, ast.Name) and v.left.id == t:
            return t, v.right
        if isinstance(v.right, ast.Name) and v.right.id == t and isinstance(v.op, (ast.Add, ast.Mult)):
            return t, v.left
    return None


# ----------------------------------------------------------------------------- pattern matching
def pmatch(pattern, node, binds=None):
    """Compare `node` with a pattern (source text or ast).  Names `_x` in the pattern are wildcards
    (bound consistently; `__` matches anything, unbound).
    -> (status, binds, diffs) with status
         'match'  equal up to the wildcards,
         'leaf'   same shape (node kinds and arities) but some leaf -- a name, attribute name, constant
                  or operator -- differs: the construct is recognised and says something else,
         'shape'  different node kinds / arities: the construct is not the one the pattern describes."""
    if isinstance(pattern, str):
        pattern = ast.parse(pattern, mode='eval').body
    binds = {} if binds is None else binds
    diffs = []
    status = ['match']

    def worse(s):
        order = {'match': 0, 'leaf': 1, 'shape': 2}
        if order[s] > order[status[0]]:
            status[0] = s

    LEAFY = (ast.Name, ast.Constant, ast.Attribute)

    def rec(p, n):
        if isinstance(p, ast.Name) and p.id.startswith('_'):
            if p.id == '__':
                return
            if p.id.startswith('_nm') and not isinstance(n, ast.Name):     # `_nmX`: binds plain names only
                worse('shape')
                diffs.append('%s instead of a name' % type(n).__name__)
                return
            t = ntext(n) if n is not None else None
            if p.id in binds:
                if binds[p.id][0] != t:
                    worse('leaf')
                    diffs.append('%s bound to `%s`, here `%s`' % (p.id, binds[p.id][1], ntext(n)))
            else:
                binds[p.id] = (t, ntext(n) if n is not None else None, n)
            return
        if type(p) is not type(n):
            if isinstance(p, LEAFY) and isinstance(n, LEAFY):
                worse('leaf')
                diffs.append('`%s` instead of `%s`' % (ntext(n), ntext(p)))
            else:
                worse('shape')
                diffs.append('%s instead of %s' % (type(n).__name__, type(p).__name__))
            return
        for fld, pv in ast.iter_fields(p):
            if fld in ('ctx', 'lineno', 'col_offset', 'end_lineno', 'end_col_offset', 'type_comment', 'kind'):
                continue
            nv = getattr(n, fld, None)
            if isinstance(pv, list):
                if not isinstance(nv, list) or len(pv) != len(nv):
                    worse('shape')
                    diffs.append('%s.%s has %s entries, pattern %d' % (type(p).__name__, fld,
                                                                        len(nv) if isinstance(nv, list) else '?', len(pv)))
                    continue
                for a, b in zip(pv, nv):
                    if isinstance(a, ast.AST):
                        rec(a, b)
                    elif a != b:
                        worse('leaf')
            elif isinstance(pv, ast.AST):
                if isinstance(pv, (ast.operator, ast.unaryop, ast.cmpop, ast.boolop)):
                    if type(pv) is not type(nv):
                        worse('leaf')
                        diffs.append('operator %s instead of %s' % (type(nv).__name__, type(pv).__name__))
                elif nv is None:
                    worse('shape')
                else:
                    rec(pv, nv)
            else:
                if pv != nv:
                    if nv is None or pv is None:
                        worse('shape')
                    else:
                        worse('leaf')
                        diffs.append('`%s` instead of `%s`' % (nv, pv))
    rec(pattern, node)
    return status[0], binds, diffs


def best_match(patterns, node):
    """the best status over alternative patterns -> (status, binds, diffs)"""
    order = {'match': 0, 'leaf': 1, 'shape': 2}
    best = None
    for p in patterns:
        r = pmatch(p, node)
        if best is None or order[r[0]] < order[best[0]]:
            best = r
    return best


def expand_block_locals(stmts, keep=(), drop=False):
    """Within one branch (a list of statements), a name that is bound exactly once there by a plain
    `name = value` and is not otherwise stored in the branch is replaced by its value in the statements that
    follow (the definition stays).  For classifying the expressions of a lowering branch whatever temporaries
    it names; never used to produce code."""
    import copy as _copy
    mod = ast.Module(body=list(stmts), type_ignores=[])
    stores = {}
    for n in ast.walk(mod):
        if isinstance(n, ast.Name) and isinstance(n.ctx, (ast.Store, ast.Del)):
            stores[n.id] = stores.get(n.id, 0) + 1
    defs = {}
    for n in ast.walk(mod):
        if isinstance(n, ast.Assign) and len(n.targets) == 1 and isinstance(n.targets[0], ast.Name):
            k = n.targets[0].id
            if stores.get(k) == 1 and k not in keep and not any(
                    isinstance(x, ast.Name) and x.id == k for x in ast.walk(n.value)):
                defs[k] = n.value
    if not defs:
        return list(stmts)

    class _S(ast.NodeTransformer):
        def visit_Name(self, node):
            if isinstance(node.ctx, ast.Load) and node.id in defs:
                return ast.copy_location(_S().visit(_copy.deepcopy(defs[node.id])), node)
            return node

        def visit_Assign(self, node):
            if drop and len(node.targets) == 1 and isinstance(node.targets[0], ast.Name) and node.targets[0].id in defs:
                return ast.copy_location(ast.Pass(), node)       # the temporary lives on in its readers
            # keep the defining statement itself readable: only its value is expanded
            node.value = self.visit(node.value)
            node.targets = [t if isinstance(t, ast.Name) else self.visit(t) for t in node.targets]
            return node
    out = []
    for st in stmts:
        out.append(_S().visit(_copy.deepcopy(st)))
    for st in out:
        ast.fix_missing_locations(st)
    return out


def zip_elem_defs(fn_node):
    """for u, w in zip(A, ws)  with  ws = [E(v) for v in A]  (a local bound once):  w is E(u).
    -> {name: expression over the sibling loop variable}; used to read a loop variable that only carries a
    per-element value computed in a parallel comprehension"""
    import copy as _copy
    defs = single_defs(fn_node)
    out = {}
    for n in walk_no_nested(fn_node):
        if not (isinstance(n, ast.For) and isinstance(n.iter, ast.Call) and isinstance(n.iter.func, ast.Name) and
                n.iter.func.id == 'zip' and isinstance(n.target, ast.Tuple) and
                len(n.target.elts) == len(n.iter.args) and not n.iter.keywords):
            continue
        pairs = list(zip(n.target.elts, n.iter.args))
        for t, a in pairs:
            if not (isinstance(t, ast.Name) and isinstance(a, ast.Name) and a.id in defs):
                continue
            comp = defs[a.id]
            if not (isinstance(comp, ast.ListComp) and len(comp.generators) == 1 and not comp.generators[0].ifs and
                    isinstance(comp.generators[0].target, ast.Name)):
                continue
            src = ntext(comp.generators[0].iter)
            for t2, a2 in pairs:
                if t2 is not t and isinstance(t2, ast.Name) and ntext(a2) == src:
                    v = comp.generators[0].target.id

                    class _S(ast.NodeTransformer):
                        def visit_Name(self, node):
                            if node.id == v and isinstance(node.ctx, ast.Load):
                                return ast.copy_location(ast.Name(id=t2.id, ctx=ast.Load()), node)
                            return node
                    out[t.id] = _S().visit(_copy.deepcopy(comp.elt))
    return out


def primal_dual_arms(fi, flag='primal'):
    """(primal statements, dual statements) of a do_math body, whatever the spelling of the split:
        if primal: A else: B           |  if not primal: B else: A
        if primal: A(...return)  B     |  if not primal: B(...return)  A      (guard clause)
    None when no top-level test on the flag is found."""
    def always_leaves(stmts):
        if not stmts:
            return False
        last = stmts[-1]
        if isinstance(last, (ast.Return, ast.Raise)):
            return True
        if isinstance(last, ast.If) and last.orelse:
            return always_leaves(last.body) and always_leaves(last.orelse)
        return False
    body = body_stmts(fi)
    for i, st in enumerate(body):
        if not isinstance(st, ast.If):
            continue
        t = ntext(st.test)
        pos = t == flag
        neg = t in ('not ' + flag, flag + ' is False', flag + ' == False')
        if not (pos or neg):
            continue
        rest = body[i + 1:]
        a, b = st.body, st.orelse
        if b:
            return (a, b) if pos else (b, a)
        if always_leaves(a) and rest:
            return (a, rest) if pos else (rest, a)
    return None
