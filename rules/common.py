"""Helpers shared by the rule modules."""
import ast

from rsx.loader import (AnalysisError, ntext, attr_path, is_self_attr, call_name,
                        walk_no_nested, body_stmts, ClassInfo, FuncInfo)
from rsx.flow import MustFlow, join, assigned_names
from rsx.report import Finding, RuleResult

MODEL_LAYERS = ['lp.Model', 'socp.Model', 'gcp.Model']


def self_list_growth(fi):
    """Names X such that the function does self.X.append(...) / .extend(...) / .insert(...) /
    self.X += ... / self.X = self.X + ..."""
    out = {}
    for n in walk_no_nested(fi.node):
        if isinstance(n, ast.Call) and isinstance(n.func, ast.Attribute) \
                and n.func.attr in ('append', 'extend', 'insert') and is_self_attr(n.func.value):
            out.setdefault(n.func.value.attr, []).append(n)
        elif isinstance(n, ast.AugAssign) and is_self_attr(n.target) and isinstance(n.op, ast.Add) \
                and not (isinstance(n.value, ast.Constant) and isinstance(n.value.value, (int, float))):
            out.setdefault(n.target.attr, []).append(n)
        elif isinstance(n, ast.Assign) and len(n.targets) == 1 and is_self_attr(n.targets[0]) \
                and isinstance(n.value, ast.BinOp) and is_self_attr(n.value.left, n.targets[0].attr):
            out.setdefault(n.targets[0].attr, []).append(n)
    return out


def is_empty_container(expr):
    if isinstance(expr, (ast.List, ast.Tuple)) and not expr.elts:
        return True
    if isinstance(expr, ast.Dict) and not expr.keys:
        return True
    if isinstance(expr, ast.Call) and isinstance(expr.func, ast.Name) \
            and expr.func.id in ('list', 'dict', 'set') and not expr.args and not expr.keywords:
        return True
    return False


def ends_in_raise(stmts):
    """Every path through stmts ends in raise (no normal exit, no return)."""
    mf = MustFlow()
    o = mf.run(stmts)
    return o.normal is None and not o.returns and not o.breaks and not o.continues and bool(o.raises)


def const_str(node):
    if isinstance(node, ast.Constant) and isinstance(node.value, str):
        return node.value
    return None


def isinstance_classes(test):
    """isinstance(x, A) / isinstance(x, (A, B)) -> (ntext(x), [names]) else None."""
    if isinstance(test, ast.Call) and isinstance(test.func, ast.Name) and test.func.id == 'isinstance' \
            and len(test.args) == 2:
        x, c = test.args
        if isinstance(c, ast.Tuple):
            names = [ntext(e) for e in c.elts]
        else:
            names = [ntext(c)]
        return ntext(x), names
    return None
