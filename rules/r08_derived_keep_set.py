"""R08 derived constraints keep their set; R13 equality = two inequalities (same sites).

Rebuild site: inside a branch where isinstance(X, C) holds for a constraint class C that
carries an uncertainty / ambiguity set (RoConstr.support, DecRoConstr.ambset,
DecLinConstr.ambset), a constructor call N = K(...) with K the same class as C (or a subclass)
whose arguments derive from X.  Sites are discovered in every function of ro.py / dro.py /
lp.py; on the pinned tree they are the three equality splits (ro.Model.st, dro ro_to_roc x2).

R08: on every path from the construction to any use of N (append, call argument, return), the
set attribute of N has been assigned from the same attribute of X.
R13: the sites of one branch come in pairs; the pair is built from (f(X)) and (-f(X)) for the
coefficient fields, both with sense 0, and both are used on every path.
"""
import ast

from rsx.ctor import bind_args, subst
from .common import (AnalysisError, Finding, RuleResult, MustFlow, ntext, walk_no_nested,
                     body_stmts, ClassInfo, isinstance_classes)

RULE = 'R08'
TEXT = ('where a robust / distributionally robust constraint is rebuilt from another one of the '
        'same class (equality split), the new object receives the source\'s support / ambset '
        'before it is stored, returned or recursed on')
SET_ATTR = {'lp.RoConstr': 'support', 'lp.DecRoConstr': 'ambset', 'lp.DecLinConstr': 'ambset'}
SCAN_MODULES = ('ro', 'dro', 'lp')

POSITIVE = '''
def st(self, constr):
    if isinstance(constr, RoConstr):
        left = RoConstr(RoAffine(constr.raffine, constr.affine, constr.rand_model), sense=0)
        self.all_constr.append(left)
'''


def set_attr_of(repo, ci):
    for c in repo.mro(ci):
        if c.fq in SET_ATTR:
            return SET_ATTR[c.fq]
    return None


class _SiteFlow(MustFlow):
    def __init__(self, repo, fi):
        super().__init__()
        self.repo = repo
        self.fi = fi
        self.bindings = {}
        for n in walk_no_nested(fi.node):
            if isinstance(n, ast.Assign) and len(n.targets) == 1 and isinstance(n.targets[0], ast.Name):
                self.bindings.setdefault(n.targets[0].id, []).append(n.value)
        self.sites = []          # dict per site
        self.problems = []
        self.site_cls = {}
        # statement -> (enclosing block, index): to look at what follows a storing use
        self.where = {}
        for n in ast.walk(fi.node):
            for fld in ('body', 'orelse', 'finalbody'):
                blk = getattr(n, fld, None)
                if isinstance(blk, list):
                    for i, st in enumerate(blk):
                        self.where[id(st)] = (blk, i)

    def _names_in(self, expr, depth=0, seen=None):
        seen = seen if seen is not None else set()
        out = set()
        for n in ast.walk(expr):
            if isinstance(n, ast.Name):
                out.add(n.id)
                if n.id not in seen and depth < 4:
                    seen.add(n.id)
                    for v in self.bindings.get(n.id, []):
                        out |= self._names_in(v, depth + 1, seen)
        return out

    def _ctor_default_none(self, cls_fq, attr):
        """does the constructor of the class leave `attr` None (self.attr = None, unconditionally)?"""
        ci = self.repo.cls(cls_fq)
        init = self.repo.resolve_method(ci, '__init__')
        if init is None:
            return False
        for st in body_stmts(init):
            if isinstance(st, ast.Assign) and len(st.targets) == 1 and ntext(st.targets[0]) == 'self.' + attr:
                return isinstance(st.value, ast.Constant) and st.value.value is None
        return False

    def refine(self, test, branch, state):
        # if X.attr is not None: N.attr = X.attr   -- on the other side X.attr is None, which is what the
        # constructor of N already stored
        txt = None
        if isinstance(test, ast.Compare) and len(test.ops) == 1 and isinstance(test.comparators[0], ast.Constant) \
                and test.comparators[0].value is None and isinstance(test.ops[0], (ast.Is, ast.IsNot)) and \
                (isinstance(test.ops[0], ast.Is) == branch):
            txt = ntext(test.left)
        elif isinstance(test, (ast.Name, ast.Attribute)) and branch is False:
            txt = ntext(test)            # `if X.attr:` -- on the other side it is falsy: None, as the constructor left it
        if txt is not None:
            for f in list(state):
                if f[0] == 'alias' and f[1] == txt:
                    txt = f[2]           # the test is on a local name for X.attr
                    break
            for f in list(state):
                if f[0] == 'need' and txt == '%s.%s' % (f[3], f[2]) and \
                        self._ctor_default_none(self.site_cls.get(f[4], ''), f[2]):
                    state = state | {('set', f[1], f[2], f[4])}
        ic = isinstance_classes(test)
        if ic and branch:
            x, names = ic
            for nm in names:
                r = self.repo.resolve_name(self.fi.module, nm)
                if isinstance(r, ClassInfo) and set_attr_of(self.repo, r):
                    state = state | {('isinst', x, r.fq)}
        return state

    def transfer(self, node, state):
        if isinstance(node, ast.Assign) and len(node.targets) == 1:
            t = node.targets[0]
            if isinstance(t, ast.Name) and isinstance(node.value, ast.Call) and \
                    isinstance(node.value.func, ast.Name):
                k = self.repo.resolve_name(self.fi.module, node.value.func.id)
                if isinstance(k, ClassInfo) and set_attr_of(self.repo, k):
                    srcs = self._sources(node.value, k, state)
                    state = frozenset(f for f in state if not (f[0] in ('need', 'set') and f[1] == t.id))
                    for x in srcs:
                        attr = set_attr_of(self.repo, k)
                        self.site_cls[id(node)] = k.fq
                        state = state | {('need', t.id, attr, x, id(node))}
                        self.sites.append({'new': t.id, 'cls': k.fq, 'source': x, 'attr': attr,
                                           'call': node.value, 'stmt': node})
            # a local name for the set:  s = X.attr   (flow-sensitive: the name may be reused elsewhere)
            if isinstance(t, ast.Name):
                state = frozenset(f for f in state if not (f[0] == 'alias' and f[1] == t.id))
                if isinstance(node.value, ast.Attribute) and isinstance(node.value.value, ast.Name):
                    state = state | {('alias', t.id, ntext(node.value))}
                elif isinstance(node.value, ast.Name):
                    for f in list(state):
                        if f[0] == 'alias' and f[1] == node.value.id:
                            state = state | {('alias', t.id, f[2])}
            # N.attr = X.attr
            if isinstance(t, ast.Attribute) and isinstance(t.value, ast.Name):
                for f in list(state):
                    if f[0] == 'need' and f[1] == t.value.id and f[2] == t.attr:
                        from .common import expand_locals
                        val = ntext(expand_locals(self.fi.node, node.value))      # src = constr.support; x.support = src
                        want = '%s.%s' % (f[3], t.attr)
                        if isinstance(node.value, ast.Name) and ('alias', node.value.id, want) in state:
                            val = want
                        # M.attr, where M already received X.attr
                        v = node.value
                        if isinstance(v, ast.Attribute) and isinstance(v.value, ast.Name) and v.attr == t.attr:
                            for g in state:
                                if g[0] == 'need' and g[1] == v.value.id and g[2] == t.attr and g[3] == f[3] and \
                                        ('set', g[1], g[2], g[4]) in state:
                                    val = want
                        if val == want:
                            state = state | {('set', f[1], f[2], f[4])}
        return state

    def _sources(self, call, k, state):
        names = set()
        for a in list(call.args) + [kw.value for kw in call.keywords]:
            names |= self._names_in(a)
        out = []
        for f in state:
            if f[0] == 'isinst' and f[1] in names:
                c = self.repo.cls(f[2])
                if self.repo.is_subclass(k, c):
                    out.append(f[1])
        return sorted(set(out))

    def visit(self, node, state):
        # any use of a name with an unmet need
        needs = [f for f in state if f[0] == 'need' and ('set', f[1], f[2], f[4]) not in state]
        if not needs:
            return
        for f in needs:
            nm, attr = f[1], f[2]
            for n in ast.walk(node):
                if isinstance(n, ast.Name) and n.id == nm and isinstance(n.ctx, ast.Load):
                    # exclude the store `nm.attr = ...` itself
                    if isinstance(node, ast.Assign) and len(node.targets) == 1 and \
                            isinstance(node.targets[0], ast.Attribute) and \
                            node.targets[0].value is n:
                        continue
                    # putting the object into a container does not read it: the set may still be assigned by
                    # the statements that follow at once (the container holds the same object)
                    if self._storing_use(node, nm) and self._assigned_next(node, f):
                        continue
                    self.problems.append((f, node))
                    break

    @staticmethod
    def _storing_use(node, nm):
        """X.append(nm) / X.extend([.., nm, ..]) / lst = [.., nm, ..]: nm is only stored"""
        if isinstance(node, ast.Expr) and isinstance(node.value, ast.Call) and \
                isinstance(node.value.func, ast.Attribute) and node.value.func.attr in ('append', 'extend', 'insert') \
                and not node.value.keywords:
            return all(isinstance(a, (ast.Name, ast.Constant)) or
                       (isinstance(a, (ast.List, ast.Tuple)) and all(isinstance(e, ast.Name) for e in a.elts))
                       for a in node.value.args)
        if isinstance(node, ast.Assign) and len(node.targets) == 1 and isinstance(node.targets[0], ast.Name) and \
                isinstance(node.value, (ast.List, ast.Tuple)) and all(isinstance(e, ast.Name) for e in node.value.elts):
            return True
        return False

    def _assigned_next(self, node, f):
        """the statements after `node` in its block, up to the assignment N.attr = X.attr, are all storing uses or
        attribute assignments (nothing that could look at the stored object)"""
        loc = self.where.get(id(node))
        if loc is None:
            return False
        blk, i = loc
        want = '%s.%s' % (f[3], f[2])
        for st in blk[i + 1:]:
            if isinstance(st, ast.Assign) and len(st.targets) == 1 and isinstance(st.targets[0], ast.Attribute):
                if ntext(st.targets[0]) == '%s.%s' % (f[1], f[2]) and ntext(st.value) == want:
                    return True
                if isinstance(st.value, (ast.Attribute, ast.Name, ast.Constant)):
                    continue
                return False
            if any(self._storing_use(st, nm) for nm in [f[1]]) or \
                    (isinstance(st, ast.Expr) and isinstance(st.value, ast.Call) and
                     isinstance(st.value.func, ast.Attribute) and st.value.func.attr in ('append', 'extend')
                     and all(isinstance(a, ast.Name) for a in st.value.args)):
                continue
            return False
        return False


def find_sites(repo, fi):
    fl = _SiteFlow(repo, fi)
    fl.run(body_stmts(fi))
    return fl


def run(repo):
    res = RuleResult(RULE, 'derived constraints keep their set', TEXT)
    res.floor = 6
    for fi in repo.all_functions():
        if fi.module not in SCAN_MODULES:
            continue
        seen_sites = set()
        if not any(isinstance(n, ast.Call) and isinstance(n.func, ast.Name) and n.func.id == 'isinstance'
                   for n in walk_no_nested(fi.node)):
            continue
        fl = find_sites(repo, fi)
        if not fl.sites:
            continue
        res.functions.add(fi.fq)
        bad = {}
        for f, node in fl.problems:
            bad.setdefault(f[4], node)
        for s in fl.sites:
            if id(s['stmt']) in seen_sites:
                continue          # the loop fixpoint visits a statement more than once
            seen_sites.add(id(s['stmt']))
            key = id(s['stmt'])
            ok = key not in bad
            res.inst({'function': fi.fq, 'site': ntext(s['stmt'])[:90], 'source': s['source'],
                      'must_copy': s['attr'], 'ok': ok}, ok)
            if not ok:
                res.fail(Finding(RULE, fi.fq, '%s = %s(): %s <- %s.%s' % (s['new'], s['cls'].split('.')[1], s['attr'],
                                                                  s['source'], s['attr']),
                                 '%s rebuilds a %s from `%s` (%s) and uses it (`%s`) without '
                                 'assigning %s.%s = %s.%s: the derived constraint loses the set '
                                 'attached to the original and is checked against the default set'
                                 % (fi.fq, s['cls'].split('.')[1], s['source'], ntext(s['stmt'])[:60],
                                    ntext(bad[key])[:60], s['new'], s['attr'], s['source'], s['attr']),
                                 repo.where(fi, s['stmt'])))
    _positive(repo)
    return res


def _positive(repo):
    from rsx.loader import FuncInfo
    tree = ast.parse(POSITIVE)
    fi = FuncInfo('ro', None, tree.body[0])
    fl = find_sites(repo, fi)
    if len(fl.sites) != 1 or not fl.problems:
        raise AnalysisError('R08 self-test: positive example not detected')
