"""R26 row / label agreement for dual read-back (C14).

(a) In lp.Model.do_math every per-row sequence of the primal program (data, indices, indptr,
    const, sense) and the label array ciarray iterate the *same* list expression in the same
    order (one normalised iterable for all of them), and the label of a row block is the
    constraint's `index` repeated once per row of its matrix.
(b) lp.Model.st gives every LinConstr a fresh index before storing it (index assigned from the
    counter, counter incremented, then appended -- on the same path).
(c) LinConstr.dual selects the multipliers with `ciarray == index`; Bounds.dual indexes the bound
    multipliers with the bound's own column indices.
(d) Every dictionary of duals built by a solver interface has exactly the keys pi, upi, lpi,
    and `pi` is filled through the same equality / inequality masks that selected the rows
    handed to the solver.
"""
import ast

from .common import (AnalysisError, Finding, RuleResult, MustFlow, ntext, walk_no_nested,
                     body_stmts, is_self_attr)

RULE = 'R26'
TEXT = ('rows of the compiled program and the labels used to read duals back are produced by '
        'iterating one and the same constraint list; each linear constraint gets a unique index; '
        'every interface returns duals under the keys pi / upi / lpi')
P = {'props': ['C14']}


def _seq_key(it):
    """one spelling for a concatenation of lists:  a + b  ==  [*a, *b]"""
    if isinstance(it, (ast.List, ast.Tuple)) and it.elts and all(isinstance(e, ast.Starred) for e in it.elts):
        return ' + '.join(ntext(e.value) for e in it.elts)
    return ntext(it)


def run(repo):
    res = RuleResult(RULE, 'row / label agreement', TEXT)
    res.floor = 14
    dm = repo.func('lp.Model.do_math')
    res.functions.add(dm.fq)
    iters = []
    from .common import single_defs, expand_locals
    defs = single_defs(dm.node)          # a local alias of the constraint list is the same list
    for n in walk_no_nested(dm.node):
        if isinstance(n, (ast.ListComp, ast.GeneratorExp)):
            for g in n.generators:
                it = expand_locals(dm.node, g.iter, defs=defs)
                if any(is_self_attr(x, 'lin_constr') for x in ast.walk(it)):
                    # the element expression with the comprehension variable called `item`
                    elt = ntext(n.elt)
                    if isinstance(g.target, ast.Name) and g.target.id != 'item':
                        import re as _re
                        elt = _re.sub(r'\b%s\b' % g.target.id, 'item', elt)
                    iters.append((_seq_key(it), elt[:50]))
        elif isinstance(n, ast.For):
            it = expand_locals(dm.node, n.iter, defs=defs)
            if isinstance(it, (ast.ListComp, ast.GeneratorExp)) and len(it.generators) == 1 and not it.generators[0].ifs:
                # for x in [f(item) for item in L]: the rows come in the order of L (the comprehension itself is
                # one of the sequences compared below)
                it = expand_locals(dm.node, it.generators[0].iter, defs=defs)
            if any(is_self_attr(x, 'lin_constr') for x in ast.walk(it)):
                iters.append((_seq_key(it), 'for-loop (indptr)'))
    if len(iters) < 6:
        raise AnalysisError('lp.Model.do_math: only %d iterations over lin_constr found' % len(iters))
    base = iters[0][0]
    for it, what in iters:
        ok = it == base
        res.inst({'row_sequence': what, 'iterates': it, 'same_as_first': ok}, ok)
        if not ok:
            res.fail(Finding(RULE, dm.fq, 'row order: ' + what[:40],
                             'lp.Model.do_math builds `%s` by iterating `%s` while the other row '
                             'sequences iterate `%s`: rows, right-hand sides, senses and dual labels '
                             'would be paired in different orders' % (what, it, base), repo.where(dm), P))
    label = [w for _it, w in iters if 'index' in w]
    ok = any('item.index' in w and 'shape[0]' in w for w in label)
    res.inst({'label': label, 'index_repeated_per_row': ok}, ok)
    if not ok:
        res.fail(Finding(RULE, dm.fq, 'row labels', 'the dual label of a row block must be the '
                         'constraint\'s index repeated linear.shape[0] times (found %s)' % label,
                         repo.where(dm), P))
    # the list of label blocks: the local whose comprehension element is np.array([<x>.index] * ..)
    label_lists = {n.targets[0].id for n in walk_no_nested(dm.node) if isinstance(n, ast.Assign)
                   and isinstance(n.targets[0], ast.Name) and isinstance(n.value, ast.ListComp)
                   and '.index]' in ntext(n.value.elt)}
    if not label_lists:
        raise AnalysisError('lp.Model.do_math: the list of per-constraint label blocks was not found')
    ci_ok = any(isinstance(n, ast.Assign) and any(is_self_attr(t, 'ciarray') for t in n.targets)
                and any(isinstance(x, ast.Name) and x.id in label_lists for x in ast.walk(n.value))
                for n in walk_no_nested(dm.node))
    res.inst({'ciarray': 'np.concatenate(constr_idx_list)', 'ok': ci_ok}, ci_ok)
    if not ci_ok:
        res.fail(Finding(RULE, dm.fq, 'ciarray', 'self.ciarray is no longer the concatenation of the '
                         'per-constraint label blocks', repo.where(dm), P))
    # (b)
    st = repo.func('lp.Model.st')
    res.functions.add(st.fq)

    class _Idx(MustFlow):
        def __init__(self):
            super().__init__()
            self.appends = []

        def refine(self, test, branch, state):
            return state

        def visit(self, node, state):
            for n in ast.walk(node):
                if isinstance(n, ast.Call) and ntext(n.func) == 'self.lin_constr.append':
                    self.appends.append('indexed' in state)

        def transfer(self, node, state):
            if isinstance(node, ast.Assign) and len(node.targets) == 1 and isinstance(node.targets[0], ast.Name) \
                    and ntext(node.value) == 'self.constr_idx':
                state = state | {('holds-counter', node.targets[0].id)}
            if isinstance(node, ast.Assign) and any(ntext(t).endswith('.index') for t in node.targets) \
                    and (ntext(node.value) == 'self.constr_idx' or
                         (isinstance(node.value, ast.Name) and ('holds-counter', node.value.id) in state
                          and 'bumped' not in state)):
                state = (state | {'indexed'}) - {'balanced'}       # an index has been handed out ..
            if isinstance(node, ast.Assign) and any(ntext(t).endswith('.index') for t in node.targets) and \
                    'indexed' in state and 'bumped' not in state:
                # the attribute that has just received the counter's value is another name for it
                for t in node.targets:
                    if ntext(t).endswith('.index'):
                        state = state | {('holds-counter', ntext(t))}

            def old_counter(e):
                """the value the counter had when the index was handed out"""
                return is_self_attr(e, 'constr_idx') or \
                    (isinstance(e, (ast.Name, ast.Attribute)) and ('holds-counter', ntext(e)) in state)
            bump = (isinstance(node, ast.AugAssign) and is_self_attr(node.target, 'constr_idx') and
                    isinstance(node.op, ast.Add)) or \
                   (isinstance(node, ast.Assign) and len(node.targets) == 1 and is_self_attr(node.targets[0], 'constr_idx')
                    and isinstance(node.value, ast.BinOp) and isinstance(node.value.op, ast.Add)
                    and (old_counter(node.value.left) or old_counter(node.value.right))
                    and 'bumped' not in state)
            if bump:
                state = state | {'bumped', 'balanced'}              # .. and the counter has moved on
            return state
    fl = _Idx()
    o_ = fl.run(body_stmts(st), {'balanced'})
    exits_ = [s_ for s_, _n in o_.returns] + ([o_.normal] if o_.normal is not None else [])
    ok = bool(fl.appends) and all(fl.appends) and all('balanced' in s_ for s_ in exits_ if s_ is not None)
    res.inst({'lp.Model.st': 'index assigned and counter bumped before append', 'ok': ok}, ok)
    if not ok:
        res.fail(Finding(RULE, st.fq, 'unique index', 'lp.Model.st can store a LinConstr without giving '
                         'it a fresh index: dual() of two constraints would select the same rows',
                         repo.where(st), P))
    # (c)
    ld = repo.func('lp.LinConstr.dual')
    idx_names = {'self.index'}
    for n in walk_no_nested(ld.node):
        if isinstance(n, ast.Assign) and ntext(n.value) == 'self.index' and isinstance(n.targets[0], ast.Name):
            idx_names.add(n.targets[0].id)
    cmps = [n for n in walk_no_nested(ld.node) if isinstance(n, ast.Compare)
            and any(isinstance(x, ast.Attribute) and x.attr == 'ciarray' for x in ast.walk(n))]
    if not cmps:
        raise AnalysisError('LinConstr.dual: no comparison involving ciarray found')
    ok = all(isinstance(c.ops[0], ast.Eq) and (ntext(c.left) in idx_names or ntext(c.comparators[0]) in idx_names)
             for c in cmps)
    res.inst({'LinConstr.dual': 'selects ciarray == self.index', 'ok': ok}, ok)
    if not ok:
        res.fail(Finding(RULE, ld.fq, 'ciarray == index', 'LinConstr.dual must select the rows whose '
                         'label equals the constraint\'s own index', repo.where(ld), P))
    bd = repo.func('lp.Bounds.dual')
    btxt = ntext(bd.node)
    # every arm of the chain on self.btype reads the multipliers of its own side, at self.indices
    from rsx.dispatch import chain_tests
    from .common import const_str
    arms = {}
    for n in walk_no_nested(bd.node):
        if isinstance(n, ast.If) and isinstance(n.test, ast.Compare) and ntext(n.test.left) == 'self.btype' \
                and not arms:
            tests, _els = chain_tests(n)
            for t, body in tests:
                if isinstance(t, ast.Compare) and ntext(t.left) == 'self.btype' and isinstance(t.ops[0], ast.Eq) \
                        and const_str(t.comparators[0]) is not None:
                    arms[const_str(t.comparators[0])] = ' '.join(ntext(s_) for s_ in body)
    if set(arms) != {'U', 'L'}:
        raise AnalysisError('Bounds.dual: arms for btype U and L not found (%s)' % sorted(arms))
    ok = "'upi'" in arms['U'] and "'lpi'" not in arms['U'] and "'lpi'" in arms['L'] and "'upi'" not in arms['L'] \
        and all('[self.indices]' in a for a in arms.values())
    res.inst({'Bounds.dual': 'U -> upi, L -> lpi, indexed by self.indices', 'ok': ok}, ok)
    if not ok:
        res.fail(Finding(RULE, bd.fq, 'upi/lpi', 'Bounds.dual must read upper-bound multipliers for '
                         'btype U and lower-bound multipliers for btype L at the bound\'s own columns',
                         repo.where(bd), P))
    # (d)
    nd = 0
    for m in sorted(repo.modules):
        if not (m.endswith('_solver') or m == 'lp'):
            continue
        for fi in repo.module(m).functions.values():
            if fi.name not in ('solve', 'def_sol'):
                continue
            for n in walk_no_nested(fi.node):
                # the dual dictionary: a dict display (or dict(pi=..)) carrying the key 'pi', wherever it is written
                dkeys = None
                if isinstance(n, ast.Dict) and any(isinstance(k, ast.Constant) and k.value == 'pi' for k in n.keys):
                    dkeys = sorted(k.value for k in n.keys if isinstance(k, ast.Constant))
                elif isinstance(n, ast.Call) and isinstance(n.func, ast.Name) and n.func.id == 'dict' and \
                        any(k.arg == 'pi' for k in n.keywords):
                    dkeys = sorted(k.arg for k in n.keywords if k.arg)
                if dkeys is not None:
                    nd += 1
                    # keys added afterwards to the local that holds the dictionary:  y['upi'] = upi ; y.update(lpi=..)
                    holder = None
                    for a_ in walk_no_nested(fi.node):
                        if isinstance(a_, ast.Assign) and a_.value is n and len(a_.targets) == 1 and \
                                isinstance(a_.targets[0], ast.Name):
                            holder = a_.targets[0].id
                    if holder is not None:
                        for a_ in walk_no_nested(fi.node):
                            if isinstance(a_, ast.Assign) and len(a_.targets) == 1 and \
                                    isinstance(a_.targets[0], ast.Subscript) and ntext(a_.targets[0].value) == holder \
                                    and isinstance(a_.targets[0].slice, ast.Constant):
                                dkeys = sorted(set(dkeys) | {a_.targets[0].slice.value})
                            elif isinstance(a_, ast.Call) and isinstance(a_.func, ast.Attribute) and \
                                    a_.func.attr == 'update' and ntext(a_.func.value) == holder:
                                dkeys = sorted(set(dkeys) | {k.arg for k in a_.keywords if k.arg})
                                for d_ in a_.args:
                                    if isinstance(d_, ast.Dict):
                                        dkeys = sorted(set(dkeys) | {k.value for k in d_.keys if isinstance(k, ast.Constant)})
                                    else:
                                        raise AnalysisError('%s: the dual dictionary is updated from `%s`'
                                                            % (fi.fq, ntext(d_)[:40]))
                    keys = dkeys
                    ok = keys == ['lpi', 'pi', 'upi']
                    res.functions.add(fi.fq)
                    res.inst({'interface': fi.fq, 'dual_keys': keys}, ok)
                    if not ok:
                        res.fail(Finding(RULE, fi.fq, 'dual keys', '%s returns duals under the keys %s; '
                                         'dual() reads pi, upi and lpi' % (fi.fq, keys), repo.where(fi, n), P))
            # pi filled through eq / ineq masks
            pi_names = {'pi'}
            for n in walk_no_nested(fi.node):
                if isinstance(n, ast.Dict):
                    for k, v in zip(n.keys, n.values):
                        if isinstance(k, ast.Constant) and k.value == 'pi' and isinstance(v, ast.Name):
                            pi_names.add(v.id)
            fdefs = single_defs(fi.node)
            fills = [n for n in walk_no_nested(fi.node) if isinstance(n, ast.Assign)
                     and isinstance(n.targets[0], ast.Subscript) and ntext(n.targets[0].value) in pi_names]
            # rows handed to the solver in two blocks (equalities / inequalities)?
            split = [n for n in walk_no_nested(fi.node) if isinstance(n, ast.Assign)
                     and isinstance(n.targets[0], ast.Name) and isinstance(n.value, ast.Subscript)
                     and ntext(n.value.value).endswith('linear') and
                     any(k in ntext(n.value.slice) for k in ('eq', 'sense'))]
            has_y = any(isinstance(n, ast.Dict) and any(isinstance(k, ast.Constant) and k.value == 'pi' for k in n.keys)
                        for n in walk_no_nested(fi.node))
            if has_y and len(split) >= 2:
                masks = {ntext(n.targets[0].slice) for n in fills}
                ok = len(fills) >= 2 and any('ineq' in m or m.startswith('~') for m in masks) and \
                    any(('eq' in m and 'ineq' not in m) for m in masks)
                res.inst({'interface': fi.fq, 'rows_split_by_sense': [ntext(n.targets[0]) for n in split],
                          'pi_filled_through_masks': sorted(masks), 'ok': ok}, ok)
                if not ok:
                    res.fail(Finding(RULE, fi.fq, 'pi not scattered back',
                                     '%s hands the rows to the solver in two blocks (%s) but does not scatter '
                                     'the multipliers back through the equality and inequality masks: pi is in '
                                     'the solver\'s row order, not in the order of the compiled program that '
                                     'ciarray labels' % (fi.fq, ', '.join(ntext(n.targets[0]) for n in split)),
                                     repo.where(fi), P))
            for n in fills:
                idx = ntext(n.targets[0].slice)
                v0 = n.value.operand if isinstance(n.value, ast.UnaryOp) else n.value
                # a value held in a temporary is read through its definition; other expressions as written
                val = ntext(expand_locals(fi.node, n.value, depth=1, defs=fdefs)) if isinstance(v0, ast.Name) \
                    else ntext(n.value)
                is_ineq = 'ineq' in idx or idx.startswith('~')
                v_ineq = 'ineq' in val or "['z']" in val
                v_eq = ('eq' in val and 'ineq' not in val) or "['y']" in val
                if v_ineq == v_eq:
                    continue          # the source of the values is not recognisable by name: not judged
                ok = (is_ineq and v_ineq) or (not is_ineq and v_eq)
                res.inst({'interface': fi.fq, 'pi_fill': ntext(n)[:60], 'mask_matches_source': ok}, ok)
                if not ok:
                    res.fail(Finding(RULE, fi.fq, 'pi fill: ' + ntext(n)[:40],
                                     '%s stores `%s` under the mask `%s`: equality multipliers must go '
                                     'to the equality rows and inequality multipliers to the inequality '
                                     'rows' % (fi.fq, val[:40], idx), repo.where(fi, n), P))
    if nd < 5:
        raise AnalysisError('only %d dual dictionaries found in the solver interfaces' % nd)
    return res
