"""R24 array-shape law (the one statically decidable clause of C05).

Affine.shape is const.shape (Affine.__init__) and RoAffine.shape is affine.shape.  For each
operation of Affine the constant handed to the result constructor is the image of the operand
constants under the *same* NumPy operation:
    reshape -> const.reshape(shape)      T -> const.T            [item] -> const[item]
    sum(axis) -> const.sum(axis=axis)    -x -> -const            x * o -> const * o (either order)
    x @ o -> const @ o                   o @ x -> o @ const      x + y -> y.const + const / o + const
    tril / triu -> np.tril / np.triu(const, k)                   concat -> np.concatenate(consts, axis=axis)
and for RoAffine the `affine` part is obtained by applying the same operator to self.affine.
Then the result *shape* is NumPy's for every operand shape NumPy accepts and NumPy's own error is
raised for those it rejects.  Values and the linear part's index arithmetic are not decided.
"""
import ast

from rsx.ctor import bind_args
from .common import (AnalysisError, Finding, RuleResult, ClassInfo, ntext, walk_no_nested, body_stmts,
                     is_self_attr)

RULE = 'R24'
TEXT = ('the constant part of every Affine / RoAffine result is computed by the mirrored NumPy '
        'operation on the operands\' constant parts, so result shapes are NumPy\'s')
P = {'props': ['C05']}

# method -> structural predicate(expression, base text, parameter name); names of parameters are
# taken from the method's own signature, so renaming them does not matter
def _binop(op, left, right, commut=False):
    def p(e, base, par):
        if not (isinstance(e, ast.BinOp) and isinstance(e.op, op)):
            return False
        sub = {'B': base, 'P': par, 'PC': par + '.' + base.split('.')[-1]}
        l, r = ntext(e.left), ntext(e.right)
        want = [(sub[left], sub[right])] + ([(sub[right], sub[left])] if commut else [])
        return (l, r) in want
    return p


def _method(name, forward=True):
    def p(e, base, par):
        if not (isinstance(e, ast.Call) and isinstance(e.func, ast.Attribute) and e.func.attr == name
                and ntext(e.func.value) == base):
            return False
        args = [ntext(a) for a in e.args] + [ntext(k.value) for k in e.keywords]
        return (not forward) or args == [par]
    return p


def _any(*ps):
    return lambda e, base, par: any(q(e, base, par) for q in ps)


MIRROR = {
    'reshape': lambda e, base, par: _method('reshape')(e, base, par) or isinstance(e, ast.Name),
    'T': lambda e, base, par: isinstance(e, ast.Attribute) and e.attr == 'T' and ntext(e.value) == base,
    '__getitem__': lambda e, base, par: isinstance(e, ast.Subscript) and ntext(e.value) == base
    and ntext(e.slice) == par,
    'sum': _method('sum'),
    '__neg__': lambda e, base, par: isinstance(e, ast.UnaryOp) and isinstance(e.op, ast.USub)
    and ntext(e.operand) == base,
    '__mul__': _binop(ast.Mult, 'B', 'P', commut=True),
    '__rmul__': _binop(ast.Mult, 'B', 'P', commut=True),
    '__matmul__': _binop(ast.MatMult, 'B', 'P'),
    '__rmatmul__': _binop(ast.MatMult, 'P', 'B'),
    '__add__': _any(_binop(ast.Add, 'B', 'P', commut=True), _binop(ast.Add, 'B', 'PC', commut=True)),
    'concat': lambda e, base, par: isinstance(e, ast.Call) and ntext(e.func) in ('np.concatenate',)
    and base in ntext(e) and (par + '.' + base.split('.')[-1]) in ntext(e) and 'axis' in ntext(e),
}
AFFINE = {k: MIRROR[k] for k in ('reshape', 'T', '__getitem__', 'sum', '__neg__', '__mul__', '__rmul__',
                                 '__matmul__', '__rmatmul__', '__add__', 'concat')}
ROAFFINE = {k: MIRROR[k] for k in ('__getitem__', 'reshape', 'T', '__neg__', '__mul__', '__rmul__',
                                   '__matmul__', '__rmatmul__', 'sum')}


def inline(fi, e, depth=0):
    if depth > 3 or not isinstance(e, ast.Name):
        return [e]
    vals = []
    for n in walk_no_nested(fi.node):
        if isinstance(n, ast.Assign) and len(n.targets) == 1 and isinstance(n.targets[0], ast.Name) \
                and n.targets[0].id == e.id:
            vals.append(n.value)
    return vals or [e]


class _Canon(ast.NodeTransformer):
    """one spelling: x.transpose() -> x.T ; check_numeric(x) -> x"""

    def visit_Call(self, node):
        self.generic_visit(node)
        if isinstance(node.func, ast.Attribute) and node.func.attr == 'transpose' and not node.args and not node.keywords:
            return ast.copy_location(ast.Attribute(value=node.func.value, attr='T', ctx=ast.Load()), node)
        if isinstance(node.func, ast.Name) and node.func.id == 'check_numeric' and len(node.args) == 1:
            return node.args[0]
        return node


def inline_deep(fi, e, depth=0):
    """every reading of `e` obtained by replacing locals with (each of) their definitions"""
    import copy
    import itertools
    defs = {}
    for n in walk_no_nested(fi.node):
        if isinstance(n, ast.Assign) and len(n.targets) == 1 and isinstance(n.targets[0], ast.Name):
            defs.setdefault(n.targets[0].id, []).append(n.value)
    params = set(fi.params)
    names = sorted({x.id for x in ast.walk(e) if isinstance(x, ast.Name) and isinstance(x.ctx, ast.Load)
                    and x.id in defs and len(defs[x.id]) <= 3})
    if not names or depth > 2:
        return [ast.fix_missing_locations(_Canon().visit(copy.deepcopy(e)))]
    out = []
    for combo in itertools.islice(itertools.product(*[defs[n_] + ([ast.Name(id=n_, ctx=ast.Load())] if n_ in params else [])
                                                      for n_ in names]), 12):
        table = dict(zip(names, combo))

        class _S(ast.NodeTransformer):
            def visit_Name(self, node):
                if isinstance(node.ctx, ast.Load) and node.id in table and \
                        not (isinstance(table[node.id], ast.Name) and table[node.id].id == node.id):
                    return copy.deepcopy(table[node.id])
                return node
        new = _S().visit(copy.deepcopy(e))
        if ntext(new) == ntext(e):
            out.append(ast.fix_missing_locations(_Canon().visit(new)))
        else:
            out.extend(inline_deep(fi, new, depth + 1))
    return out


def result_consts(repo, fi, cls_fq, field):
    out = []
    for n in walk_no_nested(fi.node):
        val = n.value if isinstance(n, ast.Return) else None
        if isinstance(val, ast.Name):
            from .common import expand_locals as _xl
            val = _xl(fi.node, val, depth=1)                 # out = Affine(..); return out
        if isinstance(n, ast.Return) and isinstance(val, ast.Call) and isinstance(val.func, ast.Name):
            r = repo.resolve_name(fi.module, val.func.id)
            if isinstance(r, ClassInfo) and r.fq == cls_fq:
                env = bind_args(repo.resolve_method(r, '__init__'), val)
                if env and field in env:
                    out.append((n, env[field]))
    return out


def run(repo):
    res = RuleResult(RULE, 'array-shape law', TEXT)
    res.floor = 18
    # shape is the constant's shape
    init = repo.func('lp.Affine.__init__')
    from .common import expand_locals
    ok = any(isinstance(n, ast.Assign) and is_self_attr(n.targets[0], 'shape') and
             ntext(expand_locals(init.node, n.value)) == 'const.shape' for n in walk_no_nested(init.node))
    res.inst({'Affine.shape': 'const.shape', 'ok': ok}, ok)
    if not ok:
        res.fail(Finding(RULE, init.fq, 'self.shape = const.shape', 'Affine.shape is no longer the shape of '
                         'the constant part', repo.where(init), P))
    init2 = repo.func('lp.RoAffine.__init__')
    ok = any(isinstance(n, ast.Assign) and is_self_attr(n.targets[0], 'shape') and
             ntext(expand_locals(init2.node, n.value)) == 'affine.shape' for n in walk_no_nested(init2.node))
    res.inst({'RoAffine.shape': 'affine.shape', 'ok': ok}, ok)
    if not ok:
        res.fail(Finding(RULE, init2.fq, 'self.shape = affine.shape', 'RoAffine.shape is no longer the shape '
                         'of its affine part', repo.where(init2), P))
    for cls_fq, field, table in (('lp.Affine', 'const', AFFINE), ('lp.RoAffine', 'affine', ROAFFINE)):
        ci = repo.cls(cls_fq)
        for m, pred in table.items():
            fi = ci.methods.get(m)
            if fi is None:
                raise AnalysisError('%s.%s vanished' % (cls_fq, m))
            res.functions.add(fi.fq)
            rcs = result_consts(repo, fi, cls_fq, field)
            if not rcs:
                raise AnalysisError('%s: no `return %s(...)` found' % (fi.fq, ci.name))
            for node, e in rcs:
                cands = inline_deep(fi, e)
                # keep the fully resolved readings (a self-referential definition leaves residue)
                local_defs = {n_.targets[0].id for n_ in walk_no_nested(fi.node) if isinstance(n_, ast.Assign)
                              and len(n_.targets) == 1 and isinstance(n_.targets[0], ast.Name)} - set(fi.params)
                full = [c for c in cands if not any(isinstance(x, ast.Name) and x.id in local_defs for x in ast.walk(c))]
                cands = full or cands
                cands = list({ntext(c): c for c in cands}.values())
                base = 'self.' + field
                par = fi.params[1] if len(fi.params) > 1 else ''
                # the numeric branch(es): at least one definition must be the mirrored operation, and
                # every definition must be *some* NumPy expression over the operands' constants
                good = [c for c in cands if pred(c, base, par)]
                weird = [c for c in cands if not pred(c, base, par) and not _mentions_const(c, field)]
                ok = bool(good) and not weird
                res.inst({'method': fi.fq, 'result_' + field: [ntext(c)[:50] for c in cands], 'ok': ok}, ok)
                if not ok:
                    res.fail(Finding(RULE, fi.fq, '%s of the result' % field,
                                     '%s builds its result with %s = %s, which is not the mirrored NumPy '
                                     'operation on the operand\'s %s: the result shape may differ from '
                                     'NumPy\'s' % (fi.fq, field, [ntext(c)[:40] for c in cands], field),
                                     repo.where(fi, node), P))
    # the index-array memo depends on the shape only: it may be forwarded to a new object only
    # together with the owner's own constant / shape
    n_fw = 0
    for fi in repo.all_functions():
        if fi.module != 'lp':
            continue
        for n in walk_no_nested(fi.node):
            if not (isinstance(n, ast.Call) and isinstance(n.func, (ast.Name, ast.Attribute))):
                continue
            fname = n.func.id if isinstance(n.func, ast.Name) else None
            target = None
            if fname is not None:
                r = repo.resolve_name(fi.module, fname)
                if isinstance(r, ClassInfo) and r.fq in ('lp.Affine', 'lp.Vars'):
                    target = r
            elif isinstance(n.func, ast.Attribute) and n.func.attr == '__init__' and ntext(n.func.value) == 'super()' \
                    and fi.cls is not None and fi.cls.bases and fi.cls.bases[0].fq in ('lp.Affine', 'lp.Vars', 'lp.VarSub'):
                target = fi.cls.bases[0]
            if target is None:
                continue
            init = repo.resolve_method(target, '__init__')
            env = bind_args(init, n)
            if not env or 'sparray' not in env:
                continue
            sp_e = env['sparray']
            if isinstance(sp_e, ast.Constant) and sp_e.value is None:
                continue
            if not (isinstance(sp_e, ast.Attribute) and sp_e.attr == 'sparray'):
                continue
            n_fw += 1
            owner = ntext(sp_e.value)
            shape_arg = env.get('const') if 'const' in env else env.get('shape')
            if 'var' in env and shape_arg is None:          # VarSub.__init__(var, indices)
                shape_arg = env['var']
            cands = inline(fi, shape_arg) if shape_arg is not None else []
            def same_shape(c):
                if ntext(c) in (owner + '.const', owner + '.shape', owner):
                    return True
                # an array allocated with the owner's shape: np.zeros(owner.shape[, dtype]) / ones / empty / full
                return isinstance(c, ast.Call) and ntext(c.func) in (
                    'np.zeros', 'np.ones', 'np.empty', 'np.full', 'numpy.zeros', 'numpy.ones', 'numpy.empty',
                    'numpy.full') and bool(c.args) and ntext(c.args[0]) == owner + '.shape'
            ok = any(same_shape(c) for c in cands)
            res.functions.add(fi.fq)
            res.inst({'function': fi.fq, 'forwards_memo_of': owner,
                      'with_shape_source': [ntext(c)[:40] for c in cands], 'ok': ok}, ok)
            if not ok:
                res.fail(Finding(RULE, fi.fq, 'sparray forwarded with another shape',
                                 '%s forwards %s.sparray (the index-array memo, valid for %s\'s shape only) to '
                                 'an object whose shape comes from `%s`: indexing / sum on the result then '
                                 'selects rows by the old shape'
                                 % (fi.fq, owner, owner, '; '.join(ntext(c)[:40] for c in cands)),
                                 repo.where(fi, n), P))
    if n_fw < 3:
        raise AnalysisError('only %d forwardings of the sparray memo found' % n_fw)
    # (e) element-wise atoms keep argument and value aligned.  `square(x) + other` broadcasts the value part
    #     (affine_out + other); for the element-wise letter S the argument must be broadcast the same way on
    #     every path (affine_in.reshape(value shape) + 0*other), whatever the sizes -- equal size is not equal shape
    #     (a (3,1) square plus a (3,) operand has nine entries); otherwise the lowering builds one cone per entry
    #     of the argument and the other entries of the value are never constrained.
    _elementwise_broadcast(repo, res)
    return res


def _mentions_const(e, field):
    t = ntext(e)
    return ('.' + field) in t or 'other' in t


def _elementwise_broadcast(repo, res):
    from rsx.flow import holds, clauses, clauses_of, MustFlow as _MF
    from .common import body_stmts
    RB = ('cl', frozenset({('#rebroadcast', True)}))
    n_sites = 0
    for fq in ('lp.Convex.__add__',):
        fi = repo.func(fq)
        res.functions.add(fq)
        # the broadcasting statement: <in> = (<in>.reshape(self.affine_out.shape) + 0 * other)   (any operand order)
        def is_rebroadcast(node):
            if not (isinstance(node, ast.Assign) and len(node.targets) == 1 and isinstance(node.targets[0], ast.Name)):
                return False
            t = ntext(node.value)
            return 'reshape(self.affine_out.shape)' in t and ('0 * other' in t or 'other * 0' in t or
                                                              'np.zeros_like(other)' in t)
        if not any(is_rebroadcast(n) for n in walk_no_nested(fi.node)):
            raise AnalysisError('%s: the statement broadcasting affine_in against the added operand '
                                '(affine_in.reshape(self.affine_out.shape) + 0*other) was not found' % fq)

        class _F(_MF):
            def __init__(self):
                super().__init__()
                self.sites = []

            def refine(self, test, branch, state):
                return state

            def transfer(self, node, state):
                if is_rebroadcast(node):
                    return state | {RB}          # a clause, so that it survives the join with the `not S` arm
                return state

            def visit(self, node, state):
                for c in ast.walk(node):
                    if isinstance(c, ast.Call) and isinstance(c.func, ast.Name) and c.func.id == 'Convex':
                        allowed = {('#rebroadcast', True)}
                        for txt in ("self.xtype in 'S'", "self.xtype == 'S'", "self.xtype in ('S',)", "self.xtype in ['S']"):
                            for cl_ in clauses(ast.parse(txt, mode='eval').body, False):
                                allowed |= set(cl_)
                        okk = any(c_ and set(c_) <= allowed for c_ in clauses_of(state))
                        self.sites.append((c, okk))
        fl = _F()
        fl.run(body_stmts(fi))
        for c, okk in fl.sites:
            n_sites += 1
            res.inst({'function': fq, 'result': ntext(c)[:50], 'argument_broadcast_for_S_on_every_path': okk}, okk)
            if not okk:
                res.fail(Finding(RULE, fq, 'element-wise atom: argument not broadcast on every path',
                                 '%s builds `%s` on a path where the atom may be the element-wise square (S) and the '
                                 'argument has not been broadcast against the added operand: when the operand has the '
                                 'same number of entries but another shape the value has more entries than the argument '
                                 'and the lowering constrains only some of them' % (fq, ntext(c)[:40]),
                                 repo.where(fi, c), {'props': ['C06', 'C05']}))
    if n_sites < 1:
        raise AnalysisError('R24(e): no Convex(..) construction found in Convex.__add__')
