"""R20 model-identity and misuse guards.

(a) Sinks.  In the functions that store a user-supplied object into a model / set / rule
    (st() of every layer and front end, probset, suppset, exptset, DecRoConstr.forall,
    affadapt, DecRule.adapt, IPCone.__init__), every statement that performs the store is
    dominated by a model-identity comparison (`is not` / `!=` between two model-bearing
    expressions, e.g. constr.model vs self, arg.model vs self.ambset.model.sup_model) whose
    failing side raises.  gcp.Model.st has no test of its own: its guard is deferred to every
    caller that hands it user objects (ro.Model.st, the set-capture sites of R09, the Scen /
    Ambiguity setters) -- the table of callers is re-validated on every run.
(b) Operators.  In Affine.__add__ / __mul__ / __matmul__ and RoAffine.__add__, every return that
    combines `self` with a model-bearing `other` is dominated by an identity comparison (or a
    positive equality that selects the branch); concat / Affine.concat / rsocone / expcone /
    kldiv / maxof contain a raising identity comparison over their operands.
(c) The ten objective setters reach `self.obj = ...` only past `self.obj is not None -> raise`
    and contain a raising size test; dro.Model.ambiguity raises when constraints exist.
(d) No shared mutable state: class bodies and module globals hold only immutable constants;
    no parameter with a mutable default is written.
"""
import ast

from rsx.access import access
from .common import (AnalysisError, Finding, RuleResult, MustFlow, ntext, walk_no_nested,
                     body_stmts, is_self_attr, call_name, attr_path, single_defs)

RULE = 'R20'
TEXT = ('objects of another model cannot reach a model, set or rule: identity guards dominate '
        'every store; objectives cannot be redefined; no mutable state is shared between models')
MODEL_ATTRS = ('model', 'top', 'dec_model', 'rand_model', 'dro_model', 'rc_model', 'sup_model',
               'vt_model', 'pro_model', 'exp_model')
MODEL_LOCALS = ('sup_model', 'this_model', 'model')
P17 = {'props': ['C17']}

SINK_FUNCS = {
    # function: description of the store statements (predicate name)
    'lp.Model.st': 'append',
    'socp.Model.st': 'append',
    'ro.Model.st': 'append',
    'dro.Model.st': 'append',
    'dro.Ambiguity.probset': 'assign:pro_constr',
    'lp.Scen.suppset': 'store:sup_constr',
    'lp.Scen.exptset': 'append',
    'lp.DecRoConstr.forall': 'assign:ambset',
    'lp.DecVarSub.affadapt': 'store:rand_adapt',
    'lp.DecRule.adapt': 'store:depend',
    'lp.IPCone.__init__': 'assign:right',
}
RETURN_FUNCS = ['lp.Affine.__add__', 'lp.Affine.__mul__', 'lp.Affine.__matmul__', 'lp.RoAffine.__add__']
EXISTS_FUNCS = ['lp.concat', 'lp.Affine.concat', 'lp.Affine.rsocone', 'lp.Affine.expcone',
                'lp.Affine.kldiv', 'math.maxof', 'lp.RoConstr.forall', 'ro.Model.minmax',
                'ro.Model.maxmin']
GCP_ST_CALLERS = {
    # every package call site X.st(arg) whose receiver can be a gcp.Model and whose argument
    # derives from user input; value = where the identity guard lives
    'ro.Model.do_math': 'ro.Model.st (guard when the constraint is accepted)',
    'lp.RoConstr.forall': 'own guard (R09)',
    'ro.Model.minmax': 'own guard (R09)',
    'ro.Model.maxmin': 'own guard (R09)',
    'dro.Ambiguity.mix_support': 'Scen.exptset / Ambiguity.probset guards (this rule); the rest is built here',
    'dro.Model.do_math': 'dro.Model.st guard; constraints are rebuilt from the model\'s own variables',
    'ro.Model.st': 'recursion on its own items',
    'dro.Model.st': 'recursion on its own items',
    'lp.Model.st': 'recursion', 'socp.Model.st': 'recursion / super()', 'gcp.Model.st': 'recursion / super()',
}
SETTERS = ['lp.Model.min', 'lp.Model.max', 'ro.Model.min', 'ro.Model.max', 'ro.Model.minmax',
           'ro.Model.maxmin', 'dro.Model.min', 'dro.Model.max', 'dro.Model.minsup', 'dro.Model.maxinf']


IDOK = ('cl', frozenset({('#id-ok', True)}))     # clause form of 'an identity test was passed' (survives joins)
_CUR_LOCALS = set()      # locals of the function under analysis that only ever hold a model (or None)


def set_model_locals(fn_node):
    vals = {}
    for n in walk_no_nested(fn_node):
        if isinstance(n, ast.Assign):
            for t in n.targets:
                if isinstance(t, ast.Name):
                    vals.setdefault(t.id, []).append(n.value)
    _CUR_LOCALS.clear()
    for k, vs in vals.items():
        if all((isinstance(v, ast.Attribute) and v.attr in MODEL_ATTRS) or
               (isinstance(v, ast.Constant) and v.value is None) for v in vs) and \
                any(isinstance(v, ast.Attribute) for v in vs):
            _CUR_LOCALS.add(k)


def is_model_expr(e):
    if isinstance(e, ast.Name):
        return e.id == 'self' or e.id in MODEL_LOCALS or e.id in _CUR_LOCALS
    if isinstance(e, ast.Attribute):
        return e.attr in MODEL_ATTRS
    return False


def identity_compare(test):
    """test is `A is not B` / `A != B` (returns 'neq') or `A is B` / `A == B` ('eq') between
    two model-bearing expressions with different roots; else None."""
    if isinstance(test, ast.Compare) and len(test.ops) == 1:
        a, b = test.left, test.comparators[0]
        if is_model_expr(a) and is_model_expr(b) and ntext(a) != ntext(b):
            if isinstance(test.ops[0], (ast.IsNot, ast.NotEq)):
                return 'neq'
            if isinstance(test.ops[0], (ast.Is, ast.Eq)):
                return 'eq'
    return None


def known(test, truth):
    """[(leaf, value)]: the sub-tests whose value is implied by `test` evaluating to `truth`"""
    if isinstance(test, ast.UnaryOp) and isinstance(test.op, ast.Not):
        return known(test.operand, not truth)
    if isinstance(test, ast.BoolOp):
        if (isinstance(test.op, ast.And) and truth) or (isinstance(test.op, ast.Or) and not truth):
            out = []
            for v in test.values:
                out += known(v, truth)
            return out
        return []
    return [(test, truth)]


def _identity_leaf(test, raising_when):
    """does `test` contain an identity comparison whose *mismatch* makes the test more `raising_when`?
    (polarity walk through and/or/not: a `!=` leaf in positive position or an `==` leaf in negative
    position counts for True, the mirror image for False)"""
    def walk(e, pos):
        if isinstance(e, ast.UnaryOp) and isinstance(e.op, ast.Not):
            return walk(e.operand, not pos)
        if isinstance(e, ast.BoolOp):
            return any(walk(v, pos) for v in e.values)
        k = identity_compare(e)
        if k == 'neq':
            return pos is raising_when
        if k == 'eq':
            return pos is not raising_when
        return False
    return walk(test, True)


def mismatch_disjuncts(test):
    """identity comparisons whose failure (the two models differ) alone makes `test` true:
    `test` raises-on-mismatch when this is non-empty.  (leaf = v  =>  test, by contraposition of
    known(test, False).)"""
    out = []
    for leaf, tv in known(test, False):
        k = identity_compare(leaf)
        # test false => leaf == tv ; so leaf == (not tv) => test true
        if (k == 'neq' and tv is False) or (k == 'eq' and tv is True):
            out.append((leaf, not tv))
    return out


class _IdFlow(MustFlow):
    """fact 'id-checked': a model-identity comparison has been passed on the surviving side."""

    def __init__(self, sink_pred=None):
        super().__init__()
        self.sink_pred = sink_pred
        self.sinks = []       # (node, guarded)

    defs = {}          # single-definition locals of the function (aliases of model expressions)

    def refine(self, test, branch, state):
        raw = test
        if self.defs:
            from .common import expand_locals
            test = expand_locals(None, test, defs=self.defs)
        for leaf, tv in known(test, branch):
            k = identity_compare(leaf)
            if (k == 'neq' and not tv) or (k == 'eq' and tv):
                state = state | {'id-checked', IDOK}
            # any(x.model is not M for x in ITEMS) is false / all(x.model is M for x in ITEMS) is true:
            # every element of ITEMS has passed the identity test
            if isinstance(leaf, ast.Call) and isinstance(leaf.func, ast.Name) and len(leaf.args) == 1 and \
                    isinstance(leaf.args[0], (ast.GeneratorExp, ast.ListComp)) and \
                    len(leaf.args[0].generators) == 1 and not leaf.args[0].generators[0].ifs:
                g = leaf.args[0].generators[0]
                elt = leaf.args[0].elt
                tgt = {y.id for y in ast.walk(g.target) if isinstance(y, ast.Name)}
                hit = False
                if leaf.func.id == 'any' and tv is False:
                    hit = any(tgt & {y.id for y in ast.walk(l2) if isinstance(y, ast.Name)}
                              for l2, _v in mismatch_disjuncts(elt))
                elif leaf.func.id == 'all' and tv is True:
                    hit = any(identity_compare(l2) == ('eq' if v2 else 'neq') and
                              tgt & {y.id for y in ast.walk(l2) if isinstance(y, ast.Name)}
                              for l2, v2 in known(elt, True))
                if hit:
                    # the iterable as written (a local name) identifies the validated collection
                    for r0 in ast.walk(raw):
                        if isinstance(r0, (ast.GeneratorExp, ast.ListComp)) and isinstance(r0.generators[0].iter, ast.Name):
                            state = state | {('validated', r0.generators[0].iter.id), IDOK}
        return state | {('cond', branch, ntext(raw))}

    def after_loop(self, loop, state):
        # validation loop: `for x in ITEMS: if x.model is not M: raise` -- afterwards every
        # element of ITEMS has passed the identity test
        if isinstance(loop, ast.For) and isinstance(loop.target, ast.Name) and isinstance(loop.iter, ast.Name):
            x = loop.target.id
            for n in ast.walk(ast.Module(body=loop.body, type_ignores=[])):
                if isinstance(n, ast.If) and any(isinstance(s, ast.Raise) for s in n.body):
                    for leaf, tv in mismatch_disjuncts(n.test):
                        if any(isinstance(y, ast.Name) and y.id == x for y in ast.walk(leaf)):
                            return state | {('validated', loop.iter.id), IDOK}
        return state

    def visit(self, node, state):
        if self.sink_pred is not None:
            for n in ast.walk(node):
                if self.sink_pred(n, node):
                    self.sinks.append((n, guarded(state)))


def _id_atom(text):
    try:
        e = ast.parse(text, mode='eval').body
    except SyntaxError:
        return False
    return identity_compare(e) == 'eq'


def guarded(state):
    """on every path here a model-identity comparison has come out equal: the legacy facts, or a
    known clause all of whose literals are positive identity comparisons (one of them held)"""
    if 'id-checked' in state or any(isinstance(f, tuple) and f[0] == 'validated' for f in state):
        return True
    from rsx.flow import clauses_of
    return any(all(pol and (a == '#id-ok' or _id_atom(a)) for a, pol in c) for c in clauses_of(state))


def sink_predicate(kind):
    if kind == 'append':
        def p(n, stmt):
            return isinstance(n, ast.Call) and isinstance(n.func, ast.Attribute) \
                and n.func.attr in ('append', 'extend') and is_self_attr(n.func.value) \
                or (isinstance(n, ast.Call) and isinstance(n.func, ast.Attribute)
                    and n.func.attr in ('append', 'extend') and ntext(n.func.value).startswith('self.ambset.'))
        return p
    k, field = kind.split(':')
    if k == 'assign':
        def p(n, stmt):
            return isinstance(n, ast.Assign) and any(is_self_attr(t, field) for t in n.targets)
        return p
    if k == 'store':
        def p(n, stmt):
            return isinstance(n, ast.Assign) and any(
                isinstance(t, ast.Subscript) and ntext(t.value).endswith('.' + field) for t in n.targets)
        return p
    raise AnalysisError('unknown sink kind ' + kind)


def _rejects_multi(fi, test):
    """the test holds for every objective with more than one entry: a comparison  <size> > 1
    (or >= 2, != 1, 1 < <size>) whose operand is built from a .size / np.prod / len"""
    from .common import expand_locals, const_num
    t = expand_locals(fi.node, test)
    for c in ast.walk(t):
        if not (isinstance(c, ast.Compare) and len(c.ops) == 1):
            continue
        l, op, r = c.left, c.ops[0], c.comparators[0]
        if const_num(l) is not None:
            l, r = r, l
            op = {ast.Lt: ast.Gt, ast.LtE: ast.GtE}.get(type(op), type(op))()
        k = const_num(r)
        if (isinstance(op, ast.Gt) and k == 1) or (isinstance(op, ast.GtE) and k == 2) or \
                (isinstance(op, ast.NotEq) and k == 1):
            txt = ntext(l)
            if '.size' in txt or 'np.prod(' in txt or 'len(' in txt:
                return True
            if isinstance(l, ast.Name):
                # a local assigned per case:  size = obj.indices.size / size = obj.size
                vals = [n.value for n in walk_no_nested(fi.node) if isinstance(n, ast.Assign)
                        and any(isinstance(t_, ast.Name) and t_.id == l.id for t_ in n.targets)]
                if vals and all('.size' in ntext(v) or 'np.prod(' in ntext(v) or 'len(' in ntext(v) for v in vals):
                    return True
    return False


def _moved_store(repo, res, anchor, kind):
    """The store of `kind` is no longer in the anchor method: find the methods of the same class hierarchy
    that perform it.  Each must be guarded itself, or -- if it is not -- be reached only through call sites
    of the package that are guarded; an unguarded store in a public method, or behind an unguarded call,
    is a finding.  -> True when some such method was found and judged."""
    if anchor.cls is None:
        return False
    pred = sink_predicate(kind)
    holders = []
    for ci in [anchor.cls] + repo.subclasses(anchor.cls) + repo.mro(anchor.cls)[1:]:
        for m in ci.methods.values():
            if m is anchor or m in holders:
                continue
            if any(pred(n, None) for n in walk_no_nested(m.node)):
                holders.append(m)
    if not holders:
        return False
    for h in holders:
        set_model_locals(h.node)
        fl = _IdFlow(pred)
        fl.defs = single_defs(h.node)
        fl.run(body_stmts(h))
        own_ok = bool(fl.sinks) and all(g for _n, g in fl.sinks)
        res.functions.add(h.fq)
        if own_ok:
            res.inst({'sink_function': h.fq, 'store_moved_from': anchor.fq, 'identity_guard_dominates': True}, True)
            continue
        # callers
        bad_callers = []
        n_callers = 0
        for f2 in repo.all_functions():
            if f2.module in ('deco', 'cpt_solver_bkp') or f2 is h:
                continue
            calls = [c for c in walk_no_nested(f2.node) if isinstance(c, ast.Call) and isinstance(c.func, ast.Attribute)
                     and c.func.attr == h.name]
            if not calls:
                continue
            n_callers += 1
            ids = {id(c) for c in calls}
            set_model_locals(f2.node)
            fl2 = _IdFlow(lambda n, stmt: id(n) in ids)
            fl2.defs = single_defs(f2.node)
            fl2.run(body_stmts(f2))
            if not fl2.sinks or not all(g for _n, g in fl2.sinks):
                bad_callers.append(f2.fq)
        public = not h.name.startswith('_')
        ok = not bad_callers and n_callers > 0 and not public
        res.inst({'sink_function': h.fq, 'store_moved_from': anchor.fq, 'identity_guard_dominates': False,
                  'unguarded_callers': bad_callers, 'public': public}, ok)
        if not ok:
            why = ('is reached through %s without a model-identity test' % ', '.join(bad_callers)) if bad_callers else \
                'is a public method that performs the store without any model-identity test of its own'
            res.fail(Finding(RULE, h.fq, 'unguarded store (moved from %s)' % anchor.name,
                             'the %s that %s used to perform behind its model check now happens in %s, which %s: an '
                             'object of another model can be stored' % (kind, anchor.fq, h.fq, why),
                             repo.where(h), P17))
    return True


def run(repo):
    res = RuleResult(RULE, 'model-identity and misuse guards', TEXT)
    res.floor = 45
    # ----------------------------------------------------------------- (a) sinks
    for fq, kind in SINK_FUNCS.items():
        fi = repo.func(fq)
        res.functions.add(fq)
        set_model_locals(fi.node)
        fl = _IdFlow(sink_predicate(kind))
        fl.defs = single_defs(fi.node)
        fl.run(body_stmts(fi))
        seen = {}
        for n, g in fl.sinks:
            seen[id(n)] = (n, seen.get(id(n), (n, True))[1] and g)
        if not seen and kind != 'append':
            # the store may have moved into another method of the class (adapt -> set_depend): follow it
            moved = _moved_store(repo, res, fi, kind)
            if moved:
                continue
        if not seen:
            raise AnalysisError('%s: no store statement of kind %s found (anchor vanished)' % (fq, kind))
        for n, g in seen.values():
            res.inst({'sink_function': fq, 'store': ntext(n)[:60], 'identity_guard_dominates': g}, g)
            if not g:
                res.fail(Finding(RULE, fq, 'unguarded store: ' + ntext(n)[:50],
                                 '%s performs `%s` on a path that has not passed a model-identity '
                                 'test: an object of another model can be stored here'
                                 % (fq, ntext(n)[:60]), repo.where(fi, n), P17))
    # gcp.Model.st: deferred guards -- every call site of .st( in the package is a known caller
    for fi in repo.all_functions():
        if fi.module in ('deco', 'cpt_solver_bkp'):
            continue
        calls = [n for n in walk_no_nested(fi.node) if isinstance(n, ast.Call)
                 and isinstance(n.func, ast.Attribute) and n.func.attr == 'st']
        if not calls:
            continue
        ok = fi.fq in GCP_ST_CALLERS
        res.inst({'st_caller': fi.fq, 'guard_location': GCP_ST_CALLERS.get(fi.fq)}, ok)
        if not ok:
            res.fail(Finding(RULE, fi.fq, 'new caller of st()',
                             '%s calls .st(..) on a model; gcp.Model.st performs no identity test of '
                             'its own for exp-cone / KL / LMI / X L P F N O D constraints, so every '
                             'caller must be known to guard its arguments -- this one is not in the '
                             'confirmed table' % fi.fq, repo.where(fi, calls[0]), P17))
    # ----------------------------------------------------------------- (b) operators
    for fq in RETURN_FUNCS:
        fi = repo.func(fq)
        res.functions.add(fq)
        other = fi.params[1]
        n_checked = 0
        top = []
        for st0 in body_stmts(fi):
            cur = st0
            while isinstance(cur, ast.If):
                top.append(cur)
                cur = cur.orelse[0] if len(cur.orelse) == 1 else None
        last = body_stmts(fi)[-1]
        tail_builds = isinstance(last, ast.Return)
        for node in top:
            t = ntext(node.test)
            if not (t.startswith('isinstance(%s, ' % other) and
                    any(c in t for c in ('Affine', 'Vars', 'RoAffine'))):
                continue
            set_model_locals(fi.node)
            fl = _IdFlow()
            fl.defs = single_defs(fi.node)
            o = fl.walk(node.body, frozenset())
            exits = [(st, nd, 'return') for st, nd in o.returns]
            if o.normal is not None and tail_builds:
                exits.append((o.normal, node, 'fall-through to the common result construction'))
            for st, nd, kind in exits:
                if st is None:
                    continue
                v = nd.value if isinstance(nd, ast.Return) else None
                delegated = isinstance(v, ast.Call) and isinstance(v.func, ast.Attribute) and \
                    v.func.attr in ('__add__', '__mul__', '__matmul__', '__radd__')
                ok = guarded(st) or delegated
                n_checked += 1
                what = ntext(nd)[:60] if kind == 'return' else kind
                res.inst({'operator': fq, 'branch': t[:50], 'exit': what, 'guarded': ok,
                          'delegated': delegated}, ok)
                if not ok:
                    res.fail(Finding(RULE, fq, 'unguarded exit: ' + what[:50],
                                     '%s: in the branch `%s` the exit `%s` is reachable without having '
                                     'compared the operands\' models: expressions of two models would '
                                     'be mixed silently' % (fq, t[:50], what), repo.where(fi, nd), P17))
        if n_checked == 0:
            raise AnalysisError('%s: no model-bearing isinstance branch found' % fq)
    for fq in EXISTS_FUNCS:
        fi = repo.func(fq)
        res.functions.add(fq)
        found = 0
        set_model_locals(fi.node)
        for n in walk_no_nested(fi.node):
            if not isinstance(n, ast.If):
                continue
            from .common import expand_locals
            t = expand_locals(fi.node, n.test)
            body_raises = any(isinstance(s, ast.Raise) for s in n.body)
            else_raises = any(isinstance(s, ast.Raise) for s in n.orelse)
            # a mismatch of the two models pushes the test towards the raising side
            if body_raises and _identity_leaf(t, True):
                found += 1
            elif else_raises and _identity_leaf(t, False):
                found += 1
        ok = found > 0
        res.inst({'function': fq, 'raising_identity_tests': found}, ok)
        if not ok:
            res.fail(Finding(RULE, fq, 'no identity test',
                             '%s combines operands of possibly different models but contains no '
                             'raising model-identity comparison any more' % fq, repo.where(fi), P17))
    # ----------------------------------------------------------------- (c) setters
    for fq in SETTERS:
        fi = repo.func(fq)
        res.functions.add(fq)

        class _Set(MustFlow):
            def __init__(self):
                super().__init__()
                self.stores = []

            def visit(self, node, state):
                if isinstance(node, ast.Assign) and any(is_self_attr(t, 'obj') for t in node.targets):
                    from rsx.flow import holds, clauses_of
                    self.stores.append(holds(state, 'self.obj is None'))
                    # what is known about the number of entries where the objective is stored: some clause bounds
                    # a size (x.size > 1 is false), possibly next to the type tests of the other cases
                    import re as _re
                    sized = False
                    for c in clauses_of(state):
                        for atom, pol in c:
                            sz = r'(\S*\.size|np\.prod\(.*\)|len\(.*\))'
                            if (_re.fullmatch(sz + r' > 1', atom) or _re.fullmatch(r'1 < ' + sz, atom) or
                                    _re.fullmatch(sz + r' >= 2', atom) or _re.fullmatch(r'2 <= ' + sz, atom)) \
                                    and pol is False:
                                sized = True
                            if (_re.fullmatch(sz + r' (<= 1|== 1|< 2)', atom) or
                                    _re.fullmatch(r'(1 >=|1 ==|2 >) ' + sz, atom)) and pol is True:
                                sized = True
                    self.sized.append(sized)
        fl = _Set()
        fl.sized = []
        fl.run(body_stmts(fi))
        size_guard = any(isinstance(n, ast.If) and _rejects_multi(fi, n.test)
                         and any(isinstance(s, ast.Raise) for s in n.body) for n in walk_no_nested(fi.node)) or \
            (bool(fl.sized) and all(fl.sized))
        ok = bool(fl.stores) and all(fl.stores) and size_guard
        res.inst({'setter': fq, 'redefinition_guard': bool(fl.stores) and all(fl.stores),
                  'size_guard': size_guard}, ok)
        if not (fl.stores and all(fl.stores)):
            res.fail(Finding(RULE, fq, 'self.obj is not None -> raise',
                             '%s can assign self.obj without having passed the redefinition guard' % fq,
                             repo.where(fi), P17))
        if not size_guard:
            res.fail(Finding(RULE, fq, 'size > 1 -> raise',
                             '%s no longer rejects non-scalar objectives' % fq, repo.where(fi), P17))
    amb = repo.func('dro.Model.ambiguity')

    class _Amb(MustFlow):
        def __init__(self):
            super().__init__()
            self.ok = []

        def visit(self, node, state):
            for n in ast.walk(node):
                if isinstance(n, ast.Call) and ntext(n.func) == 'Ambiguity':
                    from rsx.flow import holds
                    self.ok.append(holds(state, 'self.all_constr', False) or
                                   holds(state, 'len(self.all_constr) > 0', False))
    fl = _Amb()
    fl.run(body_stmts(amb))
    ok = bool(fl.ok) and all(fl.ok)
    res.inst({'function': amb.fq, 'raises_when_constraints_exist': ok}, ok)
    if not ok:
        res.fail(Finding(RULE, amb.fq, 'all_constr -> raise',
                         'dro.Model.ambiguity() can create an ambiguity set after constraints exist',
                         repo.where(amb), P17))
    # ----------------------------------------------------------------- (c2) the reference model is fixed once
    # In a scan over several operands the first model-bearing operand supplies the reference (`model = item.model`
    # under `model is None`) and every later one is compared with it.  If the reference can be re-bound under any
    # other condition, the comparison of that operand is skipped and the earlier operands are never compared with
    # the new reference: objects of two models are combined silently.
    from rsx.flow import holds as _holds
    n_ref = 0
    for fi in repo.all_functions():
        if fi.module not in ('lp', 'math', 'subroutines', 'ro', 'dro'):
            continue
        refs = set()
        for n in walk_no_nested(fi.node):
            if isinstance(n, ast.Compare) and len(n.ops) == 1 and isinstance(n.ops[0], (ast.NotEq, ast.IsNot, ast.Eq, ast.Is)) \
                    and isinstance(n.left, ast.Name) and isinstance(n.comparators[0], ast.Attribute) and \
                    n.comparators[0].attr == 'model':
                refs.add(n.left.id)
            if isinstance(n, ast.Compare) and len(n.ops) == 1 and isinstance(n.ops[0], (ast.NotEq, ast.IsNot, ast.Eq, ast.Is)) \
                    and isinstance(n.comparators[0], ast.Name) and isinstance(n.left, ast.Attribute) and n.left.attr == 'model':
                refs.add(n.comparators[0].id)
        refs -= set(fi.params)
        if not refs:
            continue

        class _Ref(MustFlow):
            def __init__(self):
                super().__init__()
                self.sites = []

            def refine(self, test, branch, state):
                return state

            def visit(self, node, state):
                if isinstance(node, ast.Assign) and len(node.targets) == 1 and isinstance(node.targets[0], ast.Name) and \
                        node.targets[0].id in refs and isinstance(node.value, ast.Attribute) and node.value.attr == 'model' \
                        and self.depth > 0:
                    nm_ = node.targets[0].id
                    ok_ = _holds(state, nm_ + ' is None') or _holds(state, nm_, False) or \
                        _holds(state, nm_ + ' == None')              # `if not model:` / `== None`: unset as well
                    if not ok_:
                        # evidence of a *widened* guard: the state knows  (model is None) or <something else>
                        from rsx.flow import clauses_of as _cof
                        widened = any(len(c_) > 1 and any(a_ in (nm_ + ' is None',) and p_ for a_, p_ in c_)
                                      for c_ in _cof(state))
                        if not widened:
                            raise AnalysisError('%s: the reference `%s` is bound under a condition the rule cannot '
                                                'relate to `%s is None`' % (fi.fq, nm_, nm_))
                    self.sites.append((node, ok_))

            depth = 0

            def _loop(self, st_, state):
                self.depth += 1
                try:
                    return super()._loop(st_, state)
                finally:
                    self.depth -= 1
        fl = _Ref()
        fl.run(body_stmts(fi))
        seen_ = set()
        for node, ok in fl.sites:
            if id(node) in seen_ and ok:
                continue
            seen_.add(id(node))
            n_ref += 1
            res.functions.add(fi.fq)
            res.inst({'function': fi.fq, 'reference model bound': ntext(node), 'only_when_unset': ok}, ok)
            if not ok:
                res.fail(Finding(RULE, fi.fq, 'reference model re-bound: ' + ntext(node)[:40],
                                 '%s re-binds the reference `%s` inside the scan over the operands on a path where it '
                                 'is already set: the operand that re-binds it is not compared with the previous '
                                 'reference, so operands of different models pass the identity check'
                                 % (fi.fq, ntext(node)), repo.where(fi, node), P17))
    if n_ref < 1:
        raise AnalysisError('R20: no scan with a reference model (model = item.model under `model is None`) found')
    # ----------------------------------------------------------------- (d) shared state
    for ci in repo.all_classes():
        if ci.module in ('deco', 'cpt_solver_bkp'):
            continue
        def immutable(v):
            if isinstance(v, ast.Constant) or (isinstance(v, ast.UnaryOp) and isinstance(v.operand, ast.Constant)):
                return True
            if isinstance(v, ast.Tuple):            # a tuple of constants / class names is immutable
                return all(immutable(x) or isinstance(x, (ast.Name, ast.Attribute)) for x in v.elts)
            if isinstance(v, ast.Name):             # an alias of a method or of another immutable name
                return v.id in ci.methods or v.id in ci.class_attrs
            if isinstance(v, ast.Call) and isinstance(v.func, ast.Name) and v.func.id in ('frozenset', 'property',
                                                                                           'staticmethod', 'classmethod'):
                return True
            if isinstance(v, ast.BinOp):            # 'a' + 'b', 2 * 3
                return immutable(v.left) and immutable(v.right)
            if isinstance(v, ast.UnaryOp):          # -np.inf
                return immutable(v.operand)
            if isinstance(v, ast.Attribute):        # np.inf, np.int8, Other.method
                return True
            if isinstance(v, ast.Call) and isinstance(v.func, ast.Name) and v.func.id in (
                    'float', 'int', 'str', 'bool', 'complex', 'bytes', 'range', 'slice', 'tuple'):
                return True
            if isinstance(v, (ast.Compare, ast.IfExp, ast.BoolOp)):
                return all(immutable(x) for x in ast.iter_child_nodes(v) if isinstance(x, ast.expr))
            if isinstance(v, ast.JoinedStr):
                return True
            if isinstance(v, ast.Attribute) and isinstance(v.value, ast.Name):      # __mul__ = Other.__mul__
                return True
            return False

        def mutated(k):
            """is the object behind attribute `k` changed anywhere in the package (through any receiver)?"""
            for m_ in repo.modules.values():
                for n_ in ast.walk(m_.tree):
                    if isinstance(n_, ast.Attribute) and n_.attr == k:
                        if isinstance(n_.ctx, (ast.Store, ast.Del)) and not (isinstance(n_.value, ast.Name) and
                                                                              n_.value.id == 'self'):
                            return True                 # Cls.k = ..
                    if isinstance(n_, ast.Subscript) and isinstance(n_.ctx, (ast.Store, ast.Del)) and \
                            isinstance(n_.value, ast.Attribute) and n_.value.attr == k:
                        return True                     # x.k[i] = ..
                    if isinstance(n_, ast.AugAssign) and isinstance(n_.target, (ast.Attribute, ast.Subscript)):
                        t_ = n_.target.value if isinstance(n_.target, ast.Subscript) else n_.target
                        if isinstance(t_, ast.Attribute) and t_.attr == k:
                            return True
                    if isinstance(n_, ast.Call) and isinstance(n_.func, ast.Attribute) and \
                            isinstance(n_.func.value, ast.Attribute) and n_.func.value.attr == k and \
                            n_.func.attr in ('append', 'extend', 'insert', 'pop', 'remove', 'clear', 'sort', 'reverse',
                                             'update', 'add', 'discard', 'setdefault', 'popitem', 'resize', 'fill'):
                        return True
                    if isinstance(n_, ast.Call) and isinstance(n_.func, ast.Name) and n_.func.id in ('setattr', 'delattr') \
                            and len(n_.args) >= 2 and not (isinstance(n_.args[1], ast.Constant) and n_.args[1].value != k):
                        return True                     # a computed attribute name could be k
            return False
        # a class-level display that nothing in the package ever changes is a constant table, not shared state
        bad = [k for k, v in ci.class_attrs.items() if not immutable(v) and
               (mutated(k) or not (isinstance(v, (ast.List, ast.Dict, ast.Set, ast.Tuple, ast.ListComp, ast.DictComp,
                                                  ast.SetComp)) or
                                   (isinstance(v, ast.Call) and isinstance(v.func, ast.Name) and
                                    v.func.id in ('dict', 'list', 'set', 'tuple', 'OrderedDict', 'namedtuple'))))]
        res.inst({'class_body': ci.fq, 'attrs': sorted(ci.class_attrs), 'mutable': bad}, not bad)
        for k in bad:
            res.fail(Finding(RULE, ci.fq, 'class attribute ' + k,
                             'class %s holds a mutable class-level attribute `%s`: state shared by '
                             'every model in the process' % (ci.fq, k), 'rsome/%s.py' % ci.module, P17))
    for mname, mod in sorted(repo.modules.items()):
        if mname in ('deco', 'cpt_solver_bkp', 'this'):
            continue
        mut = [k for k, v in mod.globals_assigned.items()
               if isinstance(v, (ast.List, ast.Dict, ast.Set, ast.ListComp, ast.DictComp))]
        written = []
        for fi in list(mod.functions.values()) + [m for c in mod.classes.values() for m in c.methods.values()]:
            for n in walk_no_nested(fi.node):
                if isinstance(n, ast.Global):
                    written += n.names
            fa = access(repo, fi)
            for e in fa.effects:
                for o in e.origins:
                    if o[0].startswith('global:') and o[0][7:] in mod.globals_assigned:
                        written.append(o[0][7:])
        ok = not written
        res.inst({'module': mname, 'mutable_globals': mut, 'globals_written_by_functions': sorted(set(written))}, ok)
        for k in sorted(set(written)):
            res.fail(Finding(RULE, mname, 'module global ' + k,
                             'rsome/%s.py: module-level `%s` is written by a function: state shared '
                             'between models' % (mname, k), 'rsome/%s.py' % mname, P17))
    # mutable defaults never written
    for fi in repo.all_functions():
        if fi.module in ('deco', 'cpt_solver_bkp'):
            continue
        a = fi.node.args
        names = [p.arg for p in a.posonlyargs + a.args]
        muts = [names[len(names) - len(a.defaults) + i] for i, d in enumerate(a.defaults)
                if isinstance(d, (ast.Dict, ast.List, ast.Set))]
        if not muts:
            continue
        fa = access(repo, fi)
        bad = []
        for e in fa.effects:
            if e.fresh:
                continue
            for o in e.origins:
                if o[0].startswith('param:') and o[0][6:] in muts:
                    bad.append((e, o[0][6:]))
        ok = not bad
        res.inst({'function': fi.fq, 'mutable_defaults': muts, 'written': [b[1] for b in bad]}, ok)
        for e, nm in bad:
            res.fail(Finding(RULE, fi.fq, 'mutable default ' + nm,
                             '%s writes its parameter `%s`, whose default is a mutable literal shared '
                             'by every call' % (fi.fq, nm), repo.where(fi, e.node), P17))
    return res
