"""R09 support-capture protocol and set selection.

(a) Capture sites are discovered: every function that calls X.reset(), X.st(..) and
    X.do_math(..) on one receiver X.  On every path: X.reset() precedes every X.st(..); no
    X.st(..) follows the X.do_math(..) whose result is kept; when the result is stored as a
    support (attribute `support` / `obj_support`) the call is do_math(primal=False, obj=False);
    when the items passed to st() are the caller's (loop variable over an argument), a
    model-identity test that raises dominates the st().
(b) ro.Model.do_math lowers every RoConstr with le_to_rc() (own support) under a test of
    constr.support, or with le_to_rc(self.obj_support); le_to_rc raises when the support is
    None before reading it.
(c) dro ro_to_roc / dro_to_roc: the set handed to forall() derives only from constr.ambset or
    self.obj_ambiguity, indexed by the scenario loop variable, and both functions raise when
    neither is defined.
"""
import ast

from rsx.access import access
from rsx.flow import holds
from .common import (AnalysisError, Finding, RuleResult, MustFlow, ntext, walk_no_nested,
                     body_stmts, is_self_attr, call_name, expand_locals)

RULE = 'R09'
TEXT = ('uncertainty sets are captured as the dual of exactly the given constraints after a '
        'reset; each robust constraint is lowered with its own set or the default one; a missing '
        'set raises')


def _alias_map(fi):
    """local name -> expression text, for names assigned once from an attribute path."""
    binds = {}
    for n in walk_no_nested(fi.node):
        if isinstance(n, ast.Assign) and len(n.targets) == 1 and isinstance(n.targets[0], ast.Name):
            binds.setdefault(n.targets[0].id, []).append(n.value)
    return {k: ntext(v[0]) for k, v in binds.items()
            if len(v) == 1 and isinstance(v[0], (ast.Attribute, ast.Name))}


class _Capture(MustFlow):
    def __init__(self, fi, recv):
        super().__init__()
        self.fi = fi
        self.recv = recv
        self.alias = _alias_map(fi)
        self.problems = []
        self.loopvars = {}
        self.n_st = 0
        self.captures = []

    def _is_recv(self, expr):
        t = ntext(expr)
        return t == self.recv or self.alias.get(t) == self.recv or t == self.alias.get(self.recv)

    def bind_loop(self, target, iter_node, state):
        if isinstance(target, ast.Name):
            self.loopvars[target.id] = iter_node
        return state

    def _guarded(self, item, state):
        from rsx.flow import clauses_of
        for c in clauses_of(state):
            if len(c) != 1:
                continue
            a, pol = next(iter(c))
            if not pol:
                continue
            try:
                t = ast.parse(a, mode='eval').body
            except SyntaxError:
                continue
            if isinstance(t, ast.Compare) and len(t.ops) == 1 and isinstance(t.ops[0], (ast.Is, ast.Eq)):
                sides = [t.left, t.comparators[0]]
                txt = [ntext(x) for x in sides]
                if item + '.model' in txt and any(self._is_recv(x) for x in sides):
                    return True
        for f in state:
            if f[0] == 'cond' and f[1] is False:
                try:
                    t = ast.parse(f[2], mode='eval').body
                except SyntaxError:
                    continue
                if isinstance(t, ast.Compare) and len(t.ops) == 1 and \
                        isinstance(t.ops[0], (ast.IsNot, ast.NotEq)):
                    sides = [t.left, t.comparators[0]]
                    txt = [ntext(x) for x in sides]
                    if item + '.model' in txt and any(self._is_recv(x) for x in sides):
                        return True
        return False

    def visit(self, node, state):
        for n in ast.walk(node):
            if not (isinstance(n, ast.Call) and isinstance(n.func, ast.Attribute)
                    and self._is_recv(n.func.value)):
                continue
            m = n.func.attr
            if m == 'st':
                self.n_st += 1
                if 'reset' not in state:
                    self.problems.append(('st-before-reset', n,
                                          '%s.st(..) is reachable without a preceding %s.reset()'
                                          % (self.recv, self.recv)))
                if 'captured' in state:
                    self.problems.append(('st-after-capture', n,
                                          '%s.st(..) follows the do_math() whose result was kept'
                                          % self.recv))
                if n.args and isinstance(n.args[0], ast.Name) and n.args[0].id in self.loopvars:
                    if not self._guarded(n.args[0].id, state):
                        self.problems.append(('unguarded-item', n,
                                              'items given to %s.st() are not checked to belong to '
                                              'that model (no `item.model is not %s: raise` on the '
                                              'path)' % (self.recv, self.recv)))
            elif m == 'do_math':
                if 'reset' not in state:
                    self.problems.append(('capture-before-reset', n,
                                          '%s.do_math() is reachable without %s.reset()'
                                          % (self.recv, self.recv)))
                self.captures.append((n, node))

    def transfer(self, node, state):
        for n in ast.walk(node):
            if isinstance(n, ast.Call) and isinstance(n.func, ast.Attribute) and \
                    self._is_recv(n.func.value):
                if n.func.attr == 'reset':
                    state = (state | {'reset'}) - {'captured'}
                elif n.func.attr == 'do_math':
                    state = state | {'captured'}
        return state


def capture_receivers(fi, repo=None):
    calls = {}
    alias = _alias_map(fi)
    fresh = set()
    for n in walk_no_nested(fi.node):
        # a model constructed inside the function needs no reset
        if isinstance(n, ast.Assign) and isinstance(n.value, ast.Call) and isinstance(n.value.func, ast.Name) \
                and n.value.func.id[:1].isupper():
            for t in n.targets:
                fresh.add(ntext(t))
    for n in walk_no_nested(fi.node):
        if isinstance(n, ast.Call) and isinstance(n.func, ast.Attribute) and \
                n.func.attr in ('reset', 'st', 'do_math'):
            t = ntext(n.func.value)
            t = alias.get(t, t)
            calls.setdefault(t, set()).add(n.func.attr)
    return [r for r, ms in calls.items() if {'st', 'do_math'} <= ms and r not in fresh]


def _kw(call, name, pos=None):
    for k in call.keywords:
        if k.arg == name:
            return k.value
    if pos is not None and len(call.args) > pos:
        return call.args[pos]
    return None


def run(repo):
    res = RuleResult(RULE, 'support-capture protocol and set selection', TEXT)
    res.floor = 11
    # ---- (a)
    nsites = 0
    for fi in repo.all_functions():
        if fi.module in ('deco', 'cpt_solver_bkp') or fi.name == 'do_math':
            continue          # the re-fill protocol of the front ends' do_math is R02's
        for recv in capture_receivers(fi):
            nsites += 1
            res.functions.add(fi.fq)
            fl = _Capture(fi, recv)
            fl.run(body_stmts(fi))
            probs = list(fl.problems)
            # stored as a support => dual without objective
            for call, stmt in fl.captures:
                stored_as_support = isinstance(stmt, ast.Assign) and any(
                    isinstance(t, ast.Attribute) and t.attr in ('support', 'obj_support')
                    for t in stmt.targets)
                if stored_as_support:
                    prim, obj = _kw(call, 'primal', 0), _kw(call, 'obj', 2)
                    if not (isinstance(prim, ast.Constant) and prim.value is False):
                        probs.append(('capture-not-dual', call,
                                      'the support is taken from %s, not from do_math(primal=False, ..): '
                                      'le_to_rc needs the dual standard form' % ntext(call)))
                    if not (isinstance(obj, ast.Constant) and obj.value is False):
                        probs.append(('capture-with-objective', call,
                                      'the support is captured with obj=%s; the set has no objective'
                                      % (ntext(obj) if obj is not None else 'default True')))
            ok = not probs
            res.inst({'capture_site': fi.fq, 'model': recv, 'st_calls': fl.n_st,
                      'captures': [ntext(c)[:60] for c, _ in fl.captures], 'ok': ok}, ok)
            seen = set()
            for kind, node, msg in probs:
                if kind in seen:
                    continue
                seen.add(kind)
                res.fail(Finding(RULE, fi.fq, '%s:%s' % (kind, recv), '%s: %s' % (fi.fq, msg),
                                 repo.where(fi, node)))
    if nsites < 5:
        raise AnalysisError('only %d capture sites found (expected >= 5): extractor blind' % nsites)

    # ---- (b) ro.Model.do_math lowering + le_to_rc guard
    dm = repo.func('ro.Model.do_math')
    res.functions.add(dm.fq)
    calls = [n for n in walk_no_nested(dm.node)
             if isinstance(n, ast.Call) and isinstance(n.func, ast.Attribute) and n.func.attr == 'le_to_rc']
    if not calls:
        raise AnalysisError('ro.Model.do_math no longer calls le_to_rc')

    class _Lower(MustFlow):
        def __init__(self):
            super().__init__()
            self.bad = []
            self.defs = {}

        def visit(self, node, state):
            # remember where a local that may later be passed as the set is assigned, and what is known there
            if isinstance(node, ast.Assign) and len(node.targets) == 1 and isinstance(node.targets[0], ast.Name):
                self.defs.setdefault(node.targets[0].id, []).append((node.value, state))
            for n in ast.walk(node):
                if isinstance(n, ast.Call) and isinstance(n.func, ast.Attribute) and n.func.attr == 'le_to_rc':
                    recv = ntext(n.func.value)
                    own = {('cond', True, recv + '.support'), ('cond', False, 'not %s.support' % recv),
                           ('cond', True, '%s.support is not None' % recv),
                           ('cond', False, '%s.support is None' % recv)}
                    none = {('cond', False, recv + '.support'), ('cond', True, 'not %s.support' % recv),
                            ('cond', True, '%s.support is None' % recv),
                            ('cond', False, '%s.support is not None' % recv)}
                    if not n.args and not n.keywords:
                        cases = [(None, frozenset())]
                    else:
                        a = expand_locals(dm.node, n.args[0] if n.args else n.keywords[0].value)
                        if isinstance(a, ast.IfExp):
                            # le_to_rc(None if constr.support else self.obj_support): one case per arm
                            cases = [(a.body, frozenset({('cond', True, ntext(a.test))})),
                                     (a.orelse, frozenset({('cond', False, ntext(a.test))}))]
                        elif isinstance(a, ast.Name) and len(self.defs.get(a.id, [])) > 1:
                            # a local assigned per case (support = None / support = self.obj_support):
                            # one case per definition, with what was known where it was made
                            cases = [(v, frozenset(f for f in stt if isinstance(f, tuple) and f and f[0] in ('cond', 'cl')))
                                     for v, stt in self.defs[a.id]]
                        else:
                            cases = [(a, frozenset())]
                    # A or B as the set: A where A is truthy, else B
                    more = []
                    for val, extra in cases:
                        if isinstance(val, ast.BoolOp) and isinstance(val.op, ast.Or) and len(val.values) == 2:
                            more.append((val.values[0], extra | {('cond', True, ntext(val.values[0]))}))
                            more.append((val.values[1], extra | {('cond', False, ntext(val.values[0]))}))
                        else:
                            more.append((val, extra))
                    cases = more
                    here = self.local_state(node, n, state)       # the call may sit in an arm of a conditional expression
                    for val, extra in cases:
                        st = here | extra
                        for f in extra:
                            if f[0] == 'cond':
                                from rsx.flow import _add_clauses, clauses as _cls
                                st = _add_clauses(st, _cls(ast.parse(f[2], mode='eval').body, f[1]))
                        # passing the constraint's own set is the same as passing none
                        if val is not None and ntext(val) == recv + '.support':
                            val = None
                        if val is None or (isinstance(val, ast.Constant) and val.value is None):
                            if not (own & st or holds(st, recv + '.support') or holds(st, recv + '.support is not None')):
                                self.bad.append((n, 'le_to_rc() is called without a set on a path that '
                                                    'has not established %s.support' % recv))
                            continue
                        if ntext(val) != 'self.obj_support':
                            self.bad.append((n, 'le_to_rc(%s): the fallback set is not self.obj_support'
                                             % ntext(val)))
                        # le_to_rc prefers the set it is given over the constraint's own one, so the
                        # default set may only be passed once the constraint is known to have none
                        if not (none & st or holds(st, recv + '.support', False) or holds(st, recv + '.support is None')):
                            self.bad.append((n, 'le_to_rc(self.obj_support) is reachable for a constraint '
                                                'that has its own set (%s.support): the objective\'s default '
                                                'set would override the set given to forall()' % recv))
    lw = _Lower()
    lw.run(body_stmts(dm))
    ok = not lw.bad
    res.inst({'lowering': dm.fq, 'le_to_rc_calls': [ntext(c) for c in calls], 'ok': ok}, ok)
    for n, msg in lw.bad:
        res.fail(Finding(RULE, dm.fq, 'lowering:' + ntext(n), '%s: %s' % (dm.fq, msg), repo.where(dm, n)))

    lr = repo.func('lp.RoConstr.le_to_rc')
    res.functions.add(lr.fq)

    class _NoneGuard(MustFlow):
        def __init__(self):
            super().__init__()
            self.bad = []

        def visit(self, node, state):
            for n in ast.walk(node):
                if isinstance(n, ast.Attribute) and isinstance(n.value, ast.Name) and n.value.id == 'support' \
                        and isinstance(n.ctx, ast.Load):
                    if not holds(state, 'support is None', False):
                        self.bad.append(n)
    ng = _NoneGuard()
    ng.run(body_stmts(lr))
    ok = not ng.bad
    res.inst({'guard': 'le_to_rc raises when support is None', 'ok': ok}, ok)
    if not ok:
        res.fail(Finding(RULE, lr.fq, 'support is None -> raise',
                         'le_to_rc reads support.%s on a path that has not passed '
                         '`if support is None: raise`' % ng.bad[0].attr, repo.where(lr, ng.bad[0])))

    # ---- (c) dro set selection
    for fq in ('dro.Model.ro_to_roc', 'dro.Model.dro_to_roc'):
        fi = repo.func(fq)
        res.functions.add(fq)
        fa = access(repo, fi)
        foralls = [n for n in walk_no_nested(fi.node)
                   if isinstance(n, ast.Call) and isinstance(n.func, ast.Attribute)
                   and n.func.attr == 'forall' and n.args]
        if not foralls:
            raise AnalysisError('%s: no forall(..) call found' % fq)
        cparam = fi.params[1]
        for call in foralls:
            origins = fa.origins(call.args[0])
            bad = []
            for o in origins:
                if o[0] == 'param:' + cparam and 'ambset' in o:
                    continue
                if o[0] == 'self' and 'obj_ambiguity' in o:
                    continue
                bad.append(o)
            idx_ok = True
            # when the set comes from an Ambiguity object it must be indexed by the scenario loop var
            scen_loops = [n for n in walk_no_nested(fi.node) if isinstance(n, ast.For)
                          and isinstance(n.target, ast.Name) and 'num_scen' in ntext(n.iter)]
            if not scen_loops:
                raise AnalysisError('%s: scenario loop not found' % fq)
            svars = {l.target.id for l in scen_loops}
            subs = [n for n in ast.walk(call.args[0]) if isinstance(n, ast.Subscript)]
            binds = fa.bindings_of(call.args[0])
            for b in binds:
                subs += [n for n in ast.walk(b) if isinstance(n, ast.Subscript)]
            for sb in subs:
                if 'sup_constr' in ntext(sb.value) and not (isinstance(sb.slice, ast.Name) and sb.slice.id in svars):
                    idx_ok = False
            inside = any(any(call is x for x in ast.walk(l)) for l in scen_loops)
            ok = not bad and idx_ok and inside
            res.inst({'selection': fq, 'forall': ntext(call)[:60],
                      'origins': sorted('.'.join(o) for o in origins), 'ok': ok}, ok)
            if not ok:
                why = ('derives from %s' % '.'.join(bad[0]) if bad else
                       'is not indexed by the scenario loop variable' if not idx_ok else
                       'is outside the scenario loop')
                res.fail(Finding(RULE, fq, 'selection:' + ntext(call)[:60],
                                 '%s: the set given to forall() %s; it must come from the '
                                 'constraint\'s own ambset or from self.obj_ambiguity, per scenario'
                                 % (fq, why), repo.where(fi, call)))
        # raises when no set is defined
        raises = [n for n in walk_no_nested(fi.node) if isinstance(n, ast.Raise)]
        txt = ' '.join(ntext(r) for r in raises).lower()
        has = 'undefined' in txt
        guard_ok = False
        from rsx.flow import MustFlow as _MF

        class _AtRaise(_MF):
            def __init__(self):
                super().__init__()
                self.hits = []

            def refine(self, test, branch, state):
                return state

            def stmt(self, st, state):
                if isinstance(st, ast.Raise):
                    self.hits.append(state)
                return super().stmt(st, state)
        ar = _AtRaise()
        ar.run(body_stmts(fi))
        # some raise is reached exactly where the objective's set is known to be missing
        for st_ in ar.hits:
            if st_ is not None and (holds(st_, 'self.obj_ambiguity is None') or holds(st_, 'self.obj_ambiguity', False)):
                guard_ok = True
        res.inst({'selection': fq, 'raises_when_undefined': guard_ok}, guard_ok)
        if not guard_ok:
            res.fail(Finding(RULE, fq, 'undefined-set -> raise',
                             '%s no longer raises when neither the constraint nor the objective '
                             'defines an ambiguity set' % fq, repo.where(fi)))
    return res
