"""R10 typestate of adaptation declarations (C13).

Each illegal declaration is rejected by a guard that *dominates* the state write it protects
(must-path analysis, rsx.flow):
  DecRule.adapt          store into self.depend   <- `self.roaffine is not None -> raise` (rule already
                                                    expanded) and `self.depend[..].any() -> raise`
  DecVarSub.affadapt     store into self.rand_adapt <- `self.vtype in ['B','I'] -> raise`,
                                                    `self.rand_adapt[..].any() -> raise`, and the
                                                    formulated-model guard (var_ev_list is not None)
  DecVar.evtadapt        event_adapt.append       <- every scenario is removed from the default event
                                                    or KeyError is raised (re-declaration), and the
                                                    formulated-model guard
  dro ro_to_roc          use of drule.affine for a random coefficient <- raise when the affinely
                                                    adaptive rule has a random-dependent part there
  DecVarSub.affadapt     the parent's mask is updated: self.dvars.rand_adapt = self.rand_adapt on every
                         normal exit (the slice view shares the parent's dependency mask).
"""
import ast

from rsx.flow import holds, clauses, clauses_of, _add_clauses
from .common import (AnalysisError, Finding, RuleResult, MustFlow, ntext, walk_no_nested,
                     body_stmts, is_self_attr, single_defs, expand_locals)

RULE = 'R10'
TEXT = ('re-declared dependencies, integer adaptation, re-declared scenarios, adaptation after '
        'expansion and adaptive-decision x random-coefficient products raise before any state is '
        'written; a slice\'s adaptation updates its parent\'s mask')
P = {'props': ['C13']}


class _Guards(MustFlow):
    """sinks are visited with the condition clauses (rsx.flow) of the tests passed so far; tests are
    also read with their single-definition locals expanded (a hoisted sub-expression is the same test)"""

    def __init__(self, fn, sink_pred):
        super().__init__()
        self.fn = fn
        self.defs = single_defs(fn)
        self.sink_pred = sink_pred
        self.sinks = []

    def refine(self, test, branch, state):
        state = super().refine(test, branch, state)
        ex = expand_locals(self.fn, test, defs=self.defs)
        if ntext(ex) != ntext(test):
            state = _add_clauses(state, clauses(ex, branch))
        return state

    def visit(self, node, state):
        if self.sink_pred(node):
            self.sinks.append((node, state))


def has_guard(state, pred):
    """some known clause satisfies pred(clause); clause = frozenset of (atom text, polarity)"""
    if getattr(pred, 'on_state', False):
        return pred(state)
    return any(pred(c) for c in clauses_of(state))


def on_state(fn):
    """guard given as a predicate on the whole state (several facts together)"""
    fn.on_state = True
    return fn


def unit(pred_lit):
    """guard given as a predicate on a single literal (atom, polarity)"""
    def p(c):
        return len(c) == 1 and pred_lit(*next(iter(c)))
    return p


def none_guard(attr):
    # the surviving side knows  <x>.attr is None
    return unit(lambda a, pol: a.endswith('.%s is None' % attr) and pol is True)


def any_guard(field):
    # the surviving side knows  not <field..>.any()
    return unit(lambda a, pol: field in a and a.endswith('.any()') and pol is False)


def check(repo, res, fq, sink_desc, sink_pred, guards):
    fi = repo.func(fq)
    res.functions.add(fq)
    fl = _Guards(fi.node, sink_pred)
    fl.run(body_stmts(fi))
    if not fl.sinks:
        raise AnalysisError('%s: %s not found (anchor vanished)' % (fq, sink_desc))
    for name, pred in guards:
        ok = all(has_guard(st, pred) for _n, st in fl.sinks)
        res.inst({'function': fq, 'write': sink_desc, 'guard': name, 'dominates': ok}, ok)
        if not ok:
            res.fail(Finding(RULE, fq, 'guard: ' + name,
                             '%s reaches %s on a path that has not passed the guard "%s -> raise": the '
                             'illegal declaration is accepted and silently changes the dependency '
                             'structure' % (fq, sink_desc, name), repo.where(fi), P))


def run(repo):
    res = RuleResult(RULE, 'typestate of adaptation declarations', TEXT)
    res.floor = 11

    def store_into(field):
        def p(node):
            return isinstance(node, ast.Assign) and any(
                isinstance(t, ast.Subscript) and ntext(t.value) == 'self.' + field for t in node.targets)
        return p

    check(repo, res, 'lp.DecRule.adapt', 'the store into self.depend', store_into('depend'),
          [('rule already expanded (self.roaffine is not None)', none_guard('roaffine')),
           ('dependency already declared (self.depend[..].any())', any_guard('self.depend['))])
    check(repo, res, 'lp.DecVarSub.affadapt', 'the store into self.rand_adapt', store_into('rand_adapt'),
          [('integer decision (self.vtype in [B, I])',
            on_state(lambda st: holds(st, "self.vtype == 'B'", False) and holds(st, "self.vtype == 'I'", False))),
           ('dependency already declared (self.rand_adapt[..].any())', any_guard('self.rand_adapt[')),
           ('model already formulated (var_ev_list is not None)', none_guard('var_ev_list'))])

    def ev_append(node):
        return any(isinstance(n, ast.Call) and ntext(n.func) == 'self.event_adapt.append' for n in ast.walk(node))
    check(repo, res, 'lp.DecVar.evtadapt', 'self.event_adapt.append(..)', ev_append,
          [('model already formulated (var_ev_list is not None)', none_guard('var_ev_list'))])
    # scenario re-declaration: inside the loop over events: remove-or-raise
    ev = repo.func('lp.DecVar.evtadapt')
    # every pass through the loop over the declared scenarios either removes the scenario from the
    # default event -- after a membership test has succeeded -- or raises
    ev_defs = single_defs(ev.node)

    class _Rem(_Guards):
        def __init__(self):
            super().__init__(ev.node, lambda n: False)

        def transfer(self, node, state):
            node = expand_locals(ev.node, node, defs=ev_defs)
            if any(isinstance(x, ast.Call) and ntext(x.func) == 'self.event_adapt[0].remove' for x in ast.walk(node)):
                tested = any(len(c) == 1 and next(iter(c))[1] is True and
                             next(iter(c))[0].endswith(' in self.event_adapt[0]') for c in clauses_of(state))
                if tested:
                    return state | {'removed'}
            return state
    loops = [n for n in walk_no_nested(ev.node) if isinstance(n, ast.For) and
             any('self.event_adapt[0]' in ntext(expand_locals(ev.node, s, defs=ev_defs)) for s in n.body)]
    ok = bool(loops)
    for lp_ in loops:
        o = _Rem().run(lp_.body)
        exits = [o.normal] + [st_ for st_, _n in o.continues]
        if any(e is not None and 'removed' not in e for e in exits) or o.breaks or o.returns:
            ok = False
    res.inst({'function': ev.fq, 'guard': 'scenario re-declared or unknown -> KeyError', 'ok': ok}, ok)
    if not ok:
        res.fail(Finding(RULE, ev.fq, 'guard: scenario re-declaration',
                         'evtadapt must remove each scenario from the default event or raise when it is no '
                         'longer there (re-declaration)', repo.where(ev), P))
    # ro_to_roc: adaptive decision x random coefficient
    rr = repo.func('dro.Model.ro_to_roc')
    res.functions.add(rr.fq)

    def uses_affine_part(node):
        return isinstance(node, ast.Assign) and isinstance(node.value, ast.BinOp) and \
            isinstance(node.value.op, ast.MatMult) and ntext(node.value.right).endswith('.affine') and \
            'raf' in ntext(node.value.left)

    def excluded(c):
        # either there is no random coefficient row, or the rule has no random part there: a clause of
        # negative literals, one of which is about the rule's .raffine[..]
        return all(pol is False for _a, pol in c) and any('.raffine[' in a for a, _p in c)
    check(repo, res, 'dro.Model.ro_to_roc', 'raf_linear @ drule.affine (random coefficient times the rule)',
          uses_affine_part,
          [('the rule depends on randomness there (drule.raffine[row_ind] non-zero), or there is no '
            'random coefficient row', excluded)])
    # parent mask update
    fa = repo.func('lp.DecVarSub.affadapt')

    class _Exit(MustFlow):
        def refine(self, test, branch, state):
            return state

        def transfer(self, node, state):
            if isinstance(node, ast.Assign) and any(ntext(t) == 'self.dvars.rand_adapt' for t in node.targets) \
                    and ntext(node.value) == 'self.rand_adapt':
                return state | {'parent-updated'}
            return state
    o = _Exit().run(body_stmts(fa))
    exits = [s for s, _ in o.returns] + ([o.normal] if o.normal is not None else [])
    ok = bool(exits) and all('parent-updated' in s for s in exits if s is not None)
    res.inst({'function': fa.fq, 'parent_mask_updated_on_every_exit': ok}, ok)
    if not ok:
        res.fail(Finding(RULE, fa.fq, 'self.dvars.rand_adapt = self.rand_adapt',
                         'a slice\'s affadapt must write the dependency mask back to the parent variable on '
                         'every normal exit; otherwise the first adaptation declared through a slice is lost',
                         repo.where(fa), P))
    # (e) a slice shares the declaration state of its parent by reference.  DecVarSub.affadapt validates and writes
    #     self.rand_adapt and hands it back to the parent; the parent's mask is what rule_var reads.  Two slices of
    #     one decision therefore have to hold the *same* mask object as the parent (and the same event list), or a
    #     declaration made through one slice is invisible to -- and later overwritten by -- the other.
    from rsx.access import access as _access
    init = repo.func('lp.DecVarSub.__init__')
    res.functions.add(init.fq)
    fa = _access(repo, init)
    parent = init.params[2] if len(init.params) > 2 else None
    for field in ('rand_adapt', 'event_adapt'):
        stores = [n for n in walk_no_nested(init.node) if isinstance(n, ast.Assign) and
                  any(ntext(t) == 'self.' + field for t in n.targets)]
        # (a store of the constant None -- the arm of `x if x is not None else None` -- shares nothing and is not judged)
        stores = [n for n in stores if not (isinstance(n.value, ast.Constant) and n.value.value is None)]
        if not stores or parent is None:
            raise AnalysisError('lp.DecVarSub.__init__: the assignment of self.%s was not found' % field)
        org = set()
        for st_ in stores:
            org |= fa.origins(st_.value)
        shared = org == {('param:' + parent, field)}
        if not shared and not any(o[0] == 'fresh' for o in org):
            # only a value that is certainly a new object (a copy, an array built here) is evidence of un-sharing
            raise AnalysisError('lp.DecVarSub.__init__: origin of self.%s (%s) not interpreted' % (field, sorted(org)))
        res.inst({'slice shares with parent': field, 'origins': sorted('.'.join(map(str, o)) for o in org),
                  'ok': shared}, shared)
        if not shared:
            res.fail(Finding(RULE, init.fq, 'slice state self.%s is the parent\'s object' % field,
                             'lp.DecVarSub.__init__ binds self.%s to `%s`, which is not (only) the parent\'s own '
                             'object %s.%s: declarations made through one slice are not seen by another slice of '
                             'the same decision and are lost when that one writes its stale copy back'
                             % (field, ntext(stores[0].value)[:50], parent, field), repo.where(init, stores[0]), P))
    return res
