"""R10 typestate of adaptation declarations (C13).

Each illegal declaration is rejected by a guard that *dominates* the state write it protects
(must-path analysis, rsx.flow):
  DecRule.adapt          store into self.depend   <- `self.roaffine is not None -> raise` (rule already
                                                    expanded) and `self.depend[..].any() -> raise`
  DecVarSub.affadapt     store into self.rand_adapt <- `self.vtype in ['B','I'] -> raise`,
                                                    `self.rand_adapt[..].any() -> raise`, and the
                                                    formulated-model guard (var_ev_list is not None)
  DecVar.evtadapt        event_adapt.append       <- every scenario is removed from the default event
                                                    or KeyError is raised (re-declaration), and the
                                                    formulated-model guard
  dro ro_to_roc          use of drule.affine for a random coefficient <- raise when the affinely
                                                    adaptive rule has a random-dependent part there
  DecVarSub.affadapt     the parent's mask is updated: self.dvars.rand_adapt = self.rand_adapt on every
                         normal exit (the slice view shares the parent's dependency mask).
"""
import ast

from .common import (AnalysisError, Finding, RuleResult, MustFlow, ntext, walk_no_nested,
                     body_stmts, is_self_attr)

RULE = 'R10'
TEXT = ('re-declared dependencies, integer adaptation, re-declared scenarios, adaptation after '
        'expansion and adaptive-decision x random-coefficient products raise before any state is '
        'written; a slice\'s adaptation updates its parent\'s mask')
P = {'props': ['C13']}


class _Guards(MustFlow):
    def __init__(self, sink_pred, synth=()):
        super().__init__()
        self.sink_pred = sink_pred
        self.sinks = []
        self.synth = synth        # [(pred(text, branch), alias)]: either condition establishes `alias`

    def refine(self, test, branch, state):
        state = super().refine(test, branch, state)
        for pred, alias in self.synth:
            if pred(ntext(test), branch):
                state = state | {('cond', False, alias)}
        return state

    def visit(self, node, state):
        if self.sink_pred(node):
            self.sinks.append((node, state))


def has_guard(state, pred):
    """some cond fact (test text, branch) on the surviving side satisfies pred(text, branch)"""
    for f in state:
        if isinstance(f, tuple) and f[0] == 'cond' and pred(f[2], f[1]):
            return True
    return False


def none_guard(attr):
    def p(text, branch):
        return (text.endswith('.%s is not None' % attr) and branch is False) or \
               (text.endswith('.%s is None' % attr) and branch is True)
    return p


def any_guard(field):
    def p(text, branch):
        return field in text and text.endswith('.any()') and branch is False
    return p


def check(repo, res, fq, sink_desc, sink_pred, guards, synth=()):
    fi = repo.func(fq)
    res.functions.add(fq)
    fl = _Guards(sink_pred, synth)
    fl.run(body_stmts(fi))
    if not fl.sinks:
        raise AnalysisError('%s: %s not found (anchor vanished)' % (fq, sink_desc))
    for name, pred in guards:
        ok = all(has_guard(st, pred) for _n, st in fl.sinks)
        res.inst({'function': fq, 'write': sink_desc, 'guard': name, 'dominates': ok}, ok)
        if not ok:
            res.fail(Finding(RULE, fq, 'guard: ' + name,
                             '%s reaches %s on a path that has not passed the guard "%s -> raise": the '
                             'illegal declaration is accepted and silently changes the dependency '
                             'structure' % (fq, sink_desc, name), repo.where(fi), P))


def run(repo):
    res = RuleResult(RULE, 'typestate of adaptation declarations', TEXT)
    res.floor = 9

    def store_into(field):
        def p(node):
            return isinstance(node, ast.Assign) and any(
                isinstance(t, ast.Subscript) and ntext(t.value) == 'self.' + field for t in node.targets)
        return p

    check(repo, res, 'lp.DecRule.adapt', 'the store into self.depend', store_into('depend'),
          [('rule already expanded (self.roaffine is not None)', none_guard('roaffine')),
           ('dependency already declared (self.depend[..].any())', any_guard('self.depend['))])
    check(repo, res, 'lp.DecVarSub.affadapt', 'the store into self.rand_adapt', store_into('rand_adapt'),
          [('integer decision (self.vtype in [B, I])',
            lambda t, b: 'self.vtype' in t and "'B'" in t and "'I'" in t and b is False),
           ('dependency already declared (self.rand_adapt[..].any())', any_guard('self.rand_adapt[')),
           ('model already formulated (var_ev_list is not None)', none_guard('var_ev_list'))])

    def ev_append(node):
        return any(isinstance(n, ast.Call) and ntext(n.func) == 'self.event_adapt.append' for n in ast.walk(node))
    check(repo, res, 'lp.DecVar.evtadapt', 'self.event_adapt.append(..)', ev_append,
          [('model already formulated (var_ev_list is not None)', none_guard('var_ev_list'))])
    # scenario re-declaration: inside the loop over events: remove-or-raise
    ev = repo.func('lp.DecVar.evtadapt')
    # every pass through the loop over the declared scenarios either removes the scenario from the
    # default event -- after a membership test has succeeded -- or raises
    class _Rem(MustFlow):
        def transfer(self, node, state):
            if any(isinstance(x, ast.Call) and ntext(x.func) == 'self.event_adapt[0].remove' for x in ast.walk(node)):
                tested = any(isinstance(f, tuple) and f[0] == 'cond' and 'self.event_adapt[0]' in f[2] and
                             ((f[1] is True and ' in ' in f[2] and ' not in ' not in f[2]) or
                              (f[1] is False and ' not in ' in f[2])) for f in state)
                if tested:
                    return state | {'removed'}
            return state
    loops = [n for n in walk_no_nested(ev.node) if isinstance(n, ast.For) and
             any('self.event_adapt[0]' in ntext(s) for s in n.body)]
    ok = bool(loops)
    for lp_ in loops:
        o = _Rem().run(lp_.body)
        exits = [o.normal] + [st_ for st_, _n in o.continues]
        if any(e is not None and 'removed' not in e for e in exits) or o.breaks or o.returns:
            ok = False
    res.inst({'function': ev.fq, 'guard': 'scenario re-declared or unknown -> KeyError', 'ok': ok}, ok)
    if not ok:
        res.fail(Finding(RULE, ev.fq, 'guard: scenario re-declaration',
                         'evtadapt must remove each scenario from the default event or raise when it is no '
                         'longer there (re-declaration)', repo.where(ev), P))
    # ro_to_roc: adaptive decision x random coefficient
    rr = repo.func('dro.Model.ro_to_roc')
    res.functions.add(rr.fq)

    def uses_affine_part(node):
        return isinstance(node, ast.Assign) and 'raf_linear @ drule.affine' in ntext(node.value)
    check(repo, res, 'dro.Model.ro_to_roc', 'raf_linear @ drule.affine (random coefficient times the rule)',
          uses_affine_part,
          [('the rule depends on randomness there (drule.raffine[row_ind] non-zero), or there is no '
            'random coefficient row', lambda t, b: t == '<adaptive-times-random excluded>' and b is False)],
          synth=[(lambda t, b: 'drule.raffine[row_ind]' in t and b is False, '<adaptive-times-random excluded>'),
                 (lambda t, b: t == 'len(row_ind) > 0' and b is False, '<adaptive-times-random excluded>')])
    # parent mask update
    fa = repo.func('lp.DecVarSub.affadapt')

    class _Exit(MustFlow):
        def refine(self, test, branch, state):
            return state

        def transfer(self, node, state):
            if isinstance(node, ast.Assign) and any(ntext(t) == 'self.dvars.rand_adapt' for t in node.targets) \
                    and ntext(node.value) == 'self.rand_adapt':
                return state | {'parent-updated'}
            return state
    o = _Exit().run(body_stmts(fa))
    exits = [s for s, _ in o.returns] + ([o.normal] if o.normal is not None else [])
    ok = bool(exits) and all('parent-updated' in s for s in exits if s is not None)
    res.inst({'function': fa.fq, 'parent_mask_updated_on_every_exit': ok}, ok)
    if not ok:
        res.fail(Finding(RULE, fa.fq, 'self.dvars.rand_adapt = self.rand_adapt',
                         'a slice\'s affadapt must write the dependency mask back to the parent variable on '
                         'every normal exit; otherwise the first adaptation declared through a slice is lost',
                         repo.where(fa), P))
    return res
