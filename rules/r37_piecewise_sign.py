"""R37 piecewise functions: a term added to the function carries the sign of the stored form (C10, C01).

PiecewiseConvex stores  sign * max_i(piece_i)  (a concave minof / -maxof has its pieces negated and sign -1).
`f + t` must therefore add  t * self.sign  to every piece, for every class of operand t.  The interpreted cases
of R11 cover numbers and affine operands; the other operand classes take other branches of PiecewiseConvex.__add__,
so this rule checks the factor on every definition of the added term that reaches the sum over the pieces
(reaching definitions, rsx/webs.py).  The analysis lives next to R11 (rules/r11_curvature._piecewise_add_sign).
"""
from .common import RuleResult
from .r11_curvature import _piecewise_add_sign

RULE = 'R37'
TEXT = ('in PiecewiseConvex.__add__ every definition of the term added to the pieces is multiplied by self.sign')


def run(repo):
    res = RuleResult(RULE, 'piecewise functions: sign of an added term', TEXT)
    res.floor = 1
    _piecewise_add_sign(repo, res)
    return res
