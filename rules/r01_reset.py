"""R01 reset-completeness.

T: for every model class K that defines reset(), every list attribute that some st() in K's
MRO can grow is re-bound to an empty list (or cleared) on every path of K.reset().
Also: ro.Model.reset clears every container ro.Model.st grows and resets rc_model.

Slots are filled from the code: containers from the st() methods along the MRO, reset bodies
from the classes themselves; helper methods called as self.m() are inlined.
"""
import ast

from .common import (AnalysisError, Finding, RuleResult, MustFlow, is_self_attr, ntext,
                     self_list_growth, is_empty_container, call_name, body_stmts)

RULE = 'R01'
TEXT = ('every list grown by st() along the MRO of a model class is emptied on every path of '
        'that class\'s reset(); ro.Model.reset also resets rc_model')

POSITIVE = '''
class M:
    def st(self, c):
        self.a.append(c)
        self.b.append(c)
    def reset(self):
        self.a = []
        if self.flag:
            self.b = []
'''


class _ClearFlow(MustFlow):
    """fact ('cleared', X): self.X is empty on every path; ('called', 'self.f.m') for calls."""

    def __init__(self, repo, cls, depth=0):
        super().__init__()
        self.repo = repo
        self.cls = cls
        self.depth = depth

    def refine(self, test, branch, state):
        return state

    def transfer(self, node, state):
        if isinstance(node, ast.Assign):
            for t in node.targets:
                if is_self_attr(t):
                    if is_empty_container(node.value):
                        state = state | {('cleared', t.attr)}
                    else:
                        state = state - {('cleared', t.attr)}
                elif isinstance(t, ast.Subscript) and is_self_attr(t.value) and \
                        isinstance(t.slice, ast.Slice) and t.slice.lower is None and \
                        t.slice.upper is None and is_empty_container(node.value):
                    state = state | {('cleared', t.value.attr)}
            return state
        if isinstance(node, ast.Delete):
            for t in node.targets:
                if isinstance(t, ast.Subscript) and is_self_attr(t.value) and \
                        isinstance(t.slice, ast.Slice) and t.slice.lower is None and t.slice.upper is None:
                    state = state | {('cleared', t.value.attr)}
            return state
        for n in ast.walk(node):
            if not isinstance(n, ast.Call):
                continue
            cn = call_name(n)
            f = n.func
            if isinstance(f, ast.Attribute) and f.attr == 'clear' and is_self_attr(f.value):
                state = state | {('cleared', f.value.attr)}
            elif isinstance(f, ast.Attribute) and f.attr in ('append', 'extend', 'insert') \
                    and is_self_attr(f.value):
                state = state - {('cleared', f.value.attr)}
            elif isinstance(f, ast.Attribute) and isinstance(f.value, ast.Name) and f.value.id == 'self':
                callee = self.repo.resolve_method(self.cls, f.attr) if self.repo else None
                if callee is not None and self.depth < 3:
                    state = state | _all_path_facts(self.repo, self.cls, callee, self.depth + 1)
                state = state | {('called', cn)}
            elif cn.startswith('super().') and self.repo is not None and self._owner is not None:
                callee = self.repo.resolve_method(self.cls, f.attr, after=self._owner)
                if callee is not None and self.depth < 3:
                    sub = _ClearFlow(self.repo, self.cls, self.depth + 1)
                    sub._owner = callee.cls
                    state = state | _facts_of(sub, callee)
                state = state | {('called', cn)}
            else:
                state = state | {('called', cn)}
        return state

    _owner = None


def _facts_of(flow, fi):
    o = flow.run(body_stmts(fi))
    exits = [o.normal] + [s for s, _ in o.returns]
    exits = [e for e in exits if e is not None]
    if not exits:
        return frozenset()
    out = exits[0]
    for e in exits[1:]:
        out = out & e
    return out


def _all_path_facts(repo, cls, fi, depth=0):
    flow = _ClearFlow(repo, cls, depth)
    flow._owner = fi.cls
    return _facts_of(flow, fi)


def _check_class(repo, res, cls, containers, extra_calls=()):
    reset = cls.methods.get('reset')
    if reset is None:
        raise AnalysisError('%s.reset vanished' % cls.fq)
    res.functions.add(reset.fq)
    facts = _all_path_facts(repo, cls, reset)
    for name, owner in sorted(containers.items()):
        ok = ('cleared', name) in facts
        res.inst({'reset': reset.fq, 'container': name, 'grown_by': owner, 'ok': ok}, ok)
        if not ok:
            res.fail(Finding(RULE, reset.fq, 'self.%s' % name,
                             '%s() does not empty self.%s on every path, but %s grows it; a '
                             'constraint routed there survives reset() and leaks into the next '
                             'set defined on the shared model' % (reset.fq, name, owner),
                             repo.where(reset)))
    for call in extra_calls:
        ok = ('called', call) in facts
        res.inst({'reset': reset.fq, 'must_call': call, 'ok': ok}, ok)
        if not ok:
            res.fail(Finding(RULE, reset.fq, call + '()',
                             '%s() does not call %s() on every path' % (reset.fq, call),
                             repo.where(reset)))


def run(repo):
    res = RuleResult(RULE, 'reset-completeness', TEXT)
    res.floor = 16
    for fq in ('socp.Model', 'gcp.Model'):
        cls = repo.cls(fq)
        containers = {}
        for c in repo.mro(cls):
            st = c.methods.get('st')
            if st is None:
                continue
            res.functions.add(st.fq)
            for name in self_list_growth(st):
                containers.setdefault(name, st.fq)
        if len(containers) < 3:
            raise AnalysisError('could not extract the containers grown by st() for %s' % fq)
        _check_class(repo, res, cls, containers)
    ro = repo.cls('ro.Model')
    st = ro.methods.get('st')
    if st is None:
        raise AnalysisError('ro.Model.st vanished')
    res.functions.add(st.fq)
    containers = {n: st.fq for n in self_list_growth(st)}
    if not containers:
        raise AnalysisError('ro.Model.st grows no container: extractor blind')
    _check_class(repo, res, ro, containers, extra_calls=('self.rc_model.reset',))
    _positive()
    res.check_floor()
    return res


def _positive():
    """Built-in positive example: the rule must fire on a reset that clears conditionally."""
    tree = ast.parse(POSITIVE)
    cls = tree.body[0]
    reset = [n for n in cls.body if n.name == 'reset'][0]
    flow = _ClearFlow(None, None)
    o = flow.run(reset.body)
    facts = o.normal
    if ('cleared', 'a') not in facts or ('cleared', 'b') in facts:
        raise AnalysisError('R01 self-test: positive example not detected')
