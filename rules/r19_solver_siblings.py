"""R19 solver-interface sibling table (all nine interfaces, importable here or not).

(a) every interface reads all of obj, linear, const, sense, lb, ub, vtype of the formula it is
    given (cone lists are R07's, in-place edits R04's);
(b) user bounds survive on integer/binary columns: a store into (a copy of) the bound vectors
    under a mask must compute the new value from the old one (max(0, lb), min(1, ub)); a store
    of a constant discards the user's bound;
(c) failure honesty: every Solution(..) construction is either the failure shape
    (objval = nan, x = None) or sits under a status test of the interface (an `if` whose test
    mentions the solver's status / exit flag, or a `try` whose every handler builds the failure
    shape); every path of solve() returns a Solution; no path falls off the end;
(d) ECOS: the blocks of G and of h are stacked in the same order of index sets, cone blocks have
    zero right-hand side, dims['l'] is the sum of the three linear block lengths, and the dual
    read-back offsets are the stacking offsets;
(e) bound rows: a row  c * x <= k * bound  has sign(c) = sign(k), and c > 0 iff it encodes an
    upper bound (ECOS, COPT cone form).
"""
import ast

from rsx.ctor import bind_args
from .common import (AnalysisError, Finding, RuleResult, MustFlow, ntext, walk_no_nested,
                     body_stmts, call_name)
from .r04_formula_readonly import parents, enclosing_if_tests

RULE = 'R19'
TEXT = ('all solver interfaces read the whole formula, keep user bounds on binaries, report '
        'failure as (nan, None) and success only under a status test, and stack ECOS blocks '
        'consistently')
NEED = {'obj', 'linear', 'const', 'sense', 'lb', 'ub', 'vtype'}
PROPS = {'props': ['C11']}


def interfaces(repo):
    out = []
    for m in sorted(repo.modules):
        if m.endswith('_solver') and m != 'lpg_solver':
            mod = repo.module(m)
            if 'solve' not in mod.functions:
                raise AnalysisError('rsome/%s.py has no solve()' % m)
            out.append(mod.functions['solve'])
    out.append(repo.func('lp.def_sol'))
    if len(out) < 8:
        raise AnalysisError('only %d solver interfaces found' % len(out))
    return out


def formula_param(fi):
    return fi.params[0]


def is_nan(e):
    return ntext(e) in ('np.nan', 'numpy.nan', "float('nan')", 'math.nan')


def solution_calls(repo, fi):
    out = []
    sol_init = repo.func('lp.Solution.__init__')
    for n in walk_no_nested(fi.node):
        if isinstance(n, ast.Call) and isinstance(n.func, ast.Name) and n.func.id == 'Solution':
            env = bind_args(sol_init, n)
            if env is None:
                raise AnalysisError('%s: cannot bind Solution(...) arguments' % fi.fq)
            out.append((n, env))
    return out


def _under_status(par, node, fi):
    """success-shape Solution must sit in the body of an if on a status, or in a try whose
    handlers all build the failure shape."""
    cur = node
    while id(cur) in par:
        p = par[id(cur)]
        if isinstance(p, ast.If) and any(cur is s for s in p.body):
            t = ntext(p.test).lower()
            if 'status' in t or 'exitflag' in t:
                return 'if ' + ntext(p.test)[:50]
        if isinstance(p, ast.Try) and any(cur is s for s in p.body) and p.handlers:
            good = True
            for h in p.handlers:
                fails = [c for c in ast.walk(ast.Module(body=h.body, type_ignores=[]))
                         if isinstance(c, ast.Call) and isinstance(c.func, ast.Name) and c.func.id == 'Solution']
                if not fails or not all(len(c.args) >= 3 and is_nan(c.args[1]) and
                                        isinstance(c.args[2], ast.Constant) and c.args[2].value is None
                                        for c in fails):
                    good = False
            if good:
                return 'try/except -> failure shape'
        cur = p
    return None


class _Returns(MustFlow):
    def refine(self, test, branch, state):
        return state


from .common import expand_locals as _xl_b


def run(repo):
    res = RuleResult(RULE, 'solver-interface sibling table', TEXT)
    res.floor = 40
    for fi in interfaces(repo):
        res.functions.add(fi.fq)
        root = formula_param(fi)
        # (a)
        reads = {n.attr for n in walk_no_nested(fi.node)
                 if isinstance(n, ast.Attribute) and isinstance(n.value, ast.Name) and n.value.id == root}
        missing = sorted(NEED - reads)
        res.inst({'interface': fi.fq, 'reads': sorted(reads & (NEED | {'qmat', 'xmat', 'lmi'})),
                  'missing': missing}, not missing)
        for f in missing:
            res.fail(Finding(RULE, fi.fq, 'never reads %s.%s' % (root, f),
                             '%s never reads %s.%s: that part of the compiled program cannot reach '
                             'the solver' % (fi.fq, root, f), repo.where(fi), PROPS))
        # (b)
        bound_names = {}
        for n in walk_no_nested(fi.node):
            if isinstance(n, ast.Assign) and len(n.targets) == 1 and isinstance(n.targets[0], ast.Name):
                if isinstance(n.value, (ast.Dict, ast.Tuple, ast.List, ast.Set)) or \
                        (isinstance(n.value, ast.Call) and isinstance(n.value.func, ast.Name) and
                         n.value.func.id in ('dict', 'tuple', 'zip', 'OrderedDict')):
                    continue          # a container that merely holds the bound vectors (keyword arguments, pairs)
                for x in ast.walk(n.value):
                    if isinstance(x, ast.Attribute) and isinstance(x.value, ast.Name) and x.value.id == root \
                            and x.attr in ('lb', 'ub'):
                        bound_names[n.targets[0].id] = x.attr
        nstores = 0
        for n in walk_no_nested(fi.node):
            if isinstance(n, ast.Assign) and len(n.targets) == 1 and isinstance(n.targets[0], ast.Subscript) \
                    and isinstance(n.targets[0].value, ast.Name) and n.targets[0].value.id in bound_names:
                nm = n.targets[0].value.id
                idx_txt = ntext(n.targets[0].slice)
                if 'inf' in idx_txt:
                    continue          # re-coding of infinite bounds, not a decision about user bounds
                nstores += 1
                from .common import expand_locals as _xl
                val_x = _xl(fi.node, n.value)          # a hoisted old value (cur = ub[mask]) is the old value
                depends = any(isinstance(x, ast.Name) and x.id == nm for x in ast.walk(val_x)) or \
                    any(isinstance(x, ast.Attribute) and x.attr == bound_names[nm] for x in ast.walk(val_x))
                res.inst({'interface': fi.fq, 'bound_store': ntext(n)[:70], 'uses_old_bound': depends}, depends)
                if not depends:
                    res.fail(Finding(RULE, fi.fq, 'bound overwrite: ' + ntext(n)[:60],
                                     '%s overwrites selected entries of the %s bounds with `%s`, '
                                     'discarding any tighter bound the user put on those columns '
                                     '(siblings use max(0, lb) / min(1, ub))'
                                     % (fi.fq, bound_names[nm], ntext(n.value)[:30]), repo.where(fi, n), PROPS))
        # (b2) a bound vector rebuilt with np.where(mask, <constant>, formula.lb): on the masked columns the user's
        #      bound is replaced, not intersected (the siblings use max(0, lb) / min(1, ub))
        for n in walk_no_nested(fi.node):
            if isinstance(n, ast.Call) and call_name(n) in ('np.where', 'numpy.where') and len(n.args) == 3:
                a_, b_ = n.args[1], n.args[2]
                for keep, other in ((a_, b_), (b_, a_)):
                    kt = ntext(_xl_b(fi.node, keep))
                    is_bound = any(kt == '%s.%s' % (root, f_) or kt.endswith('.%s' % f_) and kt.startswith(root + '.')
                                   for f_ in ('lb', 'ub')) or (isinstance(keep, ast.Name) and keep.id in bound_names)
                    # np.where(lb < 0, 0, lb) is max(lb, 0): a mask that compares the bound itself intersects
                    mask_reads_bound = any(
                        isinstance(c_, ast.Compare) and any(ntext(_xl_b(fi.node, x_)) == kt or
                                                            (isinstance(x_, ast.Name) and x_.id in bound_names)
                                                            for x_ in [c_.left] + c_.comparators)
                        for c_ in ast.walk(_xl_b(fi.node, n.args[0])))
                    if mask_reads_bound:
                        continue
                    if is_bound and (isinstance(other, ast.Constant) or
                                     (isinstance(other, ast.UnaryOp) and isinstance(other.operand, ast.Constant))) \
                            and ntext(other) not in ('np.inf', '-np.inf'):
                        nstores += 1
                        res.inst({'interface': fi.fq, 'bound_rebuilt': ntext(n)[:70], 'uses_old_bound': False}, False)
                        res.fail(Finding(RULE, fi.fq, 'bound overwrite: ' + ntext(n)[:60],
                                         '%s rebuilds the bounds with `%s`: on the selected columns the constant '
                                         'replaces whatever bound the user put there instead of being intersected '
                                         'with it (siblings use max(0, lb) / min(1, ub))' % (fi.fq, ntext(n)[:50]),
                                         repo.where(fi, n), {'props': ['C11', 'C07']}))
        # (b3) solver parameters are set on the model object of this call, never on the solver module: a module-level
        #      setParam writes the process-wide default environment and leaks into every later solve
        for n in walk_no_nested(fi.node):
            if isinstance(n, ast.Call) and isinstance(n.func, ast.Attribute) and \
                    n.func.attr.lower() in ('setparam', 'set_param', 'setparams') and isinstance(n.func.value, ast.Name):
                recv = n.func.value.id
                mod_ = repo.module(fi.module)
                is_module = recv in mod_.ext_imports or recv in mod_.imports
                res.inst({'interface': fi.fq, 'parameter_call': ntext(n)[:50], 'on_model_object': not is_module},
                         not is_module)
                if is_module:
                    res.fail(Finding(RULE, fi.fq, 'solver parameter set on the module: ' + ntext(n.func),
                                     '%s calls `%s`, which changes the solver library\'s process-wide defaults: the '
                                     'parameters of this call leak into every later solve in the process (another '
                                     'model then stops at a limit it never asked for)' % (fi.fq, ntext(n)[:40]),
                                     repo.where(fi, n), PROPS))
        # (b4) the three multiplier arrays are scattered back from the solver's output, each on its own: a store into one
        #      of them that is computed from another one (or from itself and another) re-distributes multipliers between
        #      bounds with the interface's own sign conventions -- upi already holds the negated upper-bound multiplier
        mult = {}
        for n in walk_no_nested(fi.node):
            if isinstance(n, ast.Dict):
                for k_, v_ in zip(n.keys, n.values):
                    if isinstance(k_, ast.Constant) and k_.value in ('pi', 'upi', 'lpi') and isinstance(v_, ast.Name):
                        mult[v_.id] = k_.value
            elif isinstance(n, ast.Call) and isinstance(n.func, ast.Name) and n.func.id == 'dict':
                for k_ in n.keywords:
                    if k_.arg in ('pi', 'upi', 'lpi') and isinstance(k_.value, ast.Name):
                        mult[k_.value.id] = k_.arg
        if mult:
            local_defs = {}
            for n in walk_no_nested(fi.node):
                if isinstance(n, ast.Assign) and len(n.targets) == 1 and isinstance(n.targets[0], ast.Name):
                    local_defs.setdefault(n.targets[0].id, []).append(n.value)

            def reads(e, depth=0, seen=None):
                seen = seen if seen is not None else set()
                out = set()
                for x in ast.walk(e):
                    if isinstance(x, ast.Name):
                        if x.id in mult:
                            out.add(x.id)
                        elif x.id not in seen and depth < 3:
                            seen.add(x.id)
                            for v_ in local_defs.get(x.id, []):
                                out |= reads(v_, depth + 1, seen)
                return out
            for n in walk_no_nested(fi.node):
                if isinstance(n, ast.Assign) and len(n.targets) == 1 and isinstance(n.targets[0], ast.Subscript) and \
                        isinstance(n.targets[0].value, ast.Name) and n.targets[0].value.id in mult:
                    tgt = n.targets[0].value.id
                    others = sorted(reads(n.value) - {tgt})
                    ok_m = not others
                    res.inst({'interface': fi.fq, 'multiplier_store': ntext(n)[:60], 'from_solver_output_only': ok_m}, ok_m)
                    if not ok_m:
                        res.fail(Finding(RULE, fi.fq, 'multipliers recombined: ' + ntext(n)[:50],
                                         '%s rewrites entries of `%s` (%s) from %s after the read-back: the arrays carry '
                                         'different sign conventions (upi is the negated upper-bound multiplier), so a net '
                                         'of the two computed here moves weight to the wrong bound'
                                         % (fi.fq, tgt, mult[tgt], ', '.join('`%s` (%s)' % (o, mult[o]) for o in others)),
                                         repo.where(fi, n), {'props': ['C14', 'C11']}))
        # (c)
        par = parents(fi.node)
        calls = solution_calls(repo, fi)
        if not calls:
            raise AnalysisError('%s constructs no Solution' % fi.fq)
        # a success Solution may also sit behind a guard clause on the status (if failed: return ..)
        status_facts = {}

        class _St(MustFlow):
            def visit(self, node, state):
                for c in [node] + list(ast.walk(node)):
                    if (isinstance(c, ast.Call) and isinstance(c.func, ast.Name) and c.func.id == 'Solution') or \
                            (c is node and isinstance(c, ast.Assign)):
                        for f in state:
                            if isinstance(f, tuple) and f[0] == 'cond' and \
                                    ('status' in f[2].lower() or 'exitflag' in f[2].lower()):
                                status_facts[id(c)] = 'past the test `%s` (%s)' % (f[2][:50], f[1])
        _St().run(body_stmts(fi))
        # Solution(.., objval, x, ..) fed from locals that are assigned once per outcome (objval, x = pcost, sol['x']
        # under the status test; objval, x = nan, None otherwise): one case per definition
        expanded_calls = []
        for call, env in calls:
            ov = env['objval']
            odefs = [n_ for n_ in walk_no_nested(fi.node) if isinstance(n_, ast.Assign) and len(n_.targets) == 1 and
                     isinstance(n_.targets[0], ast.Name) and isinstance(ov, ast.Name) and n_.targets[0].id == ov.id]
            if isinstance(ov, ast.Name) and len(odefs) > 1:
                for d_ in odefs:
                    blk = None
                    for p_ in ast.walk(fi.node):
                        for fld in ('body', 'orelse', 'finalbody'):
                            lst = getattr(p_, fld, None)
                            if isinstance(lst, list) and any(x_ is d_ for x_ in lst):
                                blk = lst
                    xv = env['x']
                    if isinstance(xv, ast.Name) and blk is not None:
                        xd = [x_.value for x_ in blk if isinstance(x_, ast.Assign) and len(x_.targets) == 1 and
                              isinstance(x_.targets[0], ast.Name) and x_.targets[0].id == xv.id]
                        if len(xd) != 1:
                            raise AnalysisError('%s: `%s` is not assigned next to `%s`' % (fi.fq, xv.id, ov.id))
                        xv = xd[0]
                    expanded_calls.append((d_, dict(env, objval=d_.value, x=xv)))
            else:
                expanded_calls.append((call, env))
        for call, env in expanded_calls:
            objval, x = env['objval'], env['x']
            if is_nan(objval):
                ok = isinstance(x, ast.Constant) and x.value is None
                res.inst({'interface': fi.fq, 'solution': 'failure shape', 'x_is_None': ok}, ok)
                if not ok:
                    res.fail(Finding(RULE, fi.fq, 'failure shape with x', '%s reports objval=nan but '
                                     'passes x=%s: read-back guards rely on x being None'
                                     % (fi.fq, ntext(x)[:30]), repo.where(fi, call), PROPS))
            else:
                why = _under_status(par, call, fi) or status_facts.get(id(call))
                ok = why is not None
                res.inst({'interface': fi.fq, 'solution': 'success shape', 'guard': why}, ok)
                if not ok:
                    res.fail(Finding(RULE, fi.fq, 'unguarded success: ' + ntext(call)[:50],
                                     '%s builds a success Solution (objval=%s) that is not under a '
                                     'status test nor in a try whose handlers report failure: a run '
                                     'that did not reach an optimum would return a fabricated solution'
                                     % (fi.fq, ntext(objval)[:30]), repo.where(fi, call), PROPS))
        # every path returns a Solution
        fl = _Returns()
        o = fl.run(body_stmts(fi))
        sol_names = set()
        for n in walk_no_nested(fi.node):
            if isinstance(n, ast.Assign) and isinstance(n.value, ast.Call) and \
                    isinstance(n.value.func, ast.Name) and n.value.func.id == 'Solution':
                for t in n.targets:
                    if isinstance(t, ast.Name):
                        sol_names.add(t.id)
        bad_ret = []
        for _s, node in o.returns:
            v = node.value
            if v is None:
                bad_ret.append('bare return')
            elif isinstance(v, ast.Name):
                # the definitions that may reach this return (a dead initialisation `solution = None` does not)
                from rsx.webs import reaching_values
                if not hasattr(fi, '_reach_vals'):
                    fi._reach_vals = reaching_values(fi.node)
                vals = fi._reach_vals.get(id(v))
                if vals is None:
                    raise AnalysisError('%s: no definition of `%s` reaches the return' % (fi.fq, v.id))
                others = [b for b in vals if not (isinstance(b, ast.Call) and isinstance(b.func, ast.Name)
                                                  and b.func.id == 'Solution')]
                if v.id not in sol_names or others:
                    bad_ret.append('returns `%s`, which is not only bound to Solution(..)' % v.id)
            elif not (isinstance(v, ast.Call) and isinstance(v.func, ast.Name) and v.func.id == 'Solution'):
                bad_ret.append('returns `%s`' % ntext(v)[:30])
        if o.normal is not None:
            bad_ret.append('a path falls off the end of solve() (returns None)')
        ok = not bad_ret
        res.inst({'interface': fi.fq, 'returns': len(o.returns), 'all_return_Solution': ok}, ok)
        for b in bad_ret:
            res.fail(Finding(RULE, fi.fq, 'return: ' + b[:50], '%s: %s' % (fi.fq, b), repo.where(fi), PROPS))
        _sibling_bounds(repo, res, fi, root)
    _ecos_blocks(repo, res)
    return res


def _sibling_bounds(repo, res, fi, root):
    """(f) alternatives that create solver variables per variable type must agree on passing
    the bounds: if one alternative of a vtype dispatch hands lb / ub to the solver, all do."""
    bnames = {'lb': {'lb'}, 'ub': {'ub'}}
    for n in walk_no_nested(fi.node):
        if isinstance(n, ast.Assign) and len(n.targets) == 1 and isinstance(n.targets[0], ast.Name):
            for x in ast.walk(n.value):
                if isinstance(x, ast.Attribute) and isinstance(x.value, ast.Name) and x.value.id == root \
                        and x.attr in ('lb', 'ub'):
                    bnames[x.attr].add(n.targets[0].id)

    def uses(node):
        out = set()
        for x in ast.walk(node):
            if isinstance(x, ast.Attribute) and x.attr in ('lb', 'ub') and isinstance(x.value, ast.Name) \
                    and x.value.id == root:
                out.add(x.attr)
            elif isinstance(x, ast.Name):
                for k, names in bnames.items():
                    if x.id in names and x.id != root:
                        out.add(k)
        return out

    def creates_var(node):
        return any(isinstance(x, ast.Call) and ('Var' in ntext(x.func) or 'ariable' in ntext(x.func))
                   for x in ast.walk(node))

    groups = []
    # IfExp chains dispatching on the variable type
    seen = set()
    for n in walk_no_nested(fi.node):
        if isinstance(n, ast.IfExp) and id(n) not in seen and 'vtype' in ntext(n.test):
            alts = []
            cur = n
            while isinstance(cur, ast.IfExp):
                seen.add(id(cur))
                alts.append(cur.body)
                cur = cur.orelse
            alts.append(cur)
            groups.append(('conditional expression on vtype', alts))
    # sibling if-blocks whose tests derive from vtype and that create solver variables
    derived = {'vtype'}
    changed = True
    while changed:
        changed = False
        for n in walk_no_nested(fi.node):
            if isinstance(n, ast.Assign) and len(n.targets) == 1 and isinstance(n.targets[0], ast.Name):
                if n.targets[0].id not in derived and any(
                        (isinstance(x, ast.Name) and x.id in derived) or
                        (isinstance(x, ast.Attribute) and x.attr == 'vtype') for x in ast.walk(n.value)):
                    derived.add(n.targets[0].id)
                    changed = True
    blocks = [n for n in walk_no_nested(fi.node) if isinstance(n, ast.If) and
              any(isinstance(x, ast.Name) and x.id in derived for x in ast.walk(n.test)) and
              creates_var(ast.Module(body=n.body, type_ignores=[]))]
    if len(blocks) >= 2:
        groups.append(('blocks per variable type', [ast.Module(body=b.body, type_ignores=[]) for b in blocks]))
    for what, alts in groups:
        alts = [a for a in alts if creates_var(a)] if what.startswith('blocks') else alts
        sets = [uses(a) for a in alts]
        union = set().union(*sets) if sets else set()
        if not union:
            continue
        ok = all(s == union for s in sets)
        res.inst({'interface': fi.fq, 'vtype_dispatch': what, 'alternatives': len(alts),
                  'bounds_used': [sorted(s) for s in sets], 'agree': ok}, ok)
        if not ok:
            bad = [ntext(a)[:50] for a, s in zip(alts, sets) if s != union]
            res.fail(Finding(RULE, fi.fq, 'bounds dropped for one variable type',
                             '%s: the alternatives of the %s do not agree on the bounds they hand to '
                             'the solver: `%s` uses %s while its siblings use %s -- the user\'s bounds '
                             'on that kind of variable never reach the solver'
                             % (fi.fq, what, bad[0], sorted(sets[[s != union for s in sets].index(True)]),
                                sorted(union)), repo.where(fi), PROPS))


# ----------------------------------------------------------------------------- (d),(e) ECOS
def _index_var(expr, binds, depth=0):
    """which of the index sets an expression (or the block it names) is built from"""
    idx = set()
    for x in ast.walk(expr):
        if isinstance(x, ast.Name):
            if x.id.endswith('_idx'):
                idx.add(x.id)
            elif depth < 3 and x.id in binds:
                idx |= _index_var(binds[x.id], binds, depth + 1)
    return idx


def _coef_sign(block):
    """sign of a constant coefficient vector, composed from its construction:
    np.ones(n), np.full(n, c), np.array([c] * n), [c] * n, np.repeat(c, n), -v, v * c, c * v, v / c"""
    from .common import const_num

    def sg(e):
        k = const_num(e)
        if k is not None:
            return None if k == 0 else (1 if k > 0 else -1)
        if isinstance(e, ast.UnaryOp) and isinstance(e.op, ast.USub):
            r = sg(e.operand)
            return None if r is None else -r
        if isinstance(e, ast.UnaryOp) and isinstance(e.op, ast.UAdd):
            return sg(e.operand)
        if isinstance(e, (ast.List, ast.Tuple)):
            rs = {sg(x) for x in e.elts}
            return rs.pop() if len(rs) == 1 else None
        if isinstance(e, ast.Call):
            cn = call_name(e)
            if cn in ('np.ones', 'numpy.ones', 'np.ones_like', 'numpy.ones_like'):
                return 1
            if cn in ('np.full', 'numpy.full') and len(e.args) >= 2:
                return sg(e.args[1])
            if cn in ('np.array', 'numpy.array', 'np.asarray', 'numpy.asarray', 'np.repeat', 'numpy.repeat',
                      'np.tile', 'numpy.tile', 'np.negative', 'numpy.negative') and e.args:
                r = sg(e.args[0])
                if r is not None and cn.endswith('negative'):
                    r = -r
                return r
            return None
        if isinstance(e, ast.BinOp) and isinstance(e.op, ast.Mult):
            # [c] * n: repetition of a list (n a count); otherwise a product of a vector and a scalar
            for a, b_ in ((e.left, e.right), (e.right, e.left)):
                if isinstance(a, (ast.List, ast.Tuple)):
                    return sg(a)
            x, y = sg(e.left), sg(e.right)
            return None if x is None or y is None else x * y
        if isinstance(e, ast.BinOp) and isinstance(e.op, ast.Div):
            x, y = sg(e.left), sg(e.right)
            return None if x is None or y is None else x * y
        return None
    return sg(block)


def _ecos_blocks(repo, res):
    fi = repo.func('eco_solver.solve')
    from .common import single_defs, expand_locals
    binds = {}
    for n in walk_no_nested(fi.node):
        if isinstance(n, ast.Assign) and len(n.targets) == 1 and isinstance(n.targets[0], ast.Name):
            binds[n.targets[0].id] = n.value
    # locals other than the index sets and the blocks themselves are expanded away, so that
    # `num_zlb`, `len(zlb_idx)` and an alias of sol['z'] read the same
    defs = {k: v for k, v in single_defs(fi.node).items()
            if not k.endswith('_idx') and k not in ('G', 'h', 'dims', 'A', 'b', 'c', 'sol')
            and not (k.startswith('G') and len(k) <= 4)}

    def ex(e):
        return expand_locals(fi.node, e, depth=4, defs=defs)

    def len_args(e):
        out = []
        for x in ast.walk(ex(e)):
            if isinstance(x, ast.Call) and call_name(x) == 'len' and x.args and isinstance(x.args[0], ast.Name):
                out.append(x.args[0].id)
            elif isinstance(x, ast.Attribute) and x.attr == 'size' and isinstance(x.value, ast.Name):
                out.append(x.value.id)
            elif isinstance(x, ast.Subscript) and isinstance(x.value, ast.Attribute) and x.value.attr == 'shape' and \
                    isinstance(x.value.value, ast.Name) and isinstance(x.slice, ast.Constant) and x.slice.value == 0:
                out.append(x.value.value.id)        # idx.shape[0] of a 1-d index array
        return out
    if 'G' not in binds or 'h' not in binds or 'dims' not in binds:
        raise AnalysisError('eco_solver.solve: G / h / dims not found')
    # G = sp.csc_matrix(sp.vstack([Gl, Glb, Gub] + Gsc + Gec))
    lists = [x for x in ast.walk(binds['G']) if isinstance(x, ast.List)]
    if not lists:
        raise AnalysisError('eco_solver.solve: block list of G not found')
    gblocks = [e.id for e in lists[0].elts if isinstance(e, ast.Name)]
    tail = [x.id for x in ast.walk(binds['G']) if isinstance(x, ast.Name) and x.id in ('Gsc', 'Gec')]
    h_elts = None
    for x in ast.walk(binds['h']):
        if isinstance(x, ast.Tuple):
            h_elts = x.elts
            break
    if h_elts is None:
        raise AnalysisError('eco_solver.solve: blocks of h not found')
    g_idx = [sorted(_index_var(binds[b], binds)) for b in gblocks]
    h_idx = [sorted(_index_var(e, binds)) for e in h_elts[:len(gblocks)]]
    ok = g_idx == h_idx and all(len(i) == 1 for i in g_idx)
    res.inst({'ecos': 'block order', 'G': list(zip(gblocks, g_idx)), 'h': h_idx}, ok)
    if not ok:
        res.fail(Finding(RULE, fi.fq, 'ECOS block order',
                         'the row blocks of G (%s -> %s) and of h (%s) are not stacked over the same '
                         'index sets in the same order: right-hand sides would be paired with the '
                         'wrong rows' % (gblocks, g_idx, h_idx), repo.where(fi), PROPS))
    # cone blocks have zero rhs
    cone_rhs = h_elts[len(gblocks):]
    # every right-hand side block after the linear ones is a zero vector (one per cone kind, or merged)
    ok = bool(cone_rhs) == bool(tail) and all(isinstance(e, ast.Call) and
                                               call_name(e) in ('np.zeros', 'numpy.zeros') for e in cone_rhs)
    res.inst({'ecos': 'cone rhs zero', 'cone_blocks': tail, 'rhs': [ntext(e)[:30] for e in cone_rhs]}, ok)
    if not ok:
        res.fail(Finding(RULE, fi.fq, 'ECOS cone rhs', 'cone blocks %s must be paired with zero '
                         'right-hand sides, found %s' % (tail, [ntext(e)[:30] for e in cone_rhs]),
                         repo.where(fi), PROPS))
    gtxt = ntext(binds['G'])
    ok = 0 < gtxt.find('Gsc') < gtxt.find('Gec')
    res.inst({'ecos': 'cone order l,q,e', 'G': gtxt[:70]}, ok)
    if not ok:
        res.fail(Finding(RULE, fi.fq, 'ECOS cone order', 'ECOS expects the rows of G in the order '
                         'linear, second-order cones, exponential cones; found `%s`' % gtxt[:70],
                         repo.where(fi), PROPS))
    # (e) bound rows: sign of the coefficient block = sign of the rhs, + iff upper
    sign_ok = True
    detail = []
    for b, e in zip(gblocks[1:], h_elts[1:len(gblocks)]):
        blk = ex(binds[b])
        flip_ = 1
        while isinstance(blk, ast.UnaryOp) and isinstance(blk.op, ast.USub):
            flip_, blk = -flip_, blk.operand
        data = blk
        if isinstance(blk, ast.Call) and call_name(blk).endswith(('csr_matrix', 'csc_matrix', 'coo_matrix')) and blk.args:
            data = blk.args[0]
            if isinstance(data, (ast.Tuple, ast.List)) and data.elts:
                data = data.elts[0]
        sg = _coef_sign(ex(data))
        if sg is not None:
            sg *= flip_
        if sg is None:
            raise AnalysisError('eco_solver.solve: sign of the coefficients of block %s (`%s`) not recognised'
                                % (b, ntext(binds[b])[:50]))
        coef_neg = sg < 0
        e = ex(e)
        rhs_neg = isinstance(e, ast.UnaryOp) and isinstance(e.op, ast.USub)
        which = 'lb' if '.lb' in ntext(e) else 'ub' if '.ub' in ntext(e) else '?'
        if which == '?':
            raise AnalysisError('eco_solver.solve: right-hand side `%s` of block %s is not read from the bounds '
                                'in a form the rule interprets' % (ntext(e)[:40], b))
        detail.append((b, 'c<0' if coef_neg else 'c>0', 'k<0' if rhs_neg else 'k>0', which))
        if coef_neg != rhs_neg or (which == 'ub') == coef_neg or which == '?':
            sign_ok = False
    res.inst({'ecos': 'bound rows', 'rows': detail}, sign_ok)
    if not sign_ok:
        res.fail(Finding(RULE, fi.fq, 'ECOS bound rows',
                         'bound rows must be  -x <= -lb  and  +x <= +ub ; found %s' % detail,
                         repo.where(fi), PROPS))
    # dims['l'] and dual read-back offsets
    d = binds['dims']
    l_expr = None
    if isinstance(d, ast.Dict):
        for k, v in zip(d.keys, d.values):
            if isinstance(k, ast.Constant) and k.value == 'l':
                l_expr = v
    elif isinstance(d, ast.Call) and isinstance(d.func, ast.Name) and d.func.id == 'dict' and not d.args:
        for k in d.keywords:
            if k.arg == 'l':
                l_expr = k.value
    if l_expr is None:
        raise AnalysisError("eco_solver.solve: the entry 'l' of dims is not found in `%s`" % ntext(d)[:50])
    want = [i[0] for i in g_idx if len(i) == 1]
    # the number of rows of a block (Glb.shape[0]) is the size of its index set
    blk_idx = {b_: i_[0] for b_, i_ in zip(gblocks, g_idx) if len(i_) == 1}
    got = [blk_idx.get(x, x) for x in len_args(l_expr)]
    ok = sorted(got) == sorted(want)
    res.inst({'ecos': "dims['l']", 'terms': got, 'blocks': want}, ok)
    if not ok:
        res.fail(Finding(RULE, fi.fq, "ECOS dims['l']", "dims['l'] sums %s but the linear blocks are %s"
                         % (got, want), repo.where(fi), PROPS))
    # read-back:  z[:num_ineq], z[num_ineq + arange(num_zlb)], z[num_ineq + num_zlb + arange(num_zub)]
    offs = []
    for n in walk_no_nested(fi.node):
        if isinstance(n, ast.Subscript) and ntext(ex(n.value)) == "sol['z']" and isinstance(n.ctx, ast.Load):
            if isinstance(n.slice, ast.Slice):
                # z[lo:hi]: hi is the offset plus the size of the block, lo the offset alone
                if n.slice.step is not None or n.slice.upper is None:
                    raise AnalysisError("eco_solver.solve: slice `%s` of sol['z'] is outside the interpreted forms"
                                        % ntext(n.slice))
                hi = len_args(n.slice.upper)
                lo = len_args(n.slice.lower) if n.slice.lower is not None else []
                rest = list(hi)
                for x in lo:
                    if x in rest:
                        rest.remove(x)
                    else:
                        rest = None
                        break
                if rest is None or len(rest) != 1:
                    raise AnalysisError("eco_solver.solve: slice `%s` of sol['z'] does not span exactly one block"
                                        % ntext(n.slice))
                offs.append(hi)
            else:
                offs.append(len_args(n.slice))
    if not offs:
        raise AnalysisError("eco_solver.solve: no read of sol['z'][..] found")
    exp = [want[:1], want[:2], want[:3]]
    ok = sorted(map(sorted, offs)) == sorted(map(sorted, exp))
    res.inst({'ecos': 'dual read-back offsets', 'offsets': offs, 'expected_prefixes': exp}, ok)
    if not ok:
        res.fail(Finding(RULE, fi.fq, 'ECOS dual offsets',
                         'multipliers are read from sol[\'z\'] at offsets %s; the stacking order '
                         'implies %s' % (offs, exp), repo.where(fi), {'props': ['C14', 'C11']}))
