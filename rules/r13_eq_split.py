"""R13 equality = two inequalities, at every split site.

The rebuild sites of R08 (same discovery) come in pairs inside one branch.  For each pair
(A, B) of class K:
  * the coefficient parameters of K (RoConstr/DecRoConstr: roaffine; DecLinConstr: linear and
    const) of B are the negation of those of A -- syntactically `-e` for `e`, or the same
    linear constructor (RoAffine(raffine, affine, .)) applied to negated arguments;
  * every other argument is identical;
  * the `sense` parameter is 0 (or np.zeros(..)) in both;
  * both objects are consumed (appended, passed on or returned) on every path to an exit.
"""
import ast

from rsx.ctor import bind_args, subst
from .common import (AnalysisError, Finding, RuleResult, MustFlow, ntext, walk_no_nested,
                     body_stmts)
from .r08_derived_keep_set import find_sites, SCAN_MODULES
from rsx.webs import display as _disp

RULE = 'R13'
TEXT = ('an equality robust constraint is split into exactly the pair (e <= 0, -e <= 0): the two '
        'halves are built from mutually negated coefficient arguments, both with sense 0, and '
        'both are kept')
COEFF = {'lp.RoConstr': ['roaffine'], 'lp.DecRoConstr': ['roaffine'], 'lp.DecLinConstr': ['linear', 'const']}
LINEAR_CTORS = {'RoAffine': (0, 1)}


def _inline(fi, expr):
    """Inline locals that are assigned exactly once in the function."""
    binds = {}
    for n in walk_no_nested(fi.node):
        if isinstance(n, ast.Assign) and len(n.targets) == 1 and isinstance(n.targets[0], ast.Name):
            binds.setdefault(n.targets[0].id, []).append(n.value)
    env = {k: v[0] for k, v in binds.items() if len(v) == 1}
    cur = expr
    for _ in range(4):
        new = subst(cur, env)
        if ntext(new) == ntext(cur):
            break
        cur = new
    return cur


def negation_verdict(a, b):
    """'neg' (b is -a), 'same' (b is a: the negation was forgotten), 'partial' (a linear constructor
    with some argument not negated), or 'unknown' (a form the rule does not interpret)."""
    if isinstance(b, ast.UnaryOp) and isinstance(b.op, ast.USub) and ntext(b.operand) == ntext(a):
        return 'neg'
    if isinstance(a, ast.UnaryOp) and isinstance(a.op, ast.USub) and ntext(a.operand) == ntext(b):
        return 'neg'
    if ntext(a) == ntext(b):
        return 'same'
    if isinstance(a, ast.Call) and isinstance(b, ast.Call) and ntext(a.func) == ntext(b.func) \
            and ntext(a.func) in LINEAR_CTORS and len(a.args) == len(b.args):
        lin = LINEAR_CTORS[ntext(a.func)]
        verdicts = []
        for i, (x, y) in enumerate(zip(a.args, b.args)):
            if i in lin:
                verdicts.append(negation_verdict(x, y))
            elif ntext(x) != ntext(y):
                return 'unknown'
        if all(v == 'neg' for v in verdicts):
            return 'neg'
        if any(v == 'unknown' for v in verdicts):
            return 'unknown'
        return 'partial'
    return 'unknown'


def is_negation(a, b):
    return negation_verdict(a, b) == 'neg'


def is_zero_sense(e):
    if isinstance(e, ast.Constant) and e.value == 0 and e.value is not False:
        return True
    if isinstance(e, ast.Call) and ntext(e.func) in ('np.zeros', 'numpy.zeros', 'np.zeros_like', 'numpy.zeros_like'):
        return True
    if isinstance(e, ast.Call) and ntext(e.func) in ('np.full', 'numpy.full') and len(e.args) >= 2 and \
            isinstance(e.args[1], ast.Constant) and e.args[1].value == 0 and e.args[1].value is not False:
        return True
    return False


class _Used(MustFlow):
    def __init__(self, names):
        super().__init__()
        self.names = names
        self.created = {}

    def refine(self, test, branch, state):
        return state

    def transfer(self, node, state):
        if isinstance(node, ast.Assign) and len(node.targets) == 1 and \
                isinstance(node.targets[0], ast.Name) and id(node) in self.names:
            return state | {('pending', node.targets[0].id)}
        for n in ast.walk(node):
            if isinstance(n, ast.Call):
                for a in n.args:
                    if isinstance(a, ast.Name) and ('pending', a.id) in state:
                        state = state - {('pending', a.id)}
        return state


class _Consume(MustFlow):
    def __init__(self, name):
        super().__init__()
        self.name = name

    def refine(self, test, branch, state):
        return state

    def transfer(self, node, state):
        for n in ast.walk(node):
            if isinstance(n, ast.Call) and any(isinstance(x, ast.Name) and x.id == self.name
                                               for a in n.args for x in ast.walk(a)):
                return state | {'consumed'}
        return state


def _consumed_after(fi, stmt, name):
    """After it is built, the half flows -- directly, through a container / tuple / loop variable it
    was put into, or through an alias -- into a call argument (append, extend, recursion), an
    augmented assignment of a list, or a returned value.  Flow-insensitive over the statements that
    follow the construction in source order; '' when such a sink exists."""
    # document order (not line numbers: inlined helper bodies keep the lines of the helper)
    seq = []

    def dfs(n):
        seq.append(n)
        for c in ast.iter_child_nodes(n):
            if not isinstance(c, (ast.FunctionDef, ast.AsyncFunctionDef, ast.ClassDef, ast.Lambda)):
                dfs(c)
    dfs(fi.node)
    pos = [i for i, n in enumerate(seq) if n is stmt]
    if not pos:
        raise AnalysisError('%s: split site not found in its function' % fi.fq)
    later = seq[pos[0]:]
    derived = {name}
    for _ in range(5):
        grew = False
        for n in later:
            tgt = None
            if isinstance(n, ast.Assign) and any(isinstance(x, ast.Name) and x.id in derived for x in ast.walk(n.value)):
                # x = [half, ..] / (half, ..) / half / f(half): only containers and aliases carry the object
                if isinstance(n.value, (ast.Name, ast.List, ast.Tuple, ast.Set, ast.Starred, ast.ListComp, ast.BinOp)):
                    tgt = n.targets
            elif isinstance(n, ast.For) and any(isinstance(x, ast.Name) and x.id in derived for x in ast.walk(n.iter)):
                tgt = [n.target]
            elif isinstance(n, ast.comprehension) and any(isinstance(x, ast.Name) and x.id in derived
                                                          for x in ast.walk(n.iter)):
                tgt = [n.target]
            for t in tgt or []:
                for x in ast.walk(t):
                    if isinstance(x, ast.Name) and x.id not in derived:
                        derived.add(x.id)
                        grew = True
        if not grew:
            break
    for n in later:
        if n is stmt:
            continue
        if isinstance(n, ast.Call):
            cn = ntext(n.func)
            if cn in ('isinstance', 'len', 'print', 'type'):
                continue
            args = list(n.args) + [k.value for k in n.keywords]
            if any(isinstance(x, ast.Name) and x.id in derived for a in args for x in ast.walk(a)):
                return ''
        if isinstance(n, ast.AugAssign) and any(isinstance(x, ast.Name) and x.id in derived for x in ast.walk(n.value)):
            return ''
        if isinstance(n, ast.Return) and n.value is not None and \
                any(isinstance(x, ast.Name) and x.id in derived for x in ast.walk(n.value)):
            return ''
    return 'is built but never stored, passed on or returned afterwards'


def run(repo):
    res = RuleResult(RULE, 'equality = two inequalities at every split site', TEXT)
    res.floor = 3
    for fi in repo.all_functions():
        if fi.module not in SCAN_MODULES:
            continue
        if not any(isinstance(n, ast.Call) and isinstance(n.func, ast.Name) and n.func.id == 'isinstance'
                   for n in walk_no_nested(fi.node)):
            continue
        fi = repo.websplit(fi)          # `raffine = -raffine` between the halves: two variables, not one
        fl = find_sites(repo, fi)
        sites = []
        seen = set()
        for s in fl.sites:
            if id(s['stmt']) not in seen:
                seen.add(id(s['stmt']))
                sites.append(s)
        if not sites:
            continue
        res.functions.add(fi.fq)
        sites.sort(key=lambda s: s['stmt'].lineno)
        # pair consecutive sites of the same class and source
        i = 0
        while i < len(sites):
            a = sites[i]
            b = sites[i + 1] if i + 1 < len(sites) and sites[i + 1]['cls'] == a['cls'] \
                and sites[i + 1]['source'] == a['source'] else None
            if b is None:
                res.inst({'function': fi.fq, 'site': ntext(a['stmt'])[:80], 'paired': False}, False)
                res.fail(Finding(RULE, fi.fq, 'unpaired:' + a['new'],
                                 '%s rebuilds a %s from `%s` once only (%s): an equality needs both '
                                 'e <= 0 and -e <= 0' % (fi.fq, a['cls'], a['source'], ntext(a['stmt'])[:60]),
                                 repo.where(fi, a['stmt'])))
                i += 1
                continue
            i += 2
            k = repo.cls(a['cls'])
            init = repo.resolve_method(k, '__init__')
            ea, eb = bind_args(init, a['call']), bind_args(init, b['call'])
            if ea is None or eb is None:
                raise AnalysisError('cannot bind constructor arguments at %s' % repo.where(fi, a['stmt']))
            problems = []
            # an argument that reads a field back from the first half (left.ctype) is the argument the first
            # half's constructor stored there
            from rsx.ctor import ctor_fields
            fa_ = ctor_fields(repo, k, a['call']) or {}
            for p_, v_ in list(eb.items()):
                if isinstance(v_, ast.Attribute) and isinstance(v_.value, ast.Name) and v_.value.id == a['new'] and \
                        len(fa_.get(v_.attr, [])) == 1:
                    eb[p_] = fa_[v_.attr][0]
            # a local that is rebound somewhere in the function does not denote one value: the texts of the
            # two halves cannot be compared through it
            multi = {}
            for n_ in walk_no_nested(fi.node):
                if isinstance(n_, (ast.Assign, ast.AugAssign, ast.For)):
                    for t_ in (n_.targets if isinstance(n_, ast.Assign) else [n_.target]):
                        for x_ in ast.walk(t_):
                            if isinstance(x_, ast.Name) and isinstance(x_.ctx, ast.Store):
                                multi[x_.id] = multi.get(x_.id, 0) + 1
            lo, hi = a['stmt'].lineno, b['stmt'].lineno
            for env_ in (ea, eb):
                for p_, v_ in env_.items():
                    for x_ in ast.walk(_inline(fi, v_)):
                        if isinstance(x_, ast.Name) and multi.get(x_.id, 0) > 1 and x_.id not in (a['new'], b['new']):
                            if any(isinstance(n_, ast.Name) and n_.id == x_.id and isinstance(n_.ctx, ast.Store) and
                                   lo <= getattr(n_, 'lineno', -1) <= hi for n_ in walk_no_nested(fi.node)):
                                raise AnalysisError('%s: `%s` is rebound between the two halves of the split; the '
                                                    'rule compares the halves by the text of their arguments'
                                                    % (fi.fq, x_.id))
            coeff = COEFF.get(a['cls'])
            if coeff is None:
                for c in repo.mro(k):
                    if c.fq in COEFF:
                        coeff = COEFF[c.fq]
            for p in coeff:
                xa, xb = _inline(fi, ea[p]), _inline(fi, eb[p])
                verdict = negation_verdict(xa, xb)
                if verdict == 'unknown':
                    raise AnalysisError('%s: cannot tell whether `%s` is the negation of `%s`'
                                        % (fi.fq, ntext(xb)[:50], ntext(xa)[:50]))
                if verdict != 'neg':
                    problems.append('argument `%s`: %s vs %s are not negations of each other'
                                    % (p, ntext(xa)[:50], ntext(xb)[:50]))
            for p in ea:
                if p in coeff or p == 'sense':
                    continue
                if ntext(ea[p]) != ntext(eb[p]):
                    problems.append('argument `%s` differs: %s vs %s' % (p, ntext(ea[p])[:40], ntext(eb[p])[:40]))
            for side, env in (('first', ea), ('second', eb)):
                if 'sense' in env and isinstance(env['sense'], ast.Name):
                    # a local holding the sense: every definition of it is judged; no definition, no verdict
                    sdefs_ = [n_.value for n_ in walk_no_nested(fi.node) if isinstance(n_, ast.Assign) and
                              any(isinstance(t_, ast.Name) and t_.id == env['sense'].id for t_ in n_.targets)]
                    if not sdefs_:
                        raise AnalysisError('%s: the sense `%s` of a split half is not a local the rule follows'
                                            % (fi.fq, env['sense'].id))
                    if all(is_zero_sense(d_) for d_ in sdefs_):
                        continue
                if 'sense' in env and not is_zero_sense(env['sense']):
                    problems.append('%s half has sense %s, not 0' % (side, ntext(env['sense'])[:30]))
            for site in (a, b):
                why = _consumed_after(fi, site['stmt'], site['new'])
                if why:
                    problems.append('half `%s` %s' % (site['new'], why))
            ok = not problems
            res.inst({'function': fi.fq, 'class': a['cls'], 'first': ntext(a['stmt'])[:70],
                      'second': ntext(b['stmt'])[:70], 'ok': ok}, ok)
            for pr in problems:
                res.fail(Finding(RULE, fi.fq, _disp('split %s/%s: %s' % (a['new'], b['new'], pr.split(':')[0])),
                                 _disp('%s splits an equality %s into `%s` and `%s`, but %s'
                                       % (fi.fq, a['cls'].split('.')[1], a['new'], b['new'], pr)),
                                 repo.where(fi, a['stmt'])))
    return res
