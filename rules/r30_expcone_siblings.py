"""R30 sibling agreement on the exponential-cone convention (C06, C11).

ExpConstr(model, e1, e2, e3) denotes  e3 * exp(e1 / e3) <= e2.
(a) In gcp.Model.do_math the plain atoms X (exp) and L (log) are lowered exactly like their
    perspective siblings (PCvxConstr branches) with the scale replaced by the constant 1: the
    three ExpConstr arguments, expressed in the roles {in, out, scale} of the rso_broadcast
    operands, agree position by position.
(b) The constructors of exponential-cone constraints agree: Affine.expcone and DecAffine.expcone
    both build ExpConstr(model, x, self, z).
(c) The interfaces that hand exponential cones to a solver in the "primal exponential cone"
    convention (x0 >= x1 exp(x2 / x1): Mosek inPExpCone, COPT EXPCONE_PRIMAL) pick the triple in
    the same order [e[1], e[2], e[0]]; ECOS (z exp(x/z) <= y with rows x, y, z) passes the
    triple unpermuted.
"""
import ast

from .common import (AnalysisError, Finding, RuleResult, ntext, walk_no_nested, call_name, const_str)

RULE = 'R30'
TEXT = ('plain exp/log atoms are lowered like their perspective siblings with scale 1; all '
        'producers and solver interfaces use one exponential-cone argument convention')
P = {'props': ['C06', 'C11']}


_FN = [None]


def _expand(e):
    from .common import expand_locals
    return expand_locals(_FN[0], e) if _FN[0] is not None else e


def _branch_roles(body):
    """-> list of ExpConstr role triples in a lowering branch"""
    from .common import expand_block_locals
    body = expand_block_locals(body, keep=('exprs_list',))
    roles = None
    out = []
    for st in body:
        for n in ast.walk(st):
            if isinstance(n, ast.Call) and call_name(n) == 'rso_broadcast':
                roles = []
                for a in n.args:
                    # a sign applied where the operand is handed to the broadcast travels with it
                    sgn = ''
                    ax = a
                    while isinstance(ax, ast.UnaryOp) and isinstance(ax.op, ast.USub):
                        sgn = '' if sgn else '-'
                        ax = ax.operand
                    ex_ = _expand(ax)
                    while isinstance(ex_, ast.UnaryOp) and isinstance(ex_.op, ast.USub):
                        sgn = '' if sgn else '-'
                        ex_ = ex_.operand
                    t = ntext(ex_)
                    roles.append(sgn + ('in' if 'affine_in' in t else 'scale' if 'affine_scale' in t
                                        else 'out' if 'affine_out' in t else '?'))
    if roles is None:
        raise AnalysisError('R30: rso_broadcast(...) not found in a lowering branch')
    for st in body:
        for n in ast.walk(st):
            if isinstance(n, ast.Call) and call_name(n) == 'ExpConstr' and len(n.args) == 4:
                trip = []
                for a in n.args[1:]:
                    neg = False
                    if isinstance(a, ast.UnaryOp) and isinstance(a.op, ast.USub):
                        neg, a = True, a.operand
                    if isinstance(a, ast.Constant) and a.value == 1:
                        r = 'scale'             # the plain atom is the perspective at scale 1
                    elif isinstance(a, ast.Subscript) and isinstance(a.slice, ast.Constant) and \
                            isinstance(a.slice.value, int) and a.slice.value < len(roles):
                        r = roles[a.slice.value]
                    else:
                        raise AnalysisError('R30: ExpConstr argument `%s` not interpreted' % ntext(a)[:30])
                    if r.startswith('-'):
                        neg, r = not neg, r[1:]
                    trip.append(('-' if neg else '') + r)
                out.append(tuple(trip))
    return out


def run(repo):
    res = RuleResult(RULE, 'exponential-cone convention: sibling agreement', TEXT)
    res.floor = 5
    fi = repo.func('gcp.Model.do_math')
    _FN[0] = fi.node
    res.functions.add(fi.fq)
    found = {}
    for n in walk_no_nested(fi.node):
        if isinstance(n, ast.If) and ntext(n.test) in ('isinstance(constr, PCvxConstr)', 'isinstance(constr, CvxConstr)'):
            kind = 'persp' if 'PCvx' in ntext(n.test) else 'plain'
            for sub in n.body:
                cur = sub
                while isinstance(cur, ast.If):
                    t = cur.test
                    if isinstance(t, ast.Compare) and ntext(t.left) == 'constr.xtype' and const_str(t.comparators[0]) in ('X', 'L'):
                        found[(kind, const_str(t.comparators[0]))] = _branch_roles(cur.body)
                    cur = cur.orelse[0] if len(cur.orelse) == 1 and isinstance(cur.orelse[0], ast.If) else None
    for letter in ('X', 'L'):
        a, b = found.get(('plain', letter)), found.get(('persp', letter))
        if a is None or b is None:
            raise AnalysisError('R30: lowering branches for %s (plain / perspective) not found' % letter)
        ok = a == b and len(a) == 1
        res.inst({'letter': letter, 'plain': a, 'perspective': b, 'agree': ok}, ok)
        if not ok:
            res.fail(Finding(RULE, fi.fq, 'exp-cone roles for %s' % letter,
                             'gcp.Model.do_math lowers the plain atom %s with ExpConstr roles %s but its '
                             'perspective sibling with %s; the plain atom must be the perspective at scale 1'
                             % (letter, a, b), repo.where(fi), {'props': ['C06']}))
    # (b)
    sigs = {}
    for fq in ('lp.Affine.expcone', 'lp.DecAffine.expcone'):
        f2 = repo.func(fq)
        res.functions.add(fq)
        calls = [n for n in walk_no_nested(f2.node) if isinstance(n, ast.Call) and call_name(n) == 'ExpConstr']
        if len(calls) != 1:
            raise AnalysisError('%s: ExpConstr(...) call not found' % fq)
        params = f2.params
        sig = []
        for a in calls[0].args[1:]:
            t = ntext(a)
            sig.append('self' if t == 'self' else 'p%d' % params.index(t) if t in params else t)
        sigs[fq] = tuple(sig)
    ok = len(set(sigs.values())) == 1 and list(sigs.values())[0] == ('p1', 'self', 'p2')
    res.inst({'producers': sigs, 'agree': ok}, ok)
    if not ok:
        res.fail(Finding(RULE, 'lp.Affine.expcone', 'producer convention',
                         'y.expcone(x, z) must build ExpConstr(model, x, y, z) in ro and dro alike; found %s' % sigs,
                         '', {'props': ['C06']}))
    # (c)
    perms = {}
    for fq, marker in (('msk_solver.solve', 'inPExpCone'), ('cpt_solver.solve', 'loadExpCone')):
        f3 = repo.func(fq)
        res.functions.add(fq)
        perm = None
        for n in walk_no_nested(f3.node):
            if isinstance(n, ast.For) and 'xmat' in ntext(n.iter):
                v = n.target.id if isinstance(n.target, ast.Name) else None
                for x in ast.walk(n):
                    if isinstance(x, ast.List) and len(x.elts) == 3 and all(
                            isinstance(e, ast.Subscript) and ntext(e.value) == v for e in x.elts):
                        perm = tuple(ntext(e.slice) for e in x.elts)
                # the same triple handed over entry by entry: three consecutive .append(e[k]) on one list
                if perm is None:
                    apps = [s_.value for s_ in n.body if isinstance(s_, ast.Expr) and isinstance(s_.value, ast.Call)
                            and isinstance(s_.value.func, ast.Attribute) and s_.value.func.attr == 'append'
                            and len(s_.value.args) == 1 and isinstance(s_.value.args[0], ast.Subscript)
                            and ntext(s_.value.args[0].value) == v]
                    if len(apps) == 3 and len({ntext(a.func.value) for a in apps}) == 1:
                        perm = tuple(ntext(a.args[0].slice) for a in apps)
        if marker not in ntext(f3.node):
            raise AnalysisError('%s: %s not found' % (fq, marker))
        if perm is None:
            raise AnalysisError('%s: the exponential-cone index triple was not found' % fq)
        perms[fq] = perm
    ok = len(set(perms.values())) == 1 and list(perms.values())[0] == ('1', '2', '0')
    res.inst({'primal-exp-cone interfaces': perms, 'agree': ok}, ok)
    if not ok:
        res.fail(Finding(RULE, 'msk_solver.solve', 'exp-cone triple order',
                         'Mosek (inPExpCone) and COPT (EXPCONE_PRIMAL) share the convention x0 >= x1 exp(x2/x1) '
                         'and must pick [e[1], e[2], e[0]]; found %s' % perms, '', {'props': ['C11']}))
    eco = repo.func('eco_solver.solve')
    res.functions.add(eco.fq)
    # the loop (or comprehension) over the exponential cones uses each triple as a whole: the
    # loop variable is read, and never re-indexed entry by entry
    sites = []
    for n in walk_no_nested(eco.node):
        if isinstance(n, ast.For) and isinstance(n.target, ast.Name) and 'xmat' in ntext(n.iter):
            sites.append((n.target.id, n.body))
        elif isinstance(n, (ast.ListComp, ast.GeneratorExp)):
            g = n.generators[0]
            if isinstance(g.target, ast.Name) and 'xmat' in ntext(g.iter):
                sites.append((g.target.id, [n.elt]))
    if not sites:
        raise AnalysisError('eco_solver.solve: no loop over the exponential cones (xmat) found')
    ident = True
    for v, body in sites:
        whole = reidx = False
        subs = set()
        for st in body:
            for x in ast.walk(st):
                if isinstance(x, ast.Subscript) and isinstance(x.value, ast.Name) and x.value.id == v:
                    reidx = True
                    subs.add(id(x.value))
        for st in body:
            for x in ast.walk(st):
                if isinstance(x, ast.Name) and x.id == v and isinstance(x.ctx, ast.Load) and id(x) not in subs:
                    whole = True
        if reidx or not whole:
            ident = False
    res.inst({'ecos': 'triple passed unpermuted', 'ok': ident}, ident)
    if not ident:
        res.fail(Finding(RULE, eco.fq, 'ECOS exp-cone rows',
                         'ECOS expects the cone rows in the order (x, y, z) of z exp(x/z) <= y, i.e. the '
                         'ExpConstr triple unpermuted', repo.where(eco), {'props': ['C11']}))
    return res
