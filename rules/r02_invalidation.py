"""R02 cache-invalidation discipline.

Caches and their validity tokens
    lp/socp/gcp/ro/dro Model : (primal, pupdate) (dual, dupdate)     token invalid = True
    dro.Model                : (var_ev_list, is None)                token invalid = None
Declared state (frozen table, validated against the fill functions' reads on every run):
    the containers st() grows, obj, sign, all_constr, obj_support, obj_ambiguity, dec_vars,
    Ambiguity.sup_constr / exp_constr / exp_constr_indices / pro_constr,
    DecVar.event_adapt / rand_adapt / fixed.

T: every method outside __init__ and outside the fill closure that writes declared state
(found by the effect analysis, through `self` or through the typed paths self.model /
self.ambset / self.dro_model / self.dvars) must, on every normal exit, have set every token of
the caches that read that state to "invalid" on the owning model -- or be dominated by a
guard that raises when the cache is already filled.

Plus the fill protocol: ro.Model.do_math / dro.Model.do_math reset the sub-model they re-fill
on every path before asking it for its formula.
"""
import ast

from rsx.access import access
from .common import (AnalysisError, Finding, RuleResult, MustFlow, ntext, walk_no_nested,
                     body_stmts, is_self_attr, call_name, attr_path, self_list_growth)

RULE = 'R02'
TEXT = ('every mutator of declared model state invalidates (pupdate/dupdate := True, '
        'var_ev_list := None) every cache that reads it, on the owning model, on every normal '
        'exit -- or raises when the cache is already filled')

# class -> (owner expression of the model whose caches read the state, {state path: tokens})
PD = ('pupdate', 'dupdate')
LAYER_FIELDS = ['lin_constr', 'pws_constr', 'bounds', 'cvx_constr', 'cone_constr', 'ip_constr',
                'exp_constr', 'other_constr', 'det_constr', 'obj', 'sign']
STATE = {
    'lp.Model':   ('self', {(f,): PD for f in LAYER_FIELDS}),
    'socp.Model': ('self', {(f,): PD for f in LAYER_FIELDS}),
    'gcp.Model':  ('self', {(f,): PD for f in LAYER_FIELDS}),
    'ro.Model':   ('self', {('all_constr',): PD, ('obj',): PD, ('obj_support',): PD, ('sign',): PD}),
    'dro.Model':  ('self', {('all_constr',): PD, ('obj',): PD, ('sign',): PD, ('obj_ambiguity',): PD,
                            ('dec_vars',): PD + ('var_ev_list',)}),
    'dro.Ambiguity': ('self.model', {('sup_constr',): PD, ('exp_constr',): PD,
                                     ('exp_constr_indices',): PD, ('pro_constr',): PD}),
    'lp.Scen': ('self.ambset.model', {('ambset', 'sup_constr'): PD, ('ambset', 'exp_constr'): PD,
                                      ('ambset', 'exp_constr_indices'): PD}),
    'lp.DecVar': ('self.dro_model', {('event_adapt',): PD + ('var_ev_list',),
                                     ('rand_adapt',): PD + ('var_ev_list',),
                                     ('fixed',): PD + ('var_ev_list',)}),
    'lp.DecVarSub': ('self.dro_model', {('rand_adapt',): PD + ('var_ev_list',),
                                        ('fixed',): PD + ('var_ev_list',),
                                        ('dvars', 'rand_adapt'): PD + ('var_ev_list',),
                                        ('dvars', 'fixed'): PD + ('var_ev_list',)}),
}
# reads that prove the state is consumed by a fill function (validation of the table)
FILL = {'lp.Model': ['lp.Model.do_math'], 'socp.Model': ['socp.Model.do_math', 'lp.Model.do_math'],
        'gcp.Model': ['gcp.Model.do_math', 'socp.Model.do_math', 'lp.Model.do_math'],
        'ro.Model': ['ro.Model.do_math'], 'dro.Model': ['dro.Model.do_math', 'dro.Model.rule_var',
                                                       'dro.Model.ro_to_roc', 'dro.Model.dro_to_roc']}
# methods that are part of formulation (they run inside do_math and may write caches/aux state)
CLOSURE = {'do_math', 'rule_var', 'ro_to_roc', 'dro_to_roc', 'solve', 'soc_solve', 'get',
           'mix_support', 'to_affine', '__init__'}
# where each typed path's object comes from: validated by a constructor call site
TYPED_PATHS = {
    ('dro.Ambiguity', 'model'): ('dro.Model.ambiguity', 'Ambiguity(self)'),
    ('lp.Scen', 'ambset'): ('dro.Ambiguity.__init__', 'Scen(self, self.model.series_scen, self.model.p)'),
    ('lp.DecVar', 'dro_model'): ('dro.Model.dvar', 'DecVar(self, dec_var, name=name)'),
}
EXEMPT = {
    ('lp.Model.dvar', 'vars'): 'a new column is unconstrained and absent from the objective until '
                               'a later st/min/max, which does invalidate; column bookkeeping is R15',
}

POSITIVE = '''
class M:
    def st(self, c):
        self.lin_constr.append(c)
        if c.flag:
            self.pupdate = True
            self.dupdate = True
        return c
'''


def _lit(name):
    return ('cl', frozenset({(name, True)}))


def _drop_lit(state, name):
    """forget every clause that mentions the pseudo-literal `name`"""
    return frozenset(f for f in state if not (isinstance(f, tuple) and f and f[0] == 'cl' and
                                              any(a == name for a, _p in f[1])))


def token_ok(state, tok):
    """on every path reaching here: nothing has been written yet, or <owner>.tok was invalidated /
    known to be empty -- also when that is only known as a disjunction after a join"""
    if 'nowrite' in state or ('inv', tok) in state or ('guard', tok) in state:
        return True
    allowed = {('#nowrite', True), ('#ok:' + tok, True)}
    return any(f[1] <= allowed for f in state if isinstance(f, tuple) and f and f[0] == 'cl')


class _InvFlow(MustFlow):
    """facts ('inv', token): <owner>.token set invalid; ('guard', token): passed a raising
    guard on the cache being filled."""

    def __init__(self, repo, cls, owner, depth=0):
        super().__init__()
        self.repo = repo
        self.cls = cls
        self.owner = owner          # expression text of the owning model, e.g. 'self.dro_model'
        self.depth = depth
        self.aliases = {}
        self.unresolved = []
        self.markers = []           # statements that write declared state
        self.method_owner = None    # class defining the method being walked (for super())

    def _owner_of(self, target):
        """Attribute target X.token -> normalised text of X with local aliases resolved."""
        base = target.value
        txt = ntext(base)
        if isinstance(base, ast.Name) and base.id in self.aliases:
            txt = self.aliases[base.id]
        return txt

    def refine(self, test, branch, state):
        # `if <owner>.var_ev_list is not None: raise` -> on the surviving branch the cache is empty
        t = test
        neg = False
        if isinstance(t, ast.UnaryOp) and isinstance(t.op, ast.Not):
            t, neg = t.operand, True
        if isinstance(t, ast.Compare) and len(t.ops) == 1 and isinstance(t.comparators[0], ast.Constant) \
                and t.comparators[0].value is None and isinstance(t.left, ast.Attribute):
            tok = t.left.attr
            own = self._owner_of(t.left)
            if own == self.owner and tok in ('var_ev_list', 'primal', 'dual', 'roaffine'):
                is_none_when_true = isinstance(t.ops[0], ast.Is) != neg
                if (branch and is_none_when_true) or (not branch and not is_none_when_true):
                    # var_ev_list is filled (rule_var) before primal/dual on every path of
                    # dro.Model.do_math -- validated by rule_var_precedes_fill() on every run --
                    # so "var_ev_list is None" implies that no formula has been cached yet
                    tokens = {'var_ev_list': ['var_ev_list', 'pupdate', 'dupdate'],
                              'primal': ['pupdate'], 'dual': ['dupdate'], 'roaffine': []}[tok]
                    for k in tokens:
                        state = state | {('guard', k), _lit('#ok:' + k)}
        return state

    def transfer(self, node, state):
        if any(node is m for m in self.markers):
            state = _drop_lit(state - {'nowrite'}, '#nowrite')
        if isinstance(node, ast.Assign):
            if len(node.targets) == 1 and isinstance(node.targets[0], ast.Name) and \
                    isinstance(node.value, (ast.Attribute, ast.Name)):
                self.aliases[node.targets[0].id] = ntext(node.value)
            for t in node.targets:
                if isinstance(t, ast.Attribute) and t.attr in ('pupdate', 'dupdate', 'var_ev_list'):
                    own = self._owner_of(t)
                    invalid = (isinstance(node.value, ast.Constant) and
                               node.value.value is (None if t.attr == 'var_ev_list' else True))
                    if own == self.owner:
                        if invalid:
                            state = state | {('inv', t.attr), _lit('#ok:' + t.attr)}
                        else:
                            state = _drop_lit(state - {('inv', t.attr)}, '#ok:' + t.attr)
                    else:
                        self.unresolved.append(ntext(node))
        for n in ast.walk(node):
            if isinstance(n, ast.Call) and isinstance(n.func, ast.Attribute) and self.depth < 2 and \
                    ntext(n.func.value) == 'super()' and self.repo is not None and self.method_owner is not None:
                callee = self.repo.resolve_method(self.cls, n.func.attr, after=self.method_owner)
                if callee is not None and callee.name not in CLOSURE:
                    for st in exit_states(self.repo, self.cls, callee, self.owner, (), self.depth + 1):
                        pass
                    facts = exit_facts(self.repo, self.cls, callee, self.owner, self.depth + 1)
                    state = state | frozenset(f for f in facts if f[0] in ('inv', 'guard')) | \
                        frozenset(_lit('#ok:' + f[1]) for f in facts if f[0] in ('inv', 'guard'))
                continue
            if isinstance(n, ast.Call) and isinstance(n.func, ast.Attribute) and self.depth < 2:
                recv = ntext(n.func.value)
                if isinstance(n.func.value, ast.Name) and n.func.value.id in self.aliases:
                    recv = self.aliases[n.func.value.id]
                # a method of the owner (or of self when self is the owner) that invalidates
                if recv == self.owner or (recv == 'self'):
                    target_cls = self._class_of(recv)
                    if target_cls is not None:
                        callee = self.repo.resolve_method(target_cls, n.func.attr)
                        if callee is not None and callee.name not in CLOSURE:
                            sub_owner = 'self' if recv == self.owner else self.owner
                            facts = exit_facts(self.repo, target_cls if recv == self.owner else self.cls,
                                               callee, sub_owner, self.depth + 1)
                            state = state | frozenset(f for f in facts if f[0] in ('inv', 'guard')) | \
                                frozenset(_lit('#ok:' + f[1]) for f in facts if f[0] in ('inv', 'guard')) | \
                        frozenset(_lit('#ok:' + f[1]) for f in facts if f[0] in ('inv', 'guard'))
        return state

    def _class_of(self, recv):
        if recv == 'self':
            return self.cls
        if recv == self.owner and self.cls is not None:
            return OWNER_CLASS.get(self.cls.fq) and self.repo.cls(OWNER_CLASS[self.cls.fq])
        return None


OWNER_CLASS = {'dro.Ambiguity': 'dro.Model', 'lp.Scen': 'dro.Model', 'lp.DecVar': 'dro.Model',
               'lp.DecVarSub': 'dro.Model'}


def exit_states(repo, cls, fi, owner, markers=(), depth=0):
    fl = _InvFlow(repo, cls, owner, depth)
    fl.markers = list(markers)
    fl.method_owner = fi.cls
    o = fl.run(body_stmts(fi), {'nowrite', _lit('#nowrite')})
    exits = [s for s, _ in o.returns] + ([o.normal] if o.normal is not None else [])
    exits = [e for e in exits if e is not None]
    if fl.unresolved and depth == 0:
        raise AnalysisError('%s sets a cache token on an owner the rule cannot resolve: %s'
                            % (fi.fq, fl.unresolved[0]))
    return exits


def exit_facts(repo, cls, fi, owner, depth=0):
    exits = exit_states(repo, cls, fi, owner, (), depth)
    if not exits:
        return frozenset({('inv', t) for t in ('pupdate', 'dupdate', 'var_ev_list')})  # always raises
    out = exits[0]
    for e in exits[1:]:
        out = out & e
    return out


def written_state(repo, cls_fq, fi, paths):
    """declared-state paths written in place / re-bound by fi (through self)."""
    fa = access(repo, fi)
    hit = {}
    for e in fa.effects:
        if e.fresh and not e.kind.startswith(('self-attr-store', 'attr-store')):
            continue
        cands = set()
        if e.kind.startswith('self-attr-store:'):
            cands.add((e.kind.split(':')[1],))
        elif e.kind.startswith('attr-store:'):
            f = e.kind.split(':')[1]
            for o in e.origins:
                if o[0] == 'self':
                    cands.add(tuple(o[1:]) + (f,))
        else:
            for o in e.origins:
                if o[0] == 'self' and len(o) > 1:
                    # strip element steps
                    p = tuple(x for x in o[1:] if x != '[]')
                    for i in range(1, len(p) + 1):
                        cands.add(p[:i])
        for c in cands:
            if c in paths:
                hit.setdefault(c, []).append(e)
    return hit


def validate_tables(repo, res):
    # typed paths
    for (cls_fq, field), (site_fq, call_txt) in TYPED_PATHS.items():
        fi = repo.func(site_fq)
        ok = any(isinstance(n, ast.Call) and ntext(n) == call_txt for n in walk_no_nested(fi.node))
        if not ok:
            # tolerate formatting/argument changes: the constructor must still receive `self` first
            cname = call_txt.split('(')[0]
            ok = any(isinstance(n, ast.Call) and ntext(n.func) == cname and n.args and
                     ntext(n.args[0]) == 'self' for n in walk_no_nested(fi.node))
        if not ok:
            raise AnalysisError('typed path %s.%s: construction site %s no longer passes self'
                                % (cls_fq, field, site_fq))
    # declared state is really read by the fill functions
    for cls_fq, fills in FILL.items():
        reads = set()
        for fq in fills:
            fi = repo.func(fq)
            res.functions.add(fq)
            for n in walk_no_nested(fi.node):
                if is_self_attr(n) and isinstance(n.ctx, ast.Load):
                    reads.add(n.attr)
        own_fields = set()
        for c in repo.mro(repo.cls(cls_fq)):
            init = c.methods.get('__init__')
            if init:
                for n in walk_no_nested(init.node):
                    if isinstance(n, ast.Assign):
                        for t in n.targets:
                            if is_self_attr(t):
                                own_fields.add(t.attr)
        for (p, toks) in STATE[cls_fq][1].items():
            if p[0] in own_fields and p[0] not in reads:
                raise AnalysisError('declared state %s.%s is no longer read by %s'
                                    % (cls_fq, p[0], fills))
        # new list state grown by st() must be in the table
        st = repo.cls(cls_fq).methods.get('st')
        if st is not None:
            for name in self_list_growth(st):
                if (name,) not in STATE[cls_fq][1]:
                    raise AnalysisError('unclassified state: %s.st grows self.%s, which is not in '
                                        'the declared-state table' % (cls_fq, name))


class _RuleVarFirst(MustFlow):
    def __init__(self):
        super().__init__()
        self.bad = []

    def refine(self, test, branch, state):
        return state

    def visit(self, node, state):
        if isinstance(node, ast.Assign):
            for t in node.targets:
                if (is_self_attr(t, 'primal') or is_self_attr(t, 'dual')) and 'rule_var' not in state:
                    self.bad.append(ntext(node))

    def transfer(self, node, state):
        for n in ast.walk(node):
            if isinstance(n, ast.Call) and ntext(n.func) == 'self.rule_var':
                state = state | {'rule_var'}
        return state


def rule_var_precedes_fill(repo):
    fi = repo.func('dro.Model.do_math')
    fl = _RuleVarFirst()
    fl.run(body_stmts(fi))
    if fl.bad:
        raise AnalysisError('dro.Model.do_math can cache a formula (%s) before rule_var() filled '
                            'var_ev_list: the guard implication used by R02 no longer holds'
                            % fl.bad[0])
    # and nothing else assigns dro.Model.primal / dual
    for name, m in repo.cls('dro.Model').methods.items():
        if name in ('__init__', 'do_math'):
            continue
        for n in walk_no_nested(m.node):
            if isinstance(n, ast.Assign) and any(is_self_attr(t, 'primal') or is_self_attr(t, 'dual')
                                                 for t in n.targets):
                raise AnalysisError('dro.Model.%s assigns a formula cache outside do_math' % name)


AMB_FIELDS = ('sup_constr', 'exp_constr', 'exp_constr_indices', 'pro_constr')


def ambiguity_cache(repo, res):
    """Ambiguity.mix_support may return self.mix_model when `not self.update`.  On the pinned tree the
    flag is never cleared, so the lifted model is rebuilt on every formulation and no writer needs to
    set it.  If some statement clears it (`<x>.update = False`), the cache is live, and then every
    function that writes a field of an ambiguity set must set `.update = True` on that set on every
    normal exit -- including the writers that go through a scenario slice (Scen.suppset / exptset)."""
    clears = []
    for fi in repo.all_functions():
        if fi.module in ('deco', 'cpt_solver_bkp') or fi.name == '__init__':
            continue          # (a constructor's stores are initialisation: the object has no cached model yet)
        for n in walk_no_nested(fi.node):
            if isinstance(n, ast.Assign) and any(isinstance(t, ast.Attribute) and t.attr == 'update' for t in n.targets) \
                    and isinstance(n.value, ast.Constant) and n.value.value is False:
                clears.append((fi, n))
    res.inst({'ambiguity cache': 'live' if clears else 'never used (update is never cleared)',
              'cleared_in': [f.fq for f, _ in clears]}, True)
    if not clears:
        return
    for fi in repo.all_functions():
        if fi.module in ('deco', 'cpt_solver_bkp') or fi.name == '__init__':
            continue
        if fi.cls is None or not (fi.cls.name == 'Ambiguity' or fi.cls.name.startswith('Scen')):
            continue          # the fields of an ambiguity set are written by Ambiguity and by its scenario slices
                              # (gcp.Model has an unrelated list called exp_constr)
        writes = []
        for n in walk_no_nested(fi.node):
            tgt = None
            if isinstance(n, ast.Assign):
                for t in n.targets:
                    base = t.value if isinstance(t, ast.Subscript) else t
                    if isinstance(base, ast.Attribute) and base.attr in AMB_FIELDS:
                        tgt = base
            elif isinstance(n, ast.Call) and isinstance(n.func, ast.Attribute) and \
                    n.func.attr in ('append', 'extend', 'insert', 'pop', 'remove', 'clear') and \
                    isinstance(n.func.value, ast.Attribute) and n.func.value.attr in AMB_FIELDS:
                tgt = n.func.value
            if tgt is not None:
                writes.append((n, ntext(tgt.value)))
        if not writes:
            continue
        owners = {o for _n, o in writes}

        class _U(MustFlow):
            def refine(self, test, branch, state):
                return state

            def transfer(self, node, state):
                if isinstance(node, ast.Assign) and isinstance(node.value, ast.Constant) and node.value.value is True:
                    for t in node.targets:
                        if isinstance(t, ast.Attribute) and t.attr == 'update':
                            state = state | {('upd', ntext(t.value))}
                for nn, o in writes:
                    if any(nn is x for x in ast.walk(node)):
                        state = (state - {'nowrite'})
                return state
        o_ = _U().run(body_stmts(fi), {'nowrite'})
        exits = [s_ for s_, _n in o_.returns] + ([o_.normal] if o_.normal is not None else [])
        for own in sorted(owners):
            ok = all(e is None or 'nowrite' in e or ('upd', own) in e for e in exits)
            res.inst({'writer of an ambiguity set': fi.fq, 'set': own, 'sets update': ok}, ok)
            if not ok:
                res.fail(Finding(RULE, fi.fq, 'token:update',
                                 '%s writes a field of the ambiguity set `%s` but does not set %s.update = True on '
                                 'every normal exit, while %s clears the flag: mix_support() then returns the lifted '
                                 'model of the previous declaration (a later exptset/suppset is ignored)'
                                 % (fi.fq, own, own, clears[0][0].fq), repo.where(fi, writes[0][0])))


def run(repo):
    res = RuleResult(RULE, 'cache-invalidation discipline', TEXT)
    res.floor = 25
    validate_tables(repo, res)
    rule_var_precedes_fill(repo)
    ambiguity_cache(repo, res)
    for cls_fq, (owner, paths) in STATE.items():
        cls = repo.cls(cls_fq)
        for name, fi in sorted(cls.methods.items()):
            if name in CLOSURE or fi.absorbed:
                continue          # absorbed: private helper analysed as part of each caller
            hit = written_state(repo, cls_fq, fi, paths)
            if not hit:
                continue
            res.functions.add(fi.fq)
            need = set()
            for p in hit:
                if (fi.fq, p[0]) in EXEMPT:
                    continue
                need |= set(paths[p])
            markers = [e.stmt for es in hit.values() for e in es]
            missing = set()
            for st in exit_states(repo, cls, fi, owner, markers):
                missing |= {t for t in need if not token_ok(st, t)}
            missing = sorted(missing)
            res.inst({'mutator': fi.fq, 'writes': sorted('.'.join(p) for p in hit),
                      'owner': owner, 'needs': sorted(need), 'missing': missing}, not missing)
            for tok in missing:
                res.fail(Finding(RULE, fi.fq, 'token:%s' % tok,
                                 '%s writes declared state (%s) but does not invalidate %s.%s on '
                                 'every normal exit (nor raise when the cache is filled): the next '
                                 'do_math()/solve() returns the program of the previous declaration'
                                 % (fi.fq, ', '.join(sorted('.'.join(p) for p in hit)), owner, tok),
                                 repo.where(fi)))
    # fill protocol
    for fq, sub in (('ro.Model.do_math', 'self.rc_model'), ('dro.Model.do_math', 'self.ro_model')):
        fi = repo.func(fq)
        res.functions.add(fq)
        ok, why = _reset_before_fill(fi, sub)
        res.inst({'fill': fq, 'sub_model': sub, 'reset_before_refill': ok}, ok)
        if not ok:
            res.fail(Finding(RULE, fq, sub + '.reset()', why, repo.where(fi)))
    _positive(repo)
    return res


class _ResetFlow(MustFlow):
    def __init__(self, sub):
        super().__init__()
        self.sub = sub
        self.bad = []

    def refine(self, test, branch, state):
        return state

    def visit(self, node, state):
        for n in ast.walk(node):
            if isinstance(n, ast.Call) and isinstance(n.func, ast.Attribute):
                recv = ntext(n.func.value)
                if recv == self.sub and n.func.attr in ('st', 'min', 'max') and 'reset' not in state:
                    self.bad.append(ntext(n))

    def transfer(self, node, state):
        for n in ast.walk(node):
            if isinstance(n, ast.Call) and ntext(n.func) == self.sub + '.reset':
                state = state | {'reset'}
        return state


def _reset_before_fill(fi, sub):
    fl = _ResetFlow(sub)
    fl.run(body_stmts(fi))
    if fl.bad:
        return False, ('%s re-submits constraints to %s (%s) on a path that has not called '
                       '%s.reset(): the previous expansion is kept and duplicated / mixed with '
                       'the new one' % (fi.fq, sub, fl.bad[0][:60], sub))
    has = any(isinstance(n, ast.Call) and ntext(n.func) == sub + '.reset' for n in walk_no_nested(fi.node))
    if not has:
        return False, '%s never calls %s.reset()' % (fi.fq, sub)
    return True, ''


def _positive(repo):
    from rsx.loader import FuncInfo, ClassInfo
    tree = ast.parse(POSITIVE)
    ci = ClassInfo('lp', tree.body[0])
    fi = FuncInfo('lp', ci, tree.body[0].body[0])
    facts = exit_facts(None, None, fi, 'self', depth=5)
    if ('inv', 'pupdate') in facts:
        raise AnalysisError('R02 self-test: conditional invalidation accepted')

def token_consumers(repo, res, RULE='R38'):
    # (t) a cache token has one consumer.  pupdate / dupdate are cleared by the do_math that refreshes the cache they
    #     guard; a second cache guarded by the same token (a memo in soc_solve, say) misses every invalidation that the
    #     owner has already consumed: change the model, call solve() -- the token is cleared -- and the second cache
    #     is served stale.  So: a function that tests self.<token> also clears it.
    n_tok = 0
    for fi in repo.all_functions():
        if fi.cls is None or fi.module in ('deco', 'cpt_solver_bkp'):
            continue
        for tok in PD:
            tests = []
            for n in walk_no_nested(fi.node):
                if isinstance(n, (ast.If, ast.IfExp, ast.While)):
                    for x in ast.walk(n.test):
                        if isinstance(x, ast.Attribute) and x.attr == tok and isinstance(x.value, ast.Name) and \
                                x.value.id == 'self' and isinstance(x.ctx, ast.Load):
                            tests.append(n)
            if not tests:
                continue
            if fi.name == 'do_math':
                n_tok += 1
                res.inst({'function': fi.fq, 'tests token': tok, 'owner': True}, True)
                continue          # the owner of the token: it refreshes the slot the token guards
            n_tok += 1
            clears = any(isinstance(n, ast.Assign) and any(isinstance(t, ast.Attribute) and t.attr == tok and
                                                            ntext(t.value) == 'self' for t in n.targets)
                         and isinstance(n.value, ast.Constant) and n.value.value is False
                         for n in walk_no_nested(fi.node))
            # a function that only hands out the owner's slots (self.primal / self.dual) is a reader of the owner's
            # cache, not a cache of its own; a second cache shows as a store to some other attribute of self
            own = [n for n in walk_no_nested(fi.node) if isinstance(n, ast.Assign) and any(
                isinstance(t, ast.Attribute) and ntext(t.value) == 'self' and
                t.attr not in ('primal', 'dual', 'pupdate', 'dupdate', 'solution') for t in n.targets)]
            if not clears and not own:
                res.inst({'function': fi.fq, 'tests token': tok, 'keeps_no_cache_of_its_own': True}, True)
                continue
            res.functions.add(fi.fq)
            res.inst({'function': fi.fq, 'tests token': tok, 'also_clears_it': clears}, clears)
            if not clears:
                res.fail(Finding(RULE, fi.fq, 'second consumer of token:' + tok,
                                 '%s decides from self.%s whether a cached object is still valid but never clears the '
                                 'token: the do_math that owns the token clears it, so an invalidation consumed there (a '
                                 'solve() or do_math() after the change) is never seen here and the cached object is '
                                 'served for a model that has changed' % (fi.fq, tok), repo.where(fi, tests[0]),
                                 {'props': ['C09', 'C18']}))
    if n_tok < 4:
        raise AnalysisError('R02(t): only %d token tests found' % n_tok)
