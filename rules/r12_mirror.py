"""R12 comparison mirror and reflected operators (C15; C10 "both directions").

With the abstract interpreter (rsx.sym) on the 1x1 numeric model, for the expression classes
Affine, RoAffine, DecAffine, DecRoAffine and operands a (a number) / y (an expression of the
same kind) / c (a scalar):
    x + a == a + x          a - x == -(x - a)          x * c == c * x
    (x <= y), (y >= x) and (-y <= -x)  build the same constraint (class, coefficients, sense 0)
    (x == y) builds the constraint of x - y with sense 1
The thin wrappers (Vars, VarSub, DecVar, DecVarSub, DecRule, DecRuleSub) are checked
syntactically: each of their arithmetic / comparison operators returns an expression in which
`self` only occurs as self.to_affine() (or delegates to such an operator), so they inherit the
identities above.
"""
import ast

from rsx.sym import Interp, Obj, Raised, Unknown, Opaque
from .common import (AnalysisError, Finding, RuleResult, ntext, walk_no_nested, body_stmts)
from .r11_curvature import World, aff_pair, close

RULE = 'R12'
TEXT = ('x+a = a+x, a-x = -(x-a), x*c = c*x; a <= b, b >= a and -b <= -a are one constraint; an '
        'equality is the sense-1 constraint of the difference; variable wrappers delegate to their '
        'affine form')
P = {'props': ['C15']}
WRAPPERS = ['lp.Vars', 'lp.VarSub', 'lp.DecVar', 'lp.DecVarSub', 'lp.DecRule', 'lp.DecRuleSub']
OPS = ['__add__', '__radd__', '__sub__', '__rsub__', '__mul__', '__rmul__', '__neg__', '__le__', '__ge__', '__eq__']


def value_of(v):
    """canonical numeric value of an affine / bi-affine / constraint model object"""
    if isinstance(v, (int, float)) and not isinstance(v, bool):
        return ('aff', 0.0, float(v))
    if isinstance(v, Obj):
        f = v.fields
        if 'raffine' in f and 'affine' in f and 'sense' in f:
            return ('roconstr', value_of(f['raffine']), value_of(f['affine']), _num(f['sense']),
                    f.get('ctype'))
        if 'raffine' in f and 'affine' in f:
            return ('ro', value_of(f['raffine']), value_of(f['affine']), f.get('ctype'))
        if 'linear' in f and 'const' in f and 'sense' in f:
            return ('lin', float(f['linear']), float(f['const']), _num(f['sense']), f.get('ctype'))
        if 'linear' in f and 'const' in f:
            return ('aff', float(f['linear']), float(f['const']), f.get('ctype'))
    raise Unknown('no canonical value for %r' % (v,))


def _num(s):
    return float(s) if isinstance(s, (int, float)) else s


def same(a, b):
    if isinstance(a, tuple) and isinstance(b, tuple):
        return len(a) == len(b) and all(same(x, y) for x, y in zip(a, b))
    if isinstance(a, float) and isinstance(b, float):
        return abs(a - b) < 1e-9
    return a == b


def make_subjects(repo, front):
    W = World(repo, front)
    I = W.I
    out = []
    x, y = W.affine(0.4, 0.25), W.affine(-0.7, 1.5)
    out.append((x.cls.name, x, y))
    # bi-affine: decision x random
    sup = Obj(repo.cls('lp.Model'), {'mtype': 'S', 'top': W.top, 'last': 2})
    base_cls = repo.cls('lp.Affine')

    def ro(l1, c1, l2, c2):
        raff = I.construct(base_cls, [W.model, l1, c1])
        aff = I.construct(base_cls, [W.model, l2, c2])
        r = I.construct(repo.cls('lp.RoAffine'), [raff, aff, sup])
        if front == 'dro':
            r = I.construct(repo.cls('lp.DecRoAffine'), [r, [[0, 1]], 'R'])
        return r
    rx, ry = ro(0.3, 0.2, 0.4, 0.25), ro(-0.5, 0.1, -0.7, 1.5)
    out.append((rx.cls.name, rx, ry))
    return W, out


def run(repo):
    res = RuleResult(RULE, 'comparison mirror and reflected operators', TEXT)
    res.floor = 40
    fails = {}

    def rec(cname, method, msg):
        fails.setdefault((cname, method), []).append(msg)

    n = 0
    for front in ('ro', 'dro'):
        W, subjects = make_subjects(repo, front)
        I = W.I
        for cname, x, y in subjects:
            for a in (0.5, -1.25):
                try:
                    n += 3
                    if not same(value_of(I.binop(ast.Add(), x, a)), value_of(I.binop(ast.Add(), a, x))):
                        rec(cname, '__radd__', 'a + x differs from x + a (a=%s)' % a)
                    lhs = value_of(I.binop(ast.Sub(), a, x))
                    rhs = value_of(I.call_method(I.binop(ast.Sub(), x, a), '__neg__'))
                    if not same(lhs, rhs):
                        rec(cname, '__rsub__', 'a - x differs from -(x - a) (a=%s): %s vs %s' % (a, lhs, rhs))
                    if not same(value_of(I.binop(ast.Mult(), x, a)), value_of(I.binop(ast.Mult(), a, x))):
                        rec(cname, '__rmul__', 'c * x differs from x * c (c=%s)' % a)
                except Raised as exc:
                    rec(cname, 'arithmetic', 'raises %s for a numeric operand' % exc.exc)
                except Unknown as exc:
                    raise AnalysisError('R12 cannot interpret %s arithmetic: %s' % (cname, exc))
            for other in (y, 0.75):
                try:
                    n += 3
                    c1 = value_of(I.compare(ast.LtE(), x, other))
                    c2 = value_of(I.compare(ast.GtE(), other, x))
                    negx = I.call_method(x, '__neg__')
                    nego = I.call_method(other, '__neg__') if isinstance(other, Obj) else -other
                    c3 = value_of(I.compare(ast.LtE(), nego, negx))
                    if not same(c1, c2):
                        rec(cname, '__ge__', '(x <= b) is %s but (b >= x) is %s' % (c1, c2))
                    if not same(c1, c3):
                        rec(cname, '__le__', '(x <= b) is %s but (-b <= -x) is %s' % (c1, c3))
                    # and it is the constraint of x - b with sense 0
                    d = value_of(I.binop(ast.Sub(), x, other))
                    if c1[0] == 'lin':
                        want = ('lin', d[1], -d[2], 0.0, c1[4])
                    else:
                        want = ('roconstr', d[1], d[2], 0.0, c1[4])
                    if not same(c1, want):
                        rec(cname, '__le__', '(x <= b) encodes %s, expected %s' % (c1, want))
                    e1 = value_of(I.compare(ast.Eq(), x, other))
                    n += 1
                    if e1[0] == 'lin':
                        want = ('lin', d[1], -d[2], 1.0, e1[4])
                    else:
                        want = ('roconstr', d[1], d[2], 1.0, e1[4])
                    if not same(e1, want):
                        rec(cname, '__eq__', '(x == b) encodes %s, expected %s' % (e1, want))
                except Raised as exc:
                    rec(cname, 'comparison', 'raises %s for a legal comparison' % exc.exc)
                except Unknown as exc:
                    raise AnalysisError('R12 cannot interpret %s comparison: %s' % (cname, exc))
    # ---- wrappers delegate
    for cfq in WRAPPERS:
        ci = repo.cls(cfq)
        for op in OPS:
            fi = ci.methods.get(op)
            if fi is None:
                continue
            n += 1
            res.functions.add(fi.fq)
            ok = _delegates(fi)
            if not ok:
                rec(ci.name, op, 'does not delegate to the affine form of self (`%s`)'
                    % '; '.join(ntext(s)[:50] for s in body_stmts(fi))[:120])
    res.obligations = n
    res.discharged = n - sum(len(v) for v in fails.values())
    res.instances = [{'interpreted_and_syntactic_checks': n,
                      'classes': ['Affine', 'RoAffine', 'DecAffine', 'DecRoAffine'] + [w.split('.')[1] for w in WRAPPERS]}]
    res.floor = 1
    if n < 60:
        raise AnalysisError('R12 performed only %d checks' % n)
    for (cname, method), msgs in sorted(fails.items()):
        ci = repo.module('lp').classes.get(cname)
        fi = repo.resolve_method(ci, method) if ci is not None and method.startswith('__') else None
        res.fail(Finding(RULE, fi.fq if fi else 'lp.' + cname, '%s.%s' % (cname, method),
                         '%s: %s' % (cname, msgs[0]), '', P))
    return res


def _delegates(fi):
    """Every return value uses `self` only as the receiver of to_affine() / of another method, as an operand of
    an arithmetic or comparison operator (which dispatches to another of the wrapper's operators, each of them
    checked here), through super(), or builds a Bounds object on the variable's own indices.  A returned local
    is judged through every value it is bound to."""
    rets = [n.value for n in walk_no_nested(fi.node) if isinstance(n, ast.Return) and n.value is not None]
    if not rets:
        return False
    binds = {}
    for n in walk_no_nested(fi.node):
        if isinstance(n, ast.Assign) and len(n.targets) == 1 and isinstance(n.targets[0], ast.Name):
            binds.setdefault(n.targets[0].id, []).append(n.value)

    def ok_value(r, depth=0):
        if depth > 4:
            return False
        if isinstance(r, ast.Constant) and r.value is None:
            return True             # a "not handled here" marker that a caller tests before returning
        if isinstance(r, ast.Name) and r.id in binds:
            return all(ok_value(v, depth + 1) for v in binds[r.id])
        if ntext(r).startswith('Bounds('):
            return True             # numeric right-hand side: a bound object on the variable's own indices
        par = {}
        for n in ast.walk(r):
            for c in ast.iter_child_nodes(n):
                par[id(c)] = n
        selfs = [n for n in ast.walk(r) if isinstance(n, ast.Name) and n.id == 'self']
        supers = [n for n in ast.walk(r) if isinstance(n, ast.Call) and ntext(n.func) == 'super']
        if not selfs and not supers:
            return False
        for n in selfs:
            p = par.get(id(n))
            if isinstance(p, (ast.BinOp, ast.UnaryOp, ast.Compare)):
                continue
            if isinstance(p, ast.Attribute) and isinstance(par.get(id(p)), ast.Call) and par[id(p)].func is p:
                continue        # self.to_affine() / self.__add__(..)
            if isinstance(p, ast.Call) and ntext(p.func) == 'super':
                continue
            return False
        return True
    return all(ok_value(r) for r in rets)
