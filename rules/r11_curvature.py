"""R11 curvature sign calculus.

For every class of the convex families (Convex, PerspConvex, DecConvex, DecPerspConvex,
PiecewiseConvex, ExpPiecewiseConvex) the operator methods of the tree are interpreted
(rsx.sym: abstract interpretation of the method sources on a 1x1 numeric model, following
super() calls, reflected operators and constructor chains) on the complete finite domain

    sign in {-1, +1} (and 0 after scaling by 0)  x  every atom letter the package creates
    x  {neg, add, radd, sub, rsub (affine a: a number and an affine expression),
        mul, rmul (c in {-2, 0, 3})}  x  chains of two such operations,

and compared with the reference algebra of the object's denotation
    F = sign * multiplier^d * f(in) + out              (d = 2 for the letters scaled by |c|**0.5)
        neg : sign -> -sign, out -> -out
        add : out -> out + a            sub: out -> out - a        rsub: neg then add
        mul : sign -> sgn(c) sign, out -> c out, multiplier -> multiplier |c|^(1/d)
    piecewise  F = sign * max_i p_i :  add: p_i -> p_i + sign a,  mul: p_i -> |c| p_i.
Then every comparison spelling (F <= a, F >= a, a <= F, a >= F, F == a; a a number, an affine
expression, a dro affine expression) must raise exactly when the side is non-convex, and
otherwise build the constraint of (lhs - rhs) with the same multiplier / pieces.

Bilinear guards: Affine.__mul__/__matmul__ raise for two operands of the same model type;
DecAffine products with random variables raise when the decision is not `fixed`; DecRule
products go through check_numeric.
"""
import ast

from rsx.sym import Interp, Obj, Raised, Unknown, Opaque
from rsx.ctor import bind_args
from .common import (AnalysisError, Finding, RuleResult, ClassInfo, ntext, walk_no_nested, const_str)
from .r18_evaluators import creation_signs, mul_degrees

RULE = 'R11'
TEXT = ('every operator of every convex-family class transforms (sign, multiplier, in, out / '
        'pieces) as the reference algebra of the denotation requires, on the whole sign domain '
        'and for chains of two operations; every comparison spelling raises exactly for the '
        'non-convex side and otherwise encodes lhs - rhs <= 0; bilinear products raise')
P = {'props': ['C10']}

SAMPLE_CASES = []
LIN0, CONST0 = 0.3, 0.7          # the affine "other" operand  a(x) = 0.3 x + 0.7
OUT0 = 0.37
MULT0 = 1.7
IN = (1.1, 0.2)


class World:
    """Model objects for one front end ('ro' or 'dro')."""

    def __init__(self, repo, front):
        self.repo = repo
        self.I = Interp(repo)
        self.front = front
        lpm = repo.cls('lp.Model')
        if front == 'ro':
            self.top = Obj(repo.cls('ro.Model'), {})
            self.model = Obj(lpm, {'mtype': 'R', 'top': self.top, 'last': 3})
        else:
            self.top = Obj(repo.cls('dro.Model'), {'num_scen': 2})
            self.model = Obj(lpm, {'mtype': 'V', 'top': self.top, 'last': 3})
            self.top.fields['vt_model'] = self.model

    def affine(self, lin, const, ctype='R'):
        a = self.I.construct(self.repo.cls('lp.Affine'), [self.model, lin, const])
        if self.front == 'dro':
            a = self.I.construct(self.repo.cls('lp.DecAffine'), [self.top, a, [[0, 1]], True, ctype])
        return a

    def convex(self, letter, sign, persp=False):
        ain = self.affine(*IN)
        if persp:
            c = self.I.construct(self.repo.cls('lp.PerspConvex'), [ain, 2.5, OUT0, letter, sign, MULT0])
            if self.front == 'dro':
                c = self.I.construct(self.repo.cls('lp.DecPerspConvex'), [c, [[0, 1]]])
            return c
        c = self.I.construct(self.repo.cls('lp.Convex'), [ain, OUT0, letter, sign, MULT0],
                             {'params': 'PARAMS'})
        if self.front == 'dro':
            c = self.I.construct(self.repo.cls('lp.DecConvex'), [c, [[0, 1]]])
        return c

    def piecewise(self, sign, expect=False):
        pieces = [self.affine(0.5, 0.1), self.affine(-0.4, 0.9)]
        cls = 'lp.ExpPiecewiseConvex' if expect else 'lp.PiecewiseConvex'
        return self.I.construct(self.repo.cls(cls), [self.top, pieces, sign, sign])


def aff_pair(v):
    """(linear, const) of a number or an affine model object."""
    if isinstance(v, (int, float)) and not isinstance(v, bool):
        return (0.0, float(v))
    if isinstance(v, Obj) and 'linear' in v.fields and 'const' in v.fields:
        return (float(v.fields['linear']), float(v.fields['const']))
    raise Unknown('not an affine value: %r' % (v,))


def close(a, b):
    return all(abs(x - y) < 1e-9 for x, y in zip(a, b))


def state_of(obj, kind):
    f = obj.fields
    if kind == 'cvx':
        return {'sign': f['sign'], 'mult': f['multiplier'], 'out': aff_pair(f['affine_out']),
                'in': aff_pair(f['affine_in']), 'xtype': f['xtype'], 'params': f.get('params'),
                'scale': f.get('affine_scale')}
    return {'sign': f['sign'], 'pieces': [aff_pair(p) for p in f['pieces']]}


def ref_apply(st, op, val, kind, deg):
    s = dict(st)
    a = aff_pair(val) if val is not None else None
    if op == 'neg':
        s['sign'] = -s['sign']
        if kind == 'cvx':
            s['out'] = (-s['out'][0], -s['out'][1])
        return s
    if op in ('add', 'radd', 'sub', 'rsub'):
        if op == 'rsub':
            s = ref_apply(s, 'neg', None, kind, deg)
        k = -1.0 if op == 'sub' else 1.0
        if kind == 'cvx':
            s['out'] = (s['out'][0] + k * a[0], s['out'][1] + k * a[1])
        else:
            sg = s['sign']
            s['pieces'] = [(p[0] + sg * k * a[0], p[1] + sg * k * a[1]) for p in s['pieces']]
        return s
    if op in ('mul', 'rmul'):
        c = float(val)
        sg = (c > 0) - (c < 0)
        if kind != 'cvx' and c == 0:
            sg = 1       # sign * max(0, .., 0) represents zero for either sign; 0 would swallow later terms
        s['sign'] = s['sign'] * sg
        if kind == 'cvx':
            s['out'] = (c * s['out'][0], c * s['out'][1])
            s['mult'] = s['mult'] * abs(c) ** (1.0 / deg)
        else:
            s['pieces'] = [(abs(c) * p[0], abs(c) * p[1]) for p in s['pieces']]
        return s
    raise AssertionError(op)


def same_state(a, b, kind):
    if a['sign'] != b['sign']:
        return 'sign is %s, the algebra requires %s' % (a['sign'], b['sign'])
    if kind == 'cvx':
        if abs(a['mult'] - b['mult']) > 1e-9:
            return 'multiplier is %.4g, the algebra requires %.4g' % (a['mult'], b['mult'])
        if not close(a['out'], b['out']):
            return 'affine_out is %s, the algebra requires %s' % (a['out'], b['out'])
        if not close(a['in'], b['in']):
            return 'affine_in changed to %s' % (a['in'],)
        if a['xtype'] != b['xtype'] or a['params'] != b['params'] or a['scale'] != b['scale']:
            return 'xtype / params / scale changed'
    else:
        if len(a['pieces']) != len(b['pieces']) or not all(close(x, y) for x, y in zip(a['pieces'], b['pieces'])):
            return 'pieces are %s, the algebra requires %s' % (a['pieces'], b['pieces'])
    return ''


def do_op(W, obj, op, val):
    I = W.I
    if op == 'neg':
        return I.eval_unary(obj) if hasattr(I, 'eval_unary') else I.call_method(obj, '__neg__')
    o = {'add': ast.Add(), 'radd': ast.Add(), 'sub': ast.Sub(), 'rsub': ast.Sub(),
         'mul': ast.Mult(), 'rmul': ast.Mult()}[op]
    if op in ('radd', 'rsub', 'rmul'):
        return I.binop(o, val, obj)
    return I.binop(o, obj, val)


def run(repo):
    res = RuleResult(RULE, 'curvature sign calculus', TEXT)
    res.floor = 400
    s0 = creation_signs(repo)
    deg = mul_degrees(repo)
    letters = sorted(s0)
    if len(letters) < 12:
        raise AnalysisError('only %d atom letters found' % len(letters))
    failures = {}

    def record(cls_name, method, desc, msg):
        key = (cls_name, method)
        failures.setdefault(key, []).append('%s: %s' % (desc, msg))

    n_checks = 0
    for front in ('ro', 'dro'):
        W = World(repo, front)
        others = [0.5, W.affine(LIN0, CONST0)]
        ops = [('neg', None)] + [(o, a) for o in ('add', 'radd', 'sub', 'rsub') for a in others] + \
              [(o, c) for o in ('mul', 'rmul') for c in (-2.0, 0.0, 3.0)]
        subjects = []
        for letter in letters:
            for sign in (1, -1):
                subjects.append(('cvx', letter, sign, False))
        for letter in ('X', 'L'):
            for sign in (1, -1):
                subjects.append(('cvx', letter, sign, True))
        for sign in (1, -1):
            subjects.append(('pw', None, sign, False))
            if front == 'dro':
                subjects.append(('pw', None, sign, True))
        for kind, letter, sign, flag in subjects:
            d = deg.get(letter, 1) if kind == 'cvx' else 1

            def make():
                return W.convex(letter, sign, persp=flag) if kind == 'cvx' else W.piecewise(sign, expect=flag)
            try:
                base = make()
            except (Unknown, Raised) as exc:
                raise AnalysisError('cannot build the model object %s/%s/%s: %r' % (kind, letter, sign, exc))
            cname = base.cls.name
            deep = kind == 'pw' or letter in ('A', 'S', 'X', 'L', 'P')
            for op1, v1 in ops:
                chain2 = ops if deep else [None]
                for second in chain2:
                    obj = make()
                    ref = state_of(obj, kind)
                    seq = [(op1, v1)] + ([second] if second else [])
                    desc = '%s%s sign=%+d %s' % (cname, '/' + letter if letter else '', sign,
                                                 ' then '.join(_opname(o, v) for o, v in seq))
                    if len(SAMPLE_CASES) < 6 and second is not None and n_checks % 97 == 0:
                        SAMPLE_CASES.append(front + ': ' + desc + ' ; then every comparison spelling')
                    try:
                        for op, v in seq:
                            method = '__%s__' % op
                            obj = do_op(W, obj, op, v)
                            ref = ref_apply(ref, op, v, kind, d)
                            if not isinstance(obj, Obj) or obj.cls is not base.cls:
                                record(cname, method, desc, 'returns %r instead of a %s'
                                       % (obj.cls.name if isinstance(obj, Obj) else obj, cname))
                                break
                            msg = same_state(state_of(obj, kind), ref, kind)
                            n_checks += 1
                            if msg:
                                record(cname, method, desc, msg)
                                break
                    except Raised as exc:
                        record(cname, '__%s__' % seq[-1][0], desc, 'raises %s for a legal operand' % exc.exc)
                        continue
                    except Unknown as exc:
                        raise AnalysisError('R11 cannot interpret %s: %s' % (desc, exc))
                    if second is not None and second[0] != 'neg':
                        continue          # comparisons after every single op and after (op, neg)
                    # ---- comparisons on the resulting object
                    n_checks += _comparisons(W, obj, ref, kind, cname, desc, record, front)
        # bilinear guards
        n_checks += _bilinear(W, repo, record, front)

    n_checks += _setter_curvature(repo, record)
    res.obligations = n_checks
    res.discharged = n_checks - sum(len(v) for v in failures.values())
    res.instances = [{'interpreted_checks': n_checks, 'letters': letters,
                      'classes': ['Convex', 'PerspConvex', 'DecConvex', 'DecPerspConvex',
                                  'PiecewiseConvex', 'ExpPiecewiseConvex'],
                      'domain': 'sign {-1,+1} (0 via *0) x 15 operations x chains of 2 x 5 comparison '
                                'spellings x operand kinds {number, affine}'}] * 1
    res.instances += [{'sample_case': d} for d in SAMPLE_CASES[:6]]
    res.floor = 1
    if n_checks < 400:
        raise AnalysisError('R11 interpreted only %d checks' % n_checks)
    for (cname, method), msgs in sorted(failures.items()):
        owner = _owner(repo, cname, method)
        res.fail(Finding(RULE, owner, '%s.%s' % (cname, method),
                         '%s receivers: %d interpreted cases disagree with the curvature algebra, e.g. %s'
                         % (cname, len(msgs), msgs[0]), '', P))
    return res


def _opname(o, v):
    if v is None:
        return o
    return '%s(%s)' % (o, 'affine' if isinstance(v, Obj) else v)


def _owner(repo, cname, method):
    if '(' in cname:
        return '%s.Model.%s' % (cname[cname.index('(') + 1:-1], method)
    ci = repo.module('lp').classes.get(cname)
    if ci is None:
        return 'lp.' + cname
    fi = repo.resolve_method(ci, method)
    return fi.fq if fi is not None else ci.fq


def _comparisons(W, obj, ref, kind, cname, desc, record, front):
    I = W.I
    n = 0
    sign = ref['sign']
    others = [1.5, W.affine(LIN0, CONST0)]
    for other in others:
        a = aff_pair(other)
        for spelling in ('F<=a', 'F>=a', 'a<=F', 'a>=F', 'F==a'):
            n += 1
            d2 = '%s ; %s with a=%s' % (desc, spelling, 'affine' if isinstance(other, Obj) else other)
            # F <= a  and  a >= F  need F convex (sign != -1); F >= a and a <= F need F concave
            need_convex = spelling in ('F<=a', 'a>=F')
            if spelling == 'F==a':
                should_raise = True
            else:
                should_raise = (sign == -1) if need_convex else (sign == 1)
            method = {'F<=a': '__le__', 'F>=a': '__ge__', 'a<=F': '__ge__', 'a>=F': '__le__', 'F==a': '__eq__'}[spelling]
            try:
                if spelling == 'F<=a':
                    r = I.compare(ast.LtE(), obj, other)
                elif spelling == 'F>=a':
                    r = I.compare(ast.GtE(), obj, other)
                elif spelling == 'a<=F':
                    r = I.compare(ast.LtE(), other, obj)
                elif spelling == 'a>=F':
                    r = I.compare(ast.GtE(), other, obj)
                else:
                    r = I.compare(ast.Eq(), obj, other)
                raised = False
            except Raised:
                raised = True
                r = None
            except Unknown as exc:
                raise AnalysisError('R11 cannot interpret %s: %s' % (d2, exc))
            who = cname if spelling[0] == 'F' else (other.cls.name if isinstance(other, Obj) else cname)
            meth = method if spelling[0] == 'F' else {'a<=F': '__le__', 'a>=F': '__ge__'}[spelling]
            if spelling[0] != 'F' and not isinstance(other, Obj):
                who, meth = cname, method     # reflected by python to the family object
            if should_raise and not raised:
                if spelling == 'F==a' and (r is False or r is None):
                    continue      # no constraint object is produced (st() then rejects it): acceptable
                record(who, meth, d2, 'is accepted (returns %s) although that side is non-convex; '
                       'it must raise' % (r.cls.name if isinstance(r, Obj) else r))
                continue
            if not should_raise and raised:
                record(who, meth, d2, 'raises although the constraint is convex')
                continue
            if raised:
                continue
            if not isinstance(r, Obj):
                record(who, meth, d2, 'returns %r, not a constraint object' % (r,))
                continue
            # constraint encodes lhs - rhs <= 0
            k = 1.0 if need_convex else -1.0
            if kind == 'cvx':
                want_out = (k * ref['out'][0] - k * a[0], k * ref['out'][1] - k * a[1])
                try:
                    got_out = aff_pair(r.fields['affine_out'])
                    got_mult = r.fields['multiplier']
                except (KeyError, Unknown):
                    record(who, meth, d2, 'builds a %s without affine_out / multiplier' % r.cls.name)
                    continue
                if not close(got_out, want_out) or abs(got_mult - ref['mult']) > 1e-9 or \
                        r.fields.get('xtype') != ref['xtype']:
                    record(who, meth, d2, 'encodes out=%s mult=%.4g, expected out=%s mult=%.4g'
                           % (got_out, got_mult, want_out, ref['mult']))
            else:
                pieces = r.fields.get('pieces')
                if not isinstance(pieces, list) or len(pieces) != len(ref['pieces']):
                    record(who, meth, d2, 'builds %s without the pieces' % r.cls.name)
                    continue
                eff = sign * k          # +1 on the accepted side (or 0)
                for pc, rp in zip(pieces, ref['pieces']):
                    # piece <= 0 as a linear constraint  linear x <= const  (const = -const_part)
                    if not isinstance(pc, Obj):
                        record(who, meth, d2, 'piece is %r' % (pc,))
                        break
                    if 'linear' in pc.fields and 'const' in pc.fields:
                        got = (float(pc.fields['linear']), -float(pc.fields['const']))
                    else:
                        break
                    # k (sign max(p) - a) <= 0 with k sign = +1  <=>  max_i (p_i - k a) <= 0
                    want = (rp[0] - k * a[0], rp[1] - k * a[1])
                    if not close(got, want):
                        record(who, meth, d2, 'piece encodes %s <= 0, expected %s <= 0' % (got, want))
                        break
    return n


def _bilinear(W, repo, record, front):
    I = W.I
    n = 0
    x, y = W.affine(0.4, 0.0), W.affine(0.9, 0.1)
    for op, nm in ((ast.Mult(), '__mul__'), (ast.MatMult(), '__matmul__')):
        n += 1
        try:
            r = I.binop(op, x, y)
            record(x.cls.name, nm, 'decision expression %s decision expression' % nm,
                   'product of two expressions of the same model type is accepted (returns %s); '
                   'it must raise' % (r.cls.name if isinstance(r, Obj) else r))
        except Raised:
            pass
        except Unknown as exc:
            raise AnalysisError('R11 bilinear guard: %s' % exc)
    if front == 'dro':
        # affinely adaptive decision (fixed=False) times a random variable must raise
        sup = Obj(repo.cls('lp.Model'), {'mtype': 'S', 'top': W.top, 'last': 2,
                                         'vars': [Obj(repo.cls('lp.Vars'), {'last': 2})]})
        z = I.construct(repo.cls('lp.Affine'), [sup, 1.0, 0.0])
        base = I.construct(repo.cls('lp.Affine'), [W.model, 0.4, 0.0])
        xa = I.construct(repo.cls('lp.DecAffine'), [W.top, base, [[0, 1]], False, 'R'])
        for nm in ('__mul__', '__matmul__', '__rmatmul__'):
            fi = repo.resolve_method(xa.cls, nm)
            n += 1
            # path form: every construction of the bi-affine result DecRoAffine(..) in the method is
            # reached only past a raising test of `not self.fixed`
            from rsx.flow import MustFlow, holds
            from rsx.loader import body_stmts

            class _G(MustFlow):
                def __init__(self):
                    super().__init__()
                    self.sites = []

                def visit(self, node, state):
                    for c in ast.walk(node):
                        if isinstance(c, ast.Call) and isinstance(c.func, ast.Name) and c.func.id == 'DecRoAffine':
                            self.sites.append(holds(state, 'self.fixed'))
            g = _G()
            g.run(body_stmts(fi))
            if not g.sites:
                raise AnalysisError('R11: %s no longer constructs DecRoAffine(..): bi-affine branch not found' % fi.fq)
            ok = all(g.sites)
            if not ok:
                record('DecAffine', nm, 'adaptive decision x random variable',
                       'the bi-affine result is returned without `if not self.fixed: raise`')
        fi = repo.func('lp.Affine.__matmul__')
        n += 1

        class _G2(MustFlow):
            def __init__(self):
                super().__init__()
                self.sites = []

            def visit(self, node, state):
                for c in ast.walk(node):
                    if isinstance(c, ast.Call) and isinstance(c.func, ast.Name) and c.func.id == 'DecRoAffine':
                        self.sites.append(holds(state, '%s.fixed' % fi.params[1]))
        g2 = _G2()
        g2.run(body_stmts(fi))
        if not g2.sites:
            raise AnalysisError('R11: lp.Affine.__matmul__ no longer constructs DecRoAffine(..)')
        if not all(g2.sites):
            record('Affine', '__matmul__', 'random @ adaptive decision',
                   'a DecRoAffine is built from an operand that is not known to be fixed (guard `not other.fixed` -> raise is gone)')
    else:
        for cname in ('DecRule', 'DecRuleSub'):
            ci = repo.cls('lp.' + cname)
            for nm in ('__mul__', '__rmul__', '__matmul__', '__rmatmul__'):
                n += 1
                fi = ci.methods.get(nm)
                first = None
                if fi is not None:
                    from rsx.loader import body_stmts
                    b = body_stmts(fi)
                    first = ntext(b[0]) if b else ''
                if first != 'check_numeric(other)':
                    record(cname, nm, 'decision rule times a non-numeric operand',
                           'does not start with check_numeric(other)')
    return n


SETTERS = ['lp.Model.min', 'lp.Model.max', 'ro.Model.min', 'ro.Model.max', 'ro.Model.minmax',
           'ro.Model.maxmin', 'dro.Model.min', 'dro.Model.max', 'dro.Model.minsup', 'dro.Model.maxinf']


def _setter_curvature(repo, record):
    """Timing clause: every objective setter stores self.obj only past a guard that raises for
    the wrong curvature sign (-1 for min*, +1 for max*)."""
    from rsx.flow import MustFlow
    from rsx.loader import body_stmts, is_self_attr
    n = 0
    for fq in SETTERS:
        fi = repo.func(fq)
        want = -1 if fi.name.startswith('min') else 1
        par = fi.params[1]

        class _F(MustFlow):
            def __init__(self):
                super().__init__()
                self.stores = []

            def visit(self, node, state):
                if isinstance(node, ast.Assign) and any(is_self_attr(t, 'obj') for t in node.targets):
                    # some known clause says: not (obj.sign == want [and isinstance(obj, ..)])
                    from rsx.flow import clauses_of
                    atom = '%s.sign == %d' % (par, want)
                    ok = False
                    for c in clauses_of(state):
                        if (atom, False) in c and all(
                                pol is False and (a == atom or a.startswith('isinstance(%s,' % par))
                                for a, pol in c):
                            ok = True
                    self.stores.append(ok)
        fl = _F()
        fl.run(body_stmts(fi))
        n += 1
        if not fl.stores:
            raise AnalysisError('%s: store of self.obj not found' % fq)
        if not all(fl.stores):
            record(fi.cls.name + '(' + fi.module + ')', fi.name, 'objective hand-over',
                   '%s stores the objective without having rejected curvature sign %+d: a %s objective is '
                   'accepted by %s() and only fails later, in do_math()'
                   % (fq, want, 'concave' if want == -1 else 'convex', fi.name))
    return n


def _piecewise_add_sign(repo, res):
    from rsx.webs import reaching_values
    from .common import expand_locals, single_defs
    n_sites = 0
    for fq in ('lp.PiecewiseConvex.__add__',):
        fi = repo.func(fq)
        res.functions.add(fq)
        reach = reaching_values(fi.node)
        sdefs = single_defs(fi.node)
        comps = [n for n in walk_no_nested(fi.node) if isinstance(n, ast.ListComp) and len(n.generators) == 1 and
                 ntext(n.generators[0].iter) == 'self.pieces' and isinstance(n.elt, ast.BinOp) and
                 isinstance(n.elt.op, ast.Add)]
        if len(comps) != 1:
            raise AnalysisError('%s: the sum [piece + <term> for piece in self.pieces] was not found' % fq)
        pv = comps[0].generators[0].target.id if isinstance(comps[0].generators[0].target, ast.Name) else None
        elt = comps[0].elt
        term = elt.right if isinstance(elt.left, ast.Name) and elt.left.id == pv else \
            elt.left if isinstance(elt.right, ast.Name) and elt.right.id == pv else None
        if term is None:
            raise AnalysisError('%s: `%s` is not piece + <term>' % (fq, ntext(elt)[:40]))

        def has_sign(e):
            return any(isinstance(x, ast.Attribute) and x.attr == 'sign' and ntext(x.value) == 'self' for x in ast.walk(e))
        cases = []
        if isinstance(term, ast.Name):
            vals = reach.get(id(term))
            if not vals or any(v is None for v in vals):
                raise AnalysisError('%s: the definitions of the added term `%s` are not followed' % (fq, term.id))
            cases = [expand_locals(fi.node, v, defs=sdefs) for v in vals]
        else:
            cases = [expand_locals(fi.node, term, defs=sdefs)]
        for c in cases:
            n_sites += 1
            ok = has_sign(c)
            res.inst({'function': fq, 'added term': ntext(c)[:50], 'carries_self.sign': ok}, ok)
            if not ok:
                res.fail(Finding('R37', fq, 'added term without the sign factor',
                                 '%s adds `%s` to every piece on some path: the pieces are stored multiplied by self.sign, '
                                 'so for a concave function (sign -1) the term enters with the wrong sign and the accepted '
                                 'constraint is not the one written' % (fq, ntext(c)[:50]), repo.where(fi, comps[0]),
                                 {'props': ['C10', 'C01']}))
    if n_sites < 1:
        raise AnalysisError('R37: no added term found')
