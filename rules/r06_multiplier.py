"""R06 multiplier law in the lowering branches (C06, C12).

Scaling a convex atom by c stores |c| (or |c|**0.5 for the quadratic letters) in `multiplier`
(Convex.__mul__).  Every lowering branch of every layer must spend that multiplier exactly
once, in a form that is valid for the letter:
    'in'   affine_in * multiplier        -- only for positively homogeneous atoms (A M I E G) and,
                                            with the square-root multiplier, for the quadratic S Q
    'out'  affine_out * (1 / multiplier) -- always valid (m f(x) + out <= 0  <=>  f(x) + out/m <= 0)
    'aux'  aux * multiplier + affine_out -- epigraph variable scaled (geometric mean C)
A branch that never reads the multiplier compiles 3*f(x) <= t as f(x) <= t.
"""
import ast

from rsx.dispatch import chain_tests
from .common import (AnalysisError, Finding, RuleResult, ntext, walk_no_nested, const_str)
from .r18_evaluators import mul_degrees

RULE = 'R06'
TEXT = ('every lowering branch uses constr.multiplier exactly once, as input scaling only for '
        'homogeneous / quadratic letters, else as output or epigraph scaling')
P = {'props': ['C06', 'C12']}
HOMOGENEOUS = set('AMIEG') | set('SQ')


def letter_branches(fi):
    """[(letter, body, node)] for every `constr.xtype == 'X'` / `in 'XY'` test in loops of fi."""
    out = []
    for n in walk_no_nested(fi.node):
        if isinstance(n, ast.If) and isinstance(n.test, ast.Compare) and \
                isinstance(n.test.left, ast.Attribute) and n.test.left.attr == 'xtype':
            c = const_str(n.test.comparators[0])
            if c is None:
                continue
            letters = list(c) if isinstance(n.test.ops[0], ast.In) else [c]
            # only lowering branches: inside a for loop of do_math, and not the st()-like routing
            out.append((letters, n.body, n))
    return out


def classify(body):
    mod = ast.Module(body=body, type_ignores=[])
    par = {}
    for n in ast.walk(mod):
        for c in ast.iter_child_nodes(n):
            par[id(c)] = n
    uses = []
    for n in ast.walk(mod):
        if isinstance(n, ast.Attribute) and n.attr == 'multiplier':
            p = par.get(id(n))
            kind = 'other'
            if isinstance(p, ast.BinOp) and isinstance(p.op, ast.Mult):
                sib = p.left if p.right is n else p.right
                st = ntext(sib)
                if 'affine_in' in st:
                    kind = 'in'
                elif 'aux' in st:
                    kind = 'aux'
            elif isinstance(p, ast.BinOp) and isinstance(p.op, ast.Div) and p.right is n:
                gp = par.get(id(p))
                if isinstance(gp, ast.BinOp) and isinstance(gp.op, ast.Mult):
                    sib = gp.left if gp.right is p else gp.right
                    if 'affine_out' in ntext(sib):
                        kind = 'out'
            uses.append(kind)
    return uses


def run(repo):
    res = RuleResult(RULE, 'multiplier law in lowering', TEXT)
    res.floor = 18
    mul_degrees(repo)       # validates that Convex.__mul__ still has its two homogeneity classes
    n = 0
    for fq in ('lp.Model.do_math', 'socp.Model.do_math', 'gcp.Model.do_math'):
        fi = repo.func(fq)
        res.functions.add(fq)
        for letters, body, node in letter_branches(fi):
            # skip the objective routing tests (their bodies only append to a list)
            txt = ' '.join(ntext(s) for s in body)
            if all(isinstance(s, ast.Expr) and '.append(' in ntext(s) for s in body) and 'dvar' not in txt \
                    and 'affine' not in txt:
                continue
            uses = classify(body)
            for letter in letters:
                n += 1
                probs = []
                if len(uses) == 0:
                    probs.append('never reads constr.multiplier: a scaled atom is compiled unscaled')
                elif len(uses) > 1:
                    probs.append('reads constr.multiplier %d times (%s): the scale is applied more than once'
                                 % (len(uses), uses))
                else:
                    k = uses[0]
                    if k == 'other':
                        raise AnalysisError('%s, branch %s: constr.multiplier is used in a form the rule '
                                            'does not interpret' % (fq, letter))
                    if k == 'in' and letter not in HOMOGENEOUS:
                        probs.append('scales the argument by the multiplier, which is only valid for '
                                     'positively homogeneous atoms, not for %s' % letter)
                ok = not probs
                res.inst({'layer': fq, 'letter': letter, 'multiplier_use': uses, 'ok': ok}, ok)
                for pr in probs:
                    res.fail(Finding(RULE, fq, 'branch %s: %s' % (letter, pr[:40]),
                                     '%s, lowering branch for atom %s: %s' % (fq, letter, pr),
                                     repo.where(fi, node), P))
    if n < 18:
        raise AnalysisError('only %d lowering branches found' % n)
    return res
