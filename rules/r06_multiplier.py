"""R06 multiplier law in the lowering branches (C06, C12).

Scaling a convex atom by c stores |c| (or |c|**0.5 for the quadratic letters) in `multiplier`
(Convex.__mul__).  Every lowering branch of every layer must spend that multiplier exactly
once, in a form that is valid for the letter:
    'in'   affine_in * multiplier        -- only for positively homogeneous atoms (A M I E G) and,
                                            with the square-root multiplier, for the quadratic S Q
    'out'  affine_out * (1 / multiplier) -- always valid (m f(x) + out <= 0  <=>  f(x) + out/m <= 0)
    'aux'  aux * multiplier + affine_out -- epigraph variable scaled (geometric mean C)
A branch that never reads the multiplier compiles 3*f(x) <= t as f(x) <= t.
"""
import ast

from rsx.dispatch import chain_tests
from .common import (AnalysisError, Finding, RuleResult, ntext, walk_no_nested, const_str, expand_block_locals)
from .r18_evaluators import mul_degrees

RULE = 'R06'
TEXT = ('every lowering branch uses constr.multiplier exactly once, as input scaling only for '
        'homogeneous / quadratic letters, else as output or epigraph scaling')
P = {'props': ['C06', 'C12', 'C07']}
HOMOGENEOUS = set('AMIEG') | set('SQ')


def const_letters(node, is_in):
    """letters of a constant operand of  xtype == 'X' / xtype in 'XY' / xtype in ('X', 'Y')"""
    c = const_str(node)
    if c is not None:
        return list(c) if is_in else [c]
    if isinstance(node, (ast.Tuple, ast.List, ast.Set)) and is_in:
        out = [const_str(e) for e in node.elts]
        if all(o is not None for o in out):
            return out
    return None


def _xtype_test(test):
    """-> (letters, negated) for a test on <x>.xtype, else None"""
    if isinstance(test, ast.UnaryOp) and isinstance(test.op, ast.Not):
        r = _xtype_test(test.operand)
        return None if r is None else (r[0], not r[1])
    if isinstance(test, ast.Compare) and len(test.ops) == 1 and \
            isinstance(test.left, ast.Attribute) and test.left.attr == 'xtype':
        op = test.ops[0]
        if isinstance(op, (ast.Eq, ast.In, ast.NotEq, ast.NotIn)):
            ls = const_letters(test.comparators[0], isinstance(op, (ast.In, ast.NotIn)))
            if ls is not None:
                return ls, isinstance(op, (ast.NotEq, ast.NotIn))
    return None


def _leaves_block(stmts):
    return bool(stmts) and isinstance(stmts[-1], (ast.Continue, ast.Raise, ast.Return, ast.Break))


def _used_prelude(prelude, body):
    """the prelude assignments (transitively) read by `body`, in order"""
    need = {n.id for s in body for n in ast.walk(s) if isinstance(n, ast.Name) and isinstance(n.ctx, ast.Load)}
    keep = []
    for st in reversed(prelude):
        tgt = st.targets[0].id
        if tgt in need:
            keep.append(st)
            need |= {n.id for n in ast.walk(st.value) if isinstance(n, ast.Name)}
    return list(reversed(keep))


def letter_branches(fi):
    """[(letters, statements, node)] for every arm of a chain of tests on `constr.xtype` in fi.
    The statements are the arm's body preceded by the assignments of the enclosing block(s) it
    reads (a scaling hoisted above the chain belongs to every arm); a final `else` arm gets the
    letters admitted by a preceding `if constr.xtype not in ..: continue` guard that the tested
    arms left over."""
    out = []

    def block(stmts, prelude, admitted):
        prelude = list(prelude)
        for st in stmts:
            if isinstance(st, ast.Assign) and len(st.targets) == 1 and isinstance(st.targets[0], ast.Name):
                prelude.append(st)
                continue
            if isinstance(st, ast.If):
                t = _xtype_test(st.test)
                if t is not None and t[1] and _leaves_block(st.body) and not st.orelse:
                    admitted = set(t[0])            # guard: everything else leaves the block
                    continue
                if t is not None:
                    chain(st, prelude, admitted)
                    continue
            if isinstance(st, (ast.FunctionDef, ast.AsyncFunctionDef, ast.ClassDef)):
                continue
            inner_adm = None if isinstance(st, (ast.For, ast.While)) else admitted
            inner_pre = [] if isinstance(st, (ast.For, ast.While)) else prelude
            for fld in ('body', 'orelse', 'finalbody'):
                sub = getattr(st, fld, None)
                if isinstance(sub, list):
                    block(sub, inner_pre, inner_adm)
            for h in getattr(st, 'handlers', []):
                block(h.body, inner_pre, inner_adm)

    def chain(node, prelude, admitted):
        seen = set()
        cur = node
        while True:
            t = _xtype_test(cur.test)
            if t is None:
                # a nested, different test: analyse its blocks on their own
                block([cur], prelude, admitted) if cur is not node else None
                return
            letters, neg = t
            if neg:
                if admitted is None:
                    return
                letters = sorted(admitted - set(letters) - seen)
            out.append((letters, cur.body, cur, _used_prelude(prelude, cur.body)))
            # (a test on the same letter nested inside an arm refines that arm; it is not a branch of its own)
            seen |= set(letters)
            if len(cur.orelse) == 1 and isinstance(cur.orelse[0], ast.If):
                cur = cur.orelse[0]
                continue
            if cur.orelse:
                if admitted is not None and not _leaves_block(cur.orelse):
                    rest = sorted(admitted - seen)
                    if rest:
                        out.append((rest, cur.orelse, cur, _used_prelude(prelude, cur.orelse)))
            return

    block(fi.node.body, [], None)
    return out


def _power_params(body):
    """in the power-atom branch: the per-entry names of (p, q):  p, q = constr.params ; bd = np.broadcast(.., p, q) ;
    for .. (idx, item_p, item_q) in enumerate(zip(*bd.iters))  ->  ('item_p', 'item_q'); or ('p', 'q') if scalars"""
    pq = None
    for st in body:
        for n in ast.walk(st):
            if isinstance(n, ast.Assign) and isinstance(n.targets[0], ast.Tuple) and len(n.targets[0].elts) == 2 \
                    and ntext(n.value).endswith('.params') and all(isinstance(e, ast.Name) for e in n.targets[0].elts):
                pq = (n.targets[0].elts[0].id, n.targets[0].elts[1].id)
    if pq is None:
        return None
    for st in body:
        for n in ast.walk(st):
            if isinstance(n, ast.Call) and ntext(n.func) in ('np.broadcast', 'numpy.broadcast'):
                args = [ntext(a) for a in n.args]
                if pq[0] in args and pq[1] in args:
                    ip, iq = args.index(pq[0]), args.index(pq[1])
                    for m in ast.walk(st.__class__ and ast.Module(body=body, type_ignores=[])):
                        if isinstance(m, ast.For):
                            names = [x.id for x in ast.walk(m.target) if isinstance(x, ast.Name)]
                            flat = None
                            for t in ast.walk(m.target):
                                if isinstance(t, ast.Tuple) and len(t.elts) == len(args) and \
                                        all(isinstance(e, ast.Name) for e in t.elts):
                                    flat = [e.id for e in t.elts]
                            if flat is not None:
                                return (flat[ip], flat[iq])
    return pq


def classify(body):
    mod = ast.Module(body=body, type_ignores=[])
    par = {}
    for n in ast.walk(mod):
        for c in ast.iter_child_nodes(n):
            par[id(c)] = n
    uses = []
    for n in ast.walk(mod):
        if isinstance(n, ast.Attribute) and n.attr == 'multiplier':
            p = par.get(id(n))
            kind = 'other'
            if isinstance(p, ast.BinOp) and isinstance(p.op, ast.Mult):
                sib = p.left if p.right is n else p.right
                st = ntext(sib)
                if 'affine_in' in st:
                    kind = 'in'
                elif 'aux' in st:
                    kind = 'aux'
            elif isinstance(p, ast.BinOp) and isinstance(p.op, ast.Pow) and p.left is n:
                # multiplier ** e: scaling of the argument by a power of the multiplier (valid iff e * degree == 1)
                kind = 'inpow:' + ntext(p.right)
            elif isinstance(p, ast.BinOp) and isinstance(p.op, ast.Div) and p.right is n:
                gp = par.get(id(p))
                if isinstance(gp, ast.BinOp) and isinstance(gp.op, ast.Mult):
                    sib = gp.left if gp.right is p else gp.right
                    if 'affine_out' in ntext(sib):
                        kind = 'out'
            uses.append((kind, ntext(p) if p is not None else ''))
    # the same scaled quantity written out more than once (instead of through a temporary) is one use
    return [k for k, _t in sorted(set(uses))]


def run(repo):
    res = RuleResult(RULE, 'multiplier law in lowering', TEXT)
    res.floor = 18
    mul_degrees(repo)       # validates that Convex.__mul__ still has its two homogeneity classes
    n = 0
    for fq in ('lp.Model.do_math', 'socp.Model.do_math', 'gcp.Model.do_math'):
        fi = repo.func(fq)
        res.functions.add(fq)
        for letters, body, node, prelude in letter_branches(fi):
            # skip the objective routing tests (their bodies only append to a list)
            txt = ' '.join(ntext(s) for s in body)
            if all((isinstance(s, ast.Expr) and '.append(' in ntext(s)) or
                   (isinstance(s, ast.Assign) and isinstance(s.value, ast.List) and not s.value.elts)
                   for s in body) and 'dvar' not in txt \
                    and 'affine' not in txt:
                continue
            uses = classify(expand_block_locals(prelude + body, drop=True))      # temporaries of the branch are read through
            for letter in letters:
                n += 1
                probs = []
                if len(uses) == 0:
                    probs.append('never reads constr.multiplier: a scaled atom is compiled unscaled')
                elif len(uses) > 1:
                    probs.append('reads constr.multiplier %d times (%s): the scale is applied more than once'
                                 % (len(uses), uses))
                else:
                    k = uses[0]
                    if k.startswith('inpow:'):
                        # c*|x|^(p/q) == |c^(q/p) x|^(p/q): only the exponent q/p is right for the power atom
                        e = k[6:].replace(' ', '').strip('()')
                        if letter != 'T':
                            raise AnalysisError('%s, branch %s: the argument is scaled by multiplier ** (%s), '
                                                'which the rule only interprets for the power atom' % (fq, letter, e))
                        pq = _power_params(body)
                        if pq is None:
                            raise AnalysisError('%s, branch T: names of the exponent pair (p, q) not recovered' % fq)
                        if e != '%s/%s' % (pq[1], pq[0]):
                            probs.append('scales the argument by multiplier ** (%s); for |x|**(p/q) the factor that '
                                         'equals multiplying the atom by c is c ** (q/p) = multiplier ** (%s/%s)'
                                         % (e, pq[1], pq[0]))
                        k = 'in-ok'
                    if k == 'other':
                        raise AnalysisError('%s, branch %s: constr.multiplier is used in a form the rule '
                                            'does not interpret' % (fq, letter))
                    if k == 'in' and letter not in HOMOGENEOUS:
                        probs.append('scales the argument by the multiplier, which is only valid for '
                                     'positively homogeneous atoms, not for %s' % letter)
                ok = not probs
                res.inst({'layer': fq, 'letter': letter, 'multiplier_use': uses, 'ok': ok}, ok)
                for pr in probs:
                    res.fail(Finding(RULE, fq, 'branch %s: %s' % (letter, pr[:40]),
                                     '%s, lowering branch for atom %s: %s' % (fq, letter, pr),
                                     repo.where(fi, node), P))
    if n < 18:
        raise AnalysisError('only %d lowering branches found' % n)
    return res
