"""Mutants and twins for the rules.  Each edit is (file, old text, new text); `old` must match
exactly once in the current /repo/rsome/<file>."""

ENTRIES = []


def M(id, rule, edits, expect='', **kw):
    ENTRIES.append(dict(id=id, rule=rule, kind='mutant', edits=edits, expect=expect, **kw))


def T(id, rule, edits, **kw):
    ENTRIES.append(dict(id=id, rule=rule, kind='twin', edits=edits, **kw))


# ---------------------------------------------------------------------------------------- R01
M('R01-socp-drop-ip', 'R01',
  [('socp.py', "        self.cvx_constr = []\n        self.ip_constr = []\n        self.pupdate = True",
    "        self.cvx_constr = []\n        self.pupdate = True")], 'socp.Model.reset')        # F01 re-introduced
M('R01-gcp-drop-det', 'R01',
  [('gcp.py', "        self.ip_constr = []\n        self.det_constr = []\n",
    "        self.ip_constr = []\n")], 'gcp.Model.reset|self.det_constr')
M('R01-gcp-drop-exp', 'R01',
  [('gcp.py', "        self.cone_constr = []\n        self.exp_constr = []\n        self.other_constr = []\n        self.bounds = []",
    "        self.cone_constr = []\n        self.other_constr = []\n        self.bounds = []")],
  'gcp.Model.reset|self.exp_constr')
M('R01-conditional-clear', 'R01',
  [('socp.py', "        self.cvx_constr = []\n        self.ip_constr = []\n        self.pupdate = True",
    "        self.cvx_constr = []\n        if self.obj is None:\n            self.ip_constr = []\n        self.pupdate = True")],
  'socp.Model.reset|self.ip_constr')
M('R01-ro-reset-no-rc', 'R01',
  [('ro.py', "        self.dual = None\n        self.rc_model.reset()\n", "        self.dual = None\n")],
  'ro.Model.reset|self.rc_model.reset')
M('R01-new-container', 'R01',
  [('socp.py', "            self.cone_constr.append(constr)\n",
    "            self.cone_constr.append(constr)\n            self.cone_log.append(constr)\n")],
  'self.cone_log')
T('R01-clear-via-helper', 'R01',
  [('socp.py', "        self.cvx_constr = []\n        self.ip_constr = []\n        self.pupdate = True\n        self.dupdate = True\n",
    "        self.cvx_constr = []\n        self._clear_ip()\n        self.pupdate = True\n        self.dupdate = True\n\n    def _clear_ip(self):\n\n        self.ip_constr = []\n")])
T('R01-clear-method', 'R01',
  [('gcp.py', "        self.ip_constr = []\n        self.det_constr = []\n",
    "        self.ip_constr.clear()\n        self.det_constr = list()\n")])

# ---------------------------------------------------------------------------------------- R05
M('R05-objective-drop-N', 'R05',
  [('gcp.py', "if constr.xtype in 'XLPFN':\n                        more_others.append(constr)",
    "if constr.xtype in 'XLPF':\n                        more_others.append(constr)")],
  'objective:CvxConstr/N')                                                  # F02 re-introduced
M('R05-st-accept-unlowered', 'R05',
  [('socp.py', "elif constr.xtype in 'GCTC':", "elif constr.xtype in 'GCDTC':")],
  'route:CvxConstr/D')                                                      # F17 re-introduced
M('R05-drop-softplus-branch', 'R05',
  [('gcp.py', "                    elif constr.xtype == 'F':\n                        affine_out = constr.affine_out * (1/constr.multiplier)",
    "                    elif constr.xtype == 'f':\n                        affine_out = constr.affine_out * (1/constr.multiplier)")],
  'CvxConstr/F')
M('R05-shadow-pcvx', 'R05',
  [('gcp.py', "                if isinstance(constr, KLConstr):\n                    ns = constr.p.size",
    "                if isinstance(constr, (KLConstr, CvxConstr)):\n                    ns = constr.p.size")],
  'shadowed')
M('R05-ro-do-math-drops-kl', 'R05',
  [('ro.py', "            if isinstance(constr, (LinConstr, Bounds, CvxConstr, ConeConstr,\n                                   ExpConstr, KLConstr, LMIConstr, IPCone)):\n                self.rc_model.st(constr)",
    "            if isinstance(constr, (LinConstr, Bounds, CvxConstr, ConeConstr,\n                                   ExpConstr, LMIConstr, IPCone)):\n                self.rc_model.st(constr)")],
  'accepted-unhandled:KLConstr')
M('R05-lp-abs-letter', 'R05',
  [('lp.py', "                if constr.xtype == 'A':\n                    affine_in = constr.affine_in * constr.multiplier\n                    self.aux_constr.append(affine_in +\n                                           constr.affine_out <= 0)\n                    self.aux_constr.append(-affine_in +\n                                           constr.affine_out <= 0)\n                elif constr.xtype == 'M':",
    "                if constr.xtype == 'a':\n                    affine_in = constr.affine_in * constr.multiplier\n                    self.aux_constr.append(affine_in +\n                                           constr.affine_out <= 0)\n                    self.aux_constr.append(-affine_in +\n                                           constr.affine_out <= 0)\n                elif constr.xtype == 'M':")],
  'lp.Model')
T('R05-letters-as-tuple', 'R05',
  [('socp.py', "if constr.xtype in 'AMI':\n                super().st(constr)", "if constr.xtype in ('A', 'M', 'I'):\n                super().st(constr)")])
T('R05-reorder-independent-branches', 'R05',
  [('gcp.py', "        elif isinstance(constr, KLConstr):\n            self.other_constr.append(constr)\n        elif isinstance(constr, LMIConstr):\n            self.other_constr.append(constr)",
    "        elif isinstance(constr, LMIConstr):\n            self.other_constr.append(constr)\n        elif isinstance(constr, KLConstr):\n            self.other_constr.append(constr)")])

# ---------------------------------------------------------------------------------------- R04
M('R04-defsol-inplace', 'R04',
  [('lp.py', "        lb = formula.lb.copy()\n        ub = formula.ub.copy()\n        lb[bool_bin] = np.maximum(lb[bool_bin], 0)",
    "        lb = formula.lb\n        ub = formula.ub.copy()\n        lb[bool_bin] = np.maximum(lb[bool_bin], 0)")],
  'lp.def_sol')                                                             # F03 re-introduced
M('R04-tosocp-alias', 'R04',
  [('gcp.py', "        qmat = list(self.qmat)\n", "        qmat = self.qmat\n")], 'gcp.GCProg.to_socp')   # F11
M('R04-lpdual-view', 'R04',
  [('lp.py', "dual_const = primal.obj.reshape((nv, )).copy()", "dual_const = primal.obj.reshape((nv, ))")],
  'lp.Model.do_math')                                                       # F24
M('R04-eco-negate-bounds', 'R04',
  [('eco_solver.py', "    c = formula.obj\n", "    c = formula.obj\n    lbv = formula.lb\n    lbv[lbv == -np.inf] = -1e20\n")],
  'eco_solver.solve')
M('R04-letorc-sort-support', 'R04',
  [('lp.py', "        size_support = support.linear.shape[1]\n", "        size_support = support.linear.shape[1]\n        support.qmat.sort()\n")],
  'lp.RoConstr.le_to_rc')
M('R04-socp-dual-no-rebind', 'R04',
  [('socp.py', "                formula = SOCProg(linear, const, sense,\n                                  vtype, ub, lb, qmat, obj)\n\n            else:",
    "                formula = SOCProg(linear, const, sense,\n                                  vtype, ub, lb, qmat, obj)\n                if len(qmat) > 3:\n                    return formula\n\n            else:")],
  'socp.Model.do_math')
M('R04-grb-vtype-upper', 'R04',
  [('grb_solver.py', "    vtype = list(formula.vtype)\n", "    vtype = formula.vtype\n    vtype[vtype == 'B'] = 'I'\n")],
  'grb_solver.solve')
T('R04-copy-then-edit', 'R04',
  [('eco_solver.py', "    c = formula.obj\n", "    c = formula.obj\n    lbv = formula.lb.copy()\n    lbv[lbv == -np.inf] = -1e20\n")])
T('R04-np-array-copy', 'R04',
  [('lp.py', "        lb = formula.lb.copy()\n        ub = formula.ub.copy()\n", "        lb = np.array(formula.lb)\n        ub = formula.ub + 0\n")])

# ---------------------------------------------------------------------------------------- R03
M('R03-exppw-ctype', 'R03',
  [('lp.py', "            if isinstance(piece, DecAffine):\n                piece = DecAffine(piece.dro_model, piece, piece.event_adapt,\n                                  piece.fixed, 'E')\n            elif isinstance(piece, DecRoAffine):\n                piece = DecRoAffine(piece, piece.event_adapt, 'E')\n",
    "            if isinstance(piece, (DecAffine, DecRoAffine)):\n                piece.ctype = 'E'\n")],
  'lp.ExpPiecewiseConvex.__init__')                                         # F06 re-introduced
M('R03-neg-inplace', 'R03',
  [('lp.py', "    def __neg__(self):\n\n        return Affine(self.model, -self.linear, -self.const)",
    "    def __neg__(self):\n\n        self.const *= -1\n        return Affine(self.model, -self.linear, self.const)")],
  'lp.Affine.__neg__')
M('R03-add-other-const', 'R03',
  [('lp.py', "            new_const = other.const + self.const\n", "            other.const += self.const\n            new_const = other.const\n")],
  'lp.Affine.__add__')
M('R03-resize-unguarded', 'R03',
  [('subroutines.py', "    if left.shape[1] > right.shape[1]:\n        right.resize((right.shape[0], left.shape[1]))",
    "    if left.shape[1] != right.shape[1]:\n        right.resize((right.shape[0], left.shape[1]))")],
  'subroutines.add_linear')
M('R03-pw-add-mutates-pieces', 'R03',
  [('lp.py', "        pieces = [piece + other*self.sign for piece in self.pieces]\n\n        return PiecewiseConvex(self.model, pieces, self.sign, self.add_sign)",
    "        self.pieces[:] = [piece + other*self.sign for piece in self.pieces]\n\n        return self")],
  'lp.PiecewiseConvex.__add__')
T('R03-memo-sparray', 'R03',
  [('lp.py', "        new_affine = self.affine.sum(axis=axis)\n\n        svarray = self.affine.sv_array()",
    "        new_affine = self.affine.sum(axis=axis)\n\n        if self.affine.sparray is None:\n            self.affine.sparray = self.affine.sv_array()\n        svarray = self.affine.sv_array()")])

# ---------------------------------------------------------------------------------------- R23
M('R23-random-tiebreak', 'R23',
  [('subroutines.py', "import numpy as np\n", "import numpy as np\nimport random\n")], 'nondeterminism')
M('R23-set-iteration', 'R23',
  [('subroutines.py', "    for key in dc:\n", "    for key in set(dc):\n")], 'nondeterminism')
M('R23-bounds-values-inplace', 'R23',
  [('lp.py', "                if b.btype == 'U':\n                    ub[b.indices] = np.minimum(b.values, ub[b.indices])",
    "                if b.btype == 'U':\n                    b.values[b.values > 1e20] = np.inf\n                    ub[b.indices] = np.minimum(b.values, ub[b.indices])")],
  'lp.Model.do_math')
M('R23-rmul-scales-user-array', 'R23',
  [('lp.py', "    def __rmatmul__(self, other):\n\n        other = check_numeric(other)\n\n        new_const = other @ self.const\n        new_linear = sp_matmul(other, self, new_const.shape) @ self.linear\n\n        return Affine(",
    "    def __rmatmul__(self, other):\n\n        other = check_numeric(other)\n        other[np.isnan(other)] = 0\n\n        new_const = other @ self.const\n        new_linear = sp_matmul(other, self, new_const.shape) @ self.linear\n\n        return Affine(")],
  'lp.Affine.__rmatmul__')
M('R23-hash-order', 'R23',
  [('dro.py', "        self.dec_vars.append(dec_var)\n", "        self.dec_vars.append(dec_var)\n        self.dec_vars.sort(key=lambda v: id(v))\n")],
  'nondeterminism')
T('R23-sorted-set', 'R23',
  [('subroutines.py', "    for key in dc:\n", "    for key in sorted(set(dc)):\n")])

# ---------------------------------------------------------------------------------------- R02
M('R02-reset-keeps-flags', 'R02',
  [('gcp.py', "        self.det_constr = []\n        self.pupdate = True\n        self.dupdate = True\n",
    "        self.det_constr = []\n")], 'gcp.Model.reset')                  # F16 re-introduced
M('R02-suppset-no-invalidate', 'R02',
  [('lp.py', "            self.ambset.sup_constr[i] = tuple(args)\n        self.ambset.model.pupdate = True\n        self.ambset.model.dupdate = True\n",
    "            self.ambset.sup_constr[i] = tuple(args)\n")], 'lp.Scen.suppset')   # F08
M('R02-probset-wrong-owner', 'R02',
  [('dro.py', "        self.model.pupdate = True\n        self.model.dupdate = True\n",
    "        self.pupdate = True\n        self.dupdate = True\n")], 'dro.Ambiguity.probset', error_ok=True)
M('R02-adapt-guard-removed', 'R02',
  [('lp.py', "    def evtadapt(self, scens):\n\n        if self.dro_model.var_ev_list is not None:\n            raise SyntaxError('Adaptation must be defined ' +\n                              'before the model is formulated.')\n",
    "    def evtadapt(self, scens):\n")], 'lp.DecVar.evtadapt')                 # F09
M('R02-ro-st-early-return', 'R02',
  [('ro.py', "                if sense == 0:\n                    self.all_constr.append(constr)\n",
    "                if sense == 0:\n                    self.all_constr.append(constr)\n                    if len(arg) == 1:\n                        return constr\n")],
  'ro.Model.st')
M('R02-minmax-dupdate-only', 'R02',
  [('ro.py', "        self.obj_support = sup_model.do_math(primal=False, obj=False)\n        self.sign = 1\n        self.pupdate = True\n",
    "        self.obj_support = sup_model.do_math(primal=False, obj=False)\n        self.sign = 1\n")],
  'ro.Model.minmax')
M('R02-dro-do-math-no-reset', 'R02',
  [('dro.py', "        self.ro_model.reset()\n        self.rule_var()\n", "        self.rule_var()\n")],
  'dro.Model.do_math')
T('R02-touch-helper', 'R02',
  [('ro.py', "        self.obj = obj\n        self.sign = - 1\n        self.pupdate = True\n        self.dupdate = True\n\n    def minmax",
    "        self.obj = obj\n        self.sign = - 1\n        self._touch()\n\n    def _touch(self):\n\n        self.pupdate = True\n        self.dupdate = True\n\n    def minmax")])

# ---------------------------------------------------------------------------------------- R07
M('R07-mix-drop-xmat', 'R07',
  [('dro.py', "            for ex in exp_support.xmat:\n                xconstr = ExpConstr(self.mix_model, exp_var[ex[0]],\n                                    exp_var[ex[1]], exp_var[ex[2]])\n                self.mix_model.st(xconstr)\n", "")],
  'exp_support.xmat')                                                       # F12 re-introduced
M('R07-letorc-drop-exp-loop', 'R07',
  [('lp.py', "            for xconstr in support.xmat:\n                indices = xconstr\n                cone_constr = ExpConstr(self.dec_model,\n                                        dual_var[n, indices[0]],\n                                        dual_var[n, indices[1]],\n                                        dual_var[n, indices[2]])\n                constr_list.append(cone_constr)\n", "")],
  'lp.RoConstr.le_to_rc|support.xmat')
M('R07-grb-silent-xmat', 'R07',
  [('grb_solver.py', "        if formula.xmat:\n            warnings.warn('The SOCP solver ignores exponential cone constraints. ')\n", "")],
  'grb_solver.solve|formula.xmat')
M('R07-dual-finite-bound', 'R07',
  [('lp.py', "            dual_ub = np.zeros(dual_linear.shape[1])\n", "            dual_ub = np.ones(dual_linear.shape[1])\n")],
  'dual bound code')
M('R07-letorc-sign-flip', 'R07',
  [('lp.py', "            bounds.append(dual_var[:, index_pos] <= 0)", "            bounds.append(dual_var[:, index_pos] >= 0)")],
  'multiplier sign')
M('R07-eco-ignores-qmat', 'R07',
  [('eco_solver.py', "    qmat = formula.qmat if isinstance(formula, SOCProg) else []\n", "    qmat = []\n")],
  'eco_solver.solve|formula.qmat')
T('R07-warn-reworded', 'R07',
  [('ort_solver.py', "        if formula.lmi:\n            warnings.warn('The LP solver ignores semidefinite cone constraints.')",
    "        if len(formula.lmi) > 0:\n            warnings.warn('semidefinite constraints are ignored by OR-Tools')")])

# ---------------------------------------------------------------------------------------- R08 / R13
M('R08-ro-st-drop-support', 'R08',
  [('ro.py', "                    right_constr = RoConstr(right, sense=0)\n                    right_constr.support = constr.support\n",
    "                    right_constr = RoConstr(right, sense=0)\n")], 'ro.Model.st')
M('R08-declin-drop-ambset', 'R08',
  [('dro.py', "                        left.ambset = constr.ambset\n                        right.ambset = constr.ambset\n                        return self.ro_to_roc(left) + self.ro_to_roc(right)",
    "                        return self.ro_to_roc(left) + self.ro_to_roc(right)")], 'DecLinConstr')   # F14
M('R08-support-from-other', 'R08',
  [('ro.py', "                    left_constr.support = constr.support\n", "                    left_constr.support = self.obj_support\n")],
  'ro.Model.st')
M('R13-right-not-negated', 'R13',
  [('ro.py', "                    right = RoAffine(-constr.raffine, -constr.affine,", "                    right = RoAffine(-constr.raffine, constr.affine,")],
  'ro.Model.st')
M('R13-declin-const-sign', 'R13',
  [('dro.py', "                                             -constr.linear, -constr.const,", "                                             -constr.linear, constr.const,")],
  'dro.Model.ro_to_roc')
M('R13-right-half-dropped', 'R13',
  [('ro.py', "                    self.all_constr.append(left_constr)\n                    self.all_constr.append(right_constr)\n",
    "                    self.all_constr.append(left_constr)\n")], 'ro.Model.st')
M('R13-sense-kept', 'R13',
  [('dro.py', "                    right = DecRoConstr(-roaffine, 0,", "                    right = DecRoConstr(-roaffine, constr.sense,")],
  'dro.Model.ro_to_roc')

# ---------------------------------------------------------------------------------------- R09
M('R09-forall-no-reset', 'R09',
  [('lp.py', "        sup_model = self.rand_model\n        sup_model.reset()\n", "        sup_model = self.rand_model\n")],
  'lp.RoConstr.forall')
M('R09-minmax-primal-support', 'R09',
  [('ro.py', "        self.obj_support = sup_model.do_math(primal=False, obj=False)\n        self.sign = 1\n",
    "        self.obj_support = sup_model.do_math(obj=False)\n        self.sign = 1\n")], 'ro.Model.minmax')
M('R09-forall-no-identity', 'R09',
  [('lp.py', "        for item in constraints:\n            if item.model is not sup_model:\n                raise ValueError('Models mismatch.')\n            sup_model.st(item)\n\n        self.support",
    "        for item in constraints:\n            sup_model.st(item)\n\n        self.support")], 'lp.RoConstr.forall')
M('R09-lower-with-own-none', 'R09',
  [('ro.py', "                if constr.support:\n                    rc_constrs = constr.le_to_rc()\n                else:\n                    rc_constrs = constr.le_to_rc(self.obj_support)",
    "                rc_constrs = constr.le_to_rc()")], 'ro.Model.do_math')
M('R09-dro-wrong-scenario', 'R09',
  [('dro.py', "                        ro_constr.append(inequality.forall(ambset.sup_constr[s]))", "                        ro_constr.append(inequality.forall(ambset.sup_constr[0]))")],
  'dro.Model.dro_to_roc')
M('R09-dro-default-only', 'R09',
  [('dro.py', "                        ambset = constr.ambset\n                        if isinstance(ambset, Ambiguity):\n                            support = constr.ambset.sup_constr[s]",
    "                        ambset = constr.ambset\n                        if isinstance(ambset, Ambiguity):\n                            support = self.sup_model.lin_constr")],
  'dro.Model.ro_to_roc')
M('R09-mix-no-exp-reset', 'R09',
  [('dro.py', "            self.model.exp_model.reset()\n", "")], 'dro.Ambiguity.mix_support')

# ---------------------------------------------------------------------------------------- R17 / R18
M('R17-get-no-nan-guard', 'R17',
  [('ro.py', "        solution = self.rc_model.solution\n        if np.isnan(solution.objval):\n            msg = 'No solution available. '\n            msg += f'{solution.solver} solution status: {solution.status}'\n            raise RuntimeError(msg)\n\n        return",
    "        solution = self.rc_model.solution\n\n        return")], 'ro.Model.get')
M('R17-call-no-none-guard', 'R17',
  [('lp.py', "        if self.model.solution is None:\n            raise SyntaxError('No available solution!')\n        else:\n            linear = self.linear\n            const = self.const\n            nvar = linear.shape[1]\n\n            x = self.model.solution.x[:nvar]",
    "        if self.model.solution is None:\n            warnings.warn('No available solution!')\n        if True:\n            linear = self.linear\n            const = self.const\n            nvar = linear.shape[1]\n\n            x = self.model.solution.x[:nvar]")],
  'lp.Affine.__call__')
M('R17-max-sign-plus', 'R17',
  [('dro.py', "        self.obj = obj\n        self.obj_ambiguity = ambset\n        self.sign = - 1\n", "        self.obj = obj\n        self.obj_ambiguity = ambset\n        self.sign = 1\n")],
  'dro.Model.maxinf')
M('R17-get-forgets-sign', 'R17',
  [('dro.py', "        return self.sign * self.solution.objval", "        return self.solution.objval")], 'dro.Model.get')
M('R17-epigraph-double-sign', 'R17',
  [('socp.py', "                obj_constr = (self.vars[0] - self.sign * self.obj >= 0)", "                obj_constr = (self.vars[0] - self.sign * self.sign * self.obj >= 0)")],
  'socp.Model.do_math')
M('R17-dual-no-sign', 'R17',
  [('lp.py', "                pi = self.model.solution.y['lpi'] * self.model.sign\n", "                pi = self.model.solution.y['lpi']\n")],
  'lp.Bounds.dual')
M('R18-power-double-offset', 'R18',
  [('lp.py', "                output = self.multiplier*self.sign*(value_in ** expo) + value_out\n",
    "                output = self.multiplier*self.sign*(value_in ** expo) + value_out\n                output += value_out\n")],
  'branch T')                                                               # F19
M('R18-entropy-sign', 'R18',
  [('lp.py', "                    item = -self.multiplier*self.sign*(value_in*np.log(1/value_in)).sum()", "                    item = self.multiplier*self.sign*(value_in*np.log(1/value_in)).sum()")],
  'lp.DecConvex.__call__|branch P')                                         # F20
M('R18-square-multiplier', 'R18',
  [('lp.py', "                output = self.multiplier**2*self.sign*(value_in**2) + value_out", "                output = self.multiplier*self.sign*(value_in**2) + value_out")],
  'branch S')
M('R18-abs-no-offset', 'R18',
  [('lp.py', "                output = self.multiplier*self.sign*abs(value_in) + value_out\n            elif self.xtype == 'M':", "                output = self.multiplier*self.sign*abs(value_in)\n            elif self.xtype == 'M':")],
  'branch A')
M('R18-no-else-raise', 'R18',
  [('lp.py', "                output = self.multiplier*self.sign*(value_in ** expo) + value_out\n            else:\n                raise ValueError('Unsupported convex/concave expression.')",
    "                output = self.multiplier*self.sign*(value_in ** expo) + value_out\n            else:\n                output = value_out")],
  'lp.Convex.__call__|else')

# ---------------------------------------------------------------------------------------- R19
M('R19-ort-fabricated', 'R19',
  [('ort_solver.py', "    if status == pywraplp.Solver.OPTIMAL:\n        x_sol =", "    if True:\n        x_sol =")], 'ort_solver.solve')
M('R19-eco-failure-keeps-x', 'R19',
  [('eco_solver.py', "        solution = Solution('ECOS', np.nan, None, status, stime)", "        solution = Solution('ECOS', np.nan, sol['x'], status, stime)")],
  'eco_solver.solve')
M('R19-defsol-binary-constants', 'R19',
  [('lp.py', "        lb[bool_bin] = np.maximum(lb[bool_bin], 0)\n        ub[bool_bin] = np.minimum(ub[bool_bin], 1)\n", "        lb[bool_bin] = 0\n        ub[bool_bin] = 1\n")],
  'lp.def_sol')
M('R19-eco-swap-h', 'R19',
  [('eco_solver.py', "                   -formula.lb[zlb_idx],\n                   formula.ub[zub_idx],", "                   formula.ub[zub_idx],\n                   -formula.lb[zlb_idx],")],
  'ECOS block order')
M('R19-eco-dual-offset', 'R19',
  [('eco_solver.py', "        upi[zub_idx] = - sol['z'][num_ineq + num_zlb + np.arange(num_zub)]", "        upi[zub_idx] = - sol['z'][num_ineq + np.arange(num_zub)]")],
  'ECOS dual offsets')
M('R19-eco-lb-sign', 'R19',
  [('eco_solver.py', "    Glb = sp.csr_matrix((-np.ones(num_zlb),", "    Glb = sp.csr_matrix((np.ones(num_zlb),")], 'ECOS bound rows')
M('R19-clp-none-return', 'R19',
  [('clp_solver.py', "        warnings.warn('Fail to find the optimal solution.')\n        # solution = None\n        solution = Solution('CyLP', np.nan, None, status, stime)",
    "        warnings.warn('Fail to find the optimal solution.')\n        solution = None")], 'clp_solver.solve')
M('R19-msk-skip-vtype', 'R19',
  [('msk_solver.py', "    idx_int = [i for i, v in enumerate(form.vtype) if v == 'I']", "    idx_int = []"),
   ('msk_solver.py', "    idx_bin = [i for i, v in enumerate(form.vtype) if v == 'B']", "    idx_bin = []"),
   ('msk_solver.py', "    idx_cont = [i for i, v in enumerate(form.vtype) if v == 'C']", "    idx_cont = list(range(form.linear.shape[1]))"),
   ('msk_solver.py', "            if all(form.vtype == 'C'):", "            if True:")], 'msk_solver.solve|never reads form.vtype')

# ---------------------------------------------------------------------------------------- R20
M('R20-lp-st-no-model-check', 'R20',
  [('lp.py', "            if constr.model is not self:\n                raise ValueError('Constraints are not defined for this model.')\n            if isinstance(constr, LinConstr):",
    "            if isinstance(constr, LinConstr):")], 'lp.Model.st')
M('R20-dro-st-roconstr', 'R20',
  [('dro.py', "                    if constr.dec_model is not self.vt_model or \\\n                       constr.rand_model is not self.sup_model:\n                        raise ValueError('Models mismatch.')",
    "                    pass")], 'dro.Model.st')
M('R20-affine-add-same-type', 'R20',
  [('lp.py', "            if self.model is not other.model:\n                raise ValueError('Models of operands mismatch.')\n\n            new_const = other.const + self.const",
    "            new_const = other.const + self.const")], 'lp.Affine.__add__')
M('R20-obj-redefinable', 'R20',
  [('ro.py', "    def max(self, obj):\n        \"\"\"\n        Maximize the given objective function.\n\n        Parameters\n        ----------\n        obj : RSOME expression, numeric constant\n            The objective function\n\n        Notes\n        -----\n        The objective function given as an array must have the size\n        to be one.\n        \"\"\"\n\n        if self.obj is not None:\n            raise SyntaxError('Redefinition of the objective is not allowed.')\n",
    "    def max(self, obj):\n        \"\"\"\n        Maximize the given objective function.\n        \"\"\"\n")], 'ro.Model.max')
M('R20-ambiguity-after-constraints', 'R20',
  [('dro.py', "        if self.all_constr:\n            raise SyntaxError('Ambiguity set must be specified ' +\n                              'before defining constraints.')\n\n", "")],
  'dro.Model.ambiguity')
M('R20-class-level-cache', 'R20',
  [('lp.py', "class Affine:\n    \"\"\"\n    The Affine class creates an array of affine expressions.\n    \"\"\"\n\n    __array_priority__ = 100\n",
    "class Affine:\n    \"\"\"\n    The Affine class creates an array of affine expressions.\n    \"\"\"\n\n    __array_priority__ = 100\n    _cache = {}\n"),
   ('lp.py', "        self.model = model\n        self.linear = linear\n        self.const = const\n        self.shape = const.shape\n",
    "        self.model = model\n        self._cache[const.shape] = linear\n        self.linear = linear\n        self.const = const\n        self.shape = const.shape\n")],
  'class attribute _cache')
T('R20-class-level-table', 'R20',
  [('lp.py', "class Affine:\n    \"\"\"\n    The Affine class creates an array of affine expressions.\n    \"\"\"\n\n    __array_priority__ = 100\n",
    "class Affine:\n    \"\"\"\n    The Affine class creates an array of affine expressions.\n    \"\"\"\n\n    __array_priority__ = 100\n    _kinds = {'C': 'continuous', 'B': 'binary'}\n")])
M('R20-exptset-no-check', 'R20',
  [('lp.py', "        for arg in args:\n            if arg.model is not self.ambset.model.exp_model:\n                raise ValueError('Constraints are not defined for ' +\n                                 'expectation sets.')\n\n", "")],
  'lp.Scen.exptset')
M('R20-new-st-caller', 'R20',
  [('dro.py', "        sup_var = self.sup_model.dvar(shape, 'C', name)\n", "        sup_var = self.sup_model.dvar(shape, 'C', name)\n        self.sup_model.st(sup_var >= -1e9)\n")],
  'new caller of st()')
T('R20-guard-as-neq', 'R20',
  [('lp.py', "            if constr.model is not self:\n                raise ValueError('Constraints are not defined for this model.')\n            if isinstance(constr, LinConstr):",
    "            if self != constr.model:\n                raise ValueError('Constraints are not defined for this model.')\n            if isinstance(constr, LinConstr):")])

# ---------------------------------------------------------------------------------------- R21 / R22 / R25 / R26
M('R21-binary-as-general', 'R21',
  [('lp.py', "        ind_bin, = np.where(self.vtype == 'B')", "        ind_bin, = np.where(self.vtype == 'b')")], 'section Binary')
M('R21-socp-head-sign', 'R21',
  [('socp.py', "            sq += ' - x{} ^2 ] <= 0\\n'.format(qc[0]+1)", "            sq += ' + x{} ^2 ] <= 0\\n'.format(qc[0]+1)")], 'quadratic rows')
M('R21-sense-flip', 'R21',
  [('cpx_solver.py', "    sense = ['E' if s == 1 else 'L' for s in formula.sense]", "    sense = ['L' if s == 1 else 'E' for s in formula.sense]")],
  'cpx_solver.solve')
M('R21-show-drops-lmi', 'R21',
  [('gcp.py', "        table_lmi = self.showlmi()\n        if table_lmi is not None:\n            table = pd.concat([table, table_lmi], axis=0)\n", "")], 'gcp.GCProg.show')
M('R22-ub-lb-swapped', 'R22',
  [('gcp.py', "        ub = self.ub\n        lb = self.lb\n        obj = self.obj", "        ub = self.lb\n        lb = self.ub\n        obj = self.obj")], 'field ub')
M('R22-vtype-reset', 'R22',
  [('gcp.py', "            vtype = np.concatenate((vtype, np.array(['C']*right_width)))", "            vtype = np.array(['C'] * (len(vtype) + right_width))")],
  'field vtype')
M('R22-drops-lmi', 'R22',
  [('gcp.py', "        return GCProg(linear, const, sense, vtype, ub, lb, qmat, [], lmi, obj)", "        return GCProg(linear, const, sense, vtype, ub, lb, qmat, [], [], obj)")],
  'field lmi')
M('R22-ro-fixed-degree', 'R22',
  [('ro.py', "        formula = self.do_math().to_socp(degree, cuts)", "        formula = self.do_math().to_socp(4, cuts)")], 'ro.Model.soc_solve')
M('R25-sum-drops-ctype', 'R25',
  [('lp.py', "        expr = super().sum(axis)\n\n        return DecAffine(self.dro_model, expr, self.event_adapt, self.fixed,\n                         self.ctype)",
    "        expr = super().sum(axis)\n\n        return DecAffine(self.dro_model, expr, self.event_adapt, self.fixed)")], 'lp.DecAffine.sum')  # F07
M('R25-neg-drops-params', 'R25',
  [('lp.py', "        return Convex(self.affine_in, -self.affine_out, self.xtype, -self.sign,\n                      self.multiplier,\n                      params=self.params)",
    "        return Convex(self.affine_in, -self.affine_out, self.xtype, -self.sign,\n                      self.multiplier)")], 'lp.Convex.__neg__|Convex(...): params')
M('R25-decro-neg-drops-ctype', 'R25',
  [('lp.py', "        expr = super().__neg__()\n\n        return DecRoAffine(expr, self.event_adapt, self.ctype)", "        expr = super().__neg__()\n\n        return DecRoAffine(expr, self.event_adapt, 'R')")],
  '', error_ok=False)
M('R26-sense-other-order', 'R26',
  [('lp.py', "                    sense_list = [item.sense\n                                  for item in self.lin_constr + self.aux_constr]",
    "                    sense_list = [item.sense\n                                  for item in self.aux_constr + self.lin_constr]")], 'row order')
M('R26-index-not-bumped', 'R26',
  [('lp.py', "                constr.index = self.constr_idx\n                self.constr_idx += 1\n", "                constr.index = self.constr_idx\n")], 'unique index')
M('R26-eco-pi-masks-swapped', 'R26',
  [('eco_solver.py', "        pi[eq_idx] = - sol['y']\n        pi[ineq_idx] = - sol['z'][:num_ineq]", "        pi[ineq_idx] = - sol['y']\n        pi[eq_idx] = - sol['z'][:num_ineq]")],
  'pi fill')
M('R26-bounds-dual-swapped', 'R26',
  [('lp.py', "                pi = self.model.solution.y['upi'] * self.model.sign", "                pi = self.model.solution.y['lpi'] * self.model.sign ")],
  'upi/lpi')

# ---------------------------------------------------------------------------------------- R11 / R12
M('R11-neg-keeps-sign', 'R11',
  [('lp.py', "        return Convex(self.affine_in, -self.affine_out, self.xtype, -self.sign,\n                      self.multiplier,",
    "        return Convex(self.affine_in, -self.affine_out, self.xtype, self.sign,\n                      self.multiplier,")],
  'Convex.__neg__')
M('R11-mul-forgets-abs', 'R11',
  [('lp.py', "        if self.xtype in 'AMNGIEXLPFKODTC':\n            multiplier = self.multiplier * abs(other)",
    "        if self.xtype in 'AMNGIEXLPFKODTC':\n            multiplier = self.multiplier * other")], 'Convex.__mul__')
M('R11-le-guard-dropped', 'R11',
  [('lp.py', "        left = self - other\n        if left.sign == -1:\n            raise ValueError('Nonconvex constraints.')\n\n        return CvxConstr(left.model, left.affine_in, left.affine_out,",
    "        left = self - other\n\n        return CvxConstr(left.model, left.affine_in, left.affine_out,")], 'Convex.__le__')
M('R11-ge-wrong-guard', 'R11',
  [('lp.py', "        right = other - self\n        if right.sign == -1:\n            raise ValueError('Nonconvex constraints.')\n\n        return CvxConstr(",
    "        right = other - self\n        if self.sign == -1:\n            raise ValueError('Nonconvex constraints.')\n\n        return CvxConstr(")],
  'Convex.__ge__')
M('R11-persp-mul-loses-sign', 'R11',
  [('lp.py', "        convex = super().__mul__(other)\n\n        return PerspConvex(convex.affine_in, self.affine_scale, convex.affine_out,\n                           convex.xtype, convex.sign, convex.multiplier)",
    "        convex = super().__mul__(other)\n\n        return PerspConvex(convex.affine_in, self.affine_scale, convex.affine_out,\n                           convex.xtype, self.sign, convex.multiplier)")],
  'PerspConvex.__mul__')
M('R11-pw-add-ignores-sign', 'R11',
  [('lp.py', "        pieces = [piece + other*self.sign for piece in self.pieces]", "        pieces = [piece + other for piece in self.pieces]")],
  'PiecewiseConvex')
M('R11-dec-entry-unguarded', 'R11',
  [('lp.py', "        elif isinstance(left, DecConvex):\n            if left.sign == -1:\n                raise ValueError('Nonconvex constraints.')\n            return DecCvxConstr(left, left.event_adapt)\n        elif isinstance(left, DecPerspConvex):\n            if left.sign == -1:\n                raise ValueError('Nonconvex constraints.')\n            constr = PCvxConstr(left.model,\n                                left.affine_in, left.affine_scale, left.affine_out,\n                                left.multiplier, left.xtype)\n            return DecPCvxConstr(constr, left.event_adapt)\n        elif isinstance(left, ExpPiecewiseConvex):\n            if left.sign == -1:\n                raise ValueError('Nonconvex constraints.')\n            pieces = [piece <= 0 for piece in left.pieces]\n            return ExpPWConstr(left.model, pieces)\n        elif isinstance(left, PiecewiseConvex):\n            if left.sign == -1:\n                raise ValueError('Nonconvex constraints.')\n            pieces = [piece <= 0 for piece in left.pieces]\n            return PWConstr(left.model, pieces)\n\n    def __ge__(self, other):",
    "        elif isinstance(left, DecConvex):\n            return DecCvxConstr(left, left.event_adapt)\n        elif isinstance(left, DecPerspConvex):\n            if left.sign == -1:\n                raise ValueError('Nonconvex constraints.')\n            constr = PCvxConstr(left.model,\n                                left.affine_in, left.affine_scale, left.affine_out,\n                                left.multiplier, left.xtype)\n            return DecPCvxConstr(constr, left.event_adapt)\n        elif isinstance(left, ExpPiecewiseConvex):\n            if left.sign == -1:\n                raise ValueError('Nonconvex constraints.')\n            pieces = [piece <= 0 for piece in left.pieces]\n            return ExpPWConstr(left.model, pieces)\n        elif isinstance(left, PiecewiseConvex):\n            if left.sign == -1:\n                raise ValueError('Nonconvex constraints.')\n            pieces = [piece <= 0 for piece in left.pieces]\n            return PWConstr(left.model, pieces)\n\n    def __ge__(self, other):")],
  'DecAffine.__le__')
M('R11-adaptive-times-random', 'R11',
  [('lp.py', "        elif isinstance(expr, RoAffine):\n            if not self.fixed:\n                msg = 'Affine decision rule '\n                msg += 'cannot be multiplied by random variables.'\n                raise TypeError(msg)\n            return DecRoAffine(expr, self.event_adapt, 'R')\n\n    def __rmul__(self, other):",
    "        elif isinstance(expr, RoAffine):\n            return DecRoAffine(expr, self.event_adapt, 'R')\n\n    def __rmul__(self, other):")],
  'DecAffine.__mul__')
T('R11-rsub-rewritten', 'R11',
  [('lp.py', "    def __rsub__(self, other):\n\n        return (-self).__add__(other)\n\n    def __mul__(self, other):\n\n        if not isinstance(other, Real):\n            raise TypeError('Incorrect syntax.')\n\n        if self.xtype in",
    "    def __rsub__(self, other):\n\n        neg = self.__neg__()\n        return neg + other\n\n    def __mul__(self, other):\n\n        if not isinstance(other, Real):\n            raise TypeError('Incorrect syntax.')\n\n        if self.xtype in")])
M('R12-ge-not-mirrored', 'R12',
  [('lp.py', "    def __ge__(self, other):\n\n        left = other - self\n        if isinstance(left, Affine) and not isinstance(left, DecAffine):\n            return LinConstr(left.model, left.linear,\n                             -left.const.reshape((left.const.size,)),\n                             np.zeros(left.const.size))",
    "    def __ge__(self, other):\n\n        left = self - other\n        if isinstance(left, Affine) and not isinstance(left, DecAffine):\n            return LinConstr(left.model, left.linear,\n                             -left.const.reshape((left.const.size,)),\n                             np.zeros(left.const.size))")],
  'Affine.__ge__')
M('R12-roaffine-rsub', 'R12',
  [('lp.py', "    def __rsub__(self, other):\n\n        return (-self).__add__(other)\n\n    def __mul__(self, other):\n\n        new_affine = self.affine * other",
    "    def __rsub__(self, other):\n\n        return self.__add__(-other)\n\n    def __mul__(self, other):\n\n        new_affine = self.affine * other")],
  'RoAffine.__rsub__')
M('R12-eq-as-inequality', 'R12',
  [('lp.py', "        left = self - other\n        return RoConstr(left, sense=1)", "        left = self - other\n        return RoConstr(left, sense=0)")],
  'RoAffine.__eq__')
M('R12-vars-radd-const', 'R12',
  [('lp.py', "    def __rsub__(self, other):\n\n        return (-self.to_affine()) + other\n\n    def __neg__(self):\n\n        return - self.to_affine()\n\n    def __le__(self, other):\n\n        cond1",
    "    def __rsub__(self, other):\n\n        return other\n\n    def __neg__(self):\n\n        return - self.to_affine()\n\n    def __le__(self, other):\n\n        cond1")],
  'Vars.__rsub__')

# ---------------------------------------------------------------------------------------- R14 / R15 / R27 / R28
_FLIP_NEW = """            indices_neg = np.where(primal.ub == 0)[0]
            if len(indices_neg) > 0:
                flip = np.ones(nv)
                flip[indices_neg] = -1
                primal_linear = primal_linear @ sp.diags(flip, format='csr')
"""
M('R14-colflip-before-bound-rows', 'R14',
  [('lp.py', "            nv = primal_linear.shape[1]\n            if nub > 0:\n",
    "            nv = primal_linear.shape[1]\n" + _FLIP_NEW + "            if nub > 0:\n"),
   ('lp.py', "            indices_neg = np.where(primal.ub == 0)[0]\n\n            dual_linear = csr_matrix(primal_linear.T)",
    "\n            dual_linear = csr_matrix(primal_linear.T)"),
   ('lp.py', "                dual_linear[indices_neg, :] = - dual_linear[indices_neg, :]\n", "")],
  expect='R14|lp.Model.do_math')
T('R14-colflip-after-bound-rows', 'R14',
  [('lp.py', "            indices_neg = np.where(primal.ub == 0)[0]\n\n            dual_linear = csr_matrix(primal_linear.T)",
    _FLIP_NEW + "\n            dual_linear = csr_matrix(primal_linear.T)"),
   ('lp.py', "                dual_linear[indices_neg, :] = - dual_linear[indices_neg, :]\n", "")])
M('R14-fixed-sign', 'R14',
  [('lp.py', "                primal_const = np.concatenate((primal_const,\n                                               -primal.lb[indices_fixed]))",
    "                primal_const = np.concatenate((primal_const,\n                                               primal.lb[indices_fixed]))")], 'pattern lb=3 ub=3')   # F04
M('R14-free-mask', 'R14',
  [('lp.py', "            indices_free = np.where((primal.lb != 0) &\n                                    (primal.ub != 0))[0]",
    "            indices_free = np.where((primal.lb != 0) |\n                                    (primal.ub != 0))[0]")], 'pattern')
M('R14-ub-row-sign', 'R14',
  [('lp.py', "                matrix_ub = csr_matrix((np.array([1] * nub), indices_ub,", "                matrix_ub = csr_matrix((np.array([-1] * nub), indices_ub,")], 'pattern')
M('R14-lb-mask-includes-zero', 'R14',
  [('lp.py', "            indices_ub = np.where((primal.ub != 0) &\n                                  (primal.ub != np.inf))[0]", "            indices_ub = np.where((primal.ub > 0) &\n                                  (primal.ub != np.inf))[0]")],
  'pattern')
M('R15-vtype-concat', 'R15',
  [('lp.py', "            vtype = np.array(['C'] * self.last)\n            for item in self.vars + self.auxs:\n                vtype[item.first:item.first + item.size] = \\\n                    item.vtype if len(item.vtype) == 1 else list(item.vtype)\n",
    "            vtype = np.concatenate([np.array([item.vtype] * item.size)\n                                    if len(item.vtype) == 1\n                                    else np.array(list(item.vtype))\n                                    for item in self.vars + self.auxs])\n")],
  'vtype by concatenation')                                                 # F05
M('R15-integer-aux', 'R15',
  [('lp.py', "                    aux = self.dvar(1, aux=True)\n                    self.aux_constr.append(affine_in <= aux)", "                    aux = self.dvar(1, 'I', aux=True)\n                    self.aux_constr.append(affine_in <= aux)")],
  'typed formulation-time variable')
M('R15-rollback-keeps-last', 'R15',
  [('socp.py', "                self.aux_ipc = []\n                self.last = self.vars[-1].first + self.vars[-1].size\n", "                self.aux_ipc = []\n")],
  'aux rollback')
M('R27-get-by-event-position', 'R27',
  [('lp.py', "            for eindex in self.event_adapt:\n                s = eindex[0]\n                drule = drule_list[s]", "            for eindex in range(len(self.event_adapt)):\n                drule = drule_list[eindex]")],
  'lp.DecVar.get')
M('R27-event-dict-on-overlap', 'R27',
  [('dro.py', "                    event_indices = [k for k in range(num_event)\n                                     if s in ambset.exp_constr_indices[k]]",
    "                    event_indices = [event_dict(ambset.exp_constr_indices)[s]]")], 'event_dict')
M('R27-series-dict-order', 'R27',
  [('lp.py', "                return pd.Series([outputs[edict[key]]\n                                  for key in range(len(edict))],\n                                 index=ind_label)\n            else:\n                return outputs[0]\n        else:",
    "                return pd.Series([outputs[edict[key]] for key in edict],\n                                 index=ind_label)\n            else:\n                return outputs[0]\n        else:")],
  'series order')                                                           # F27
M('R27-rule-cache', 'R27',
  [('dro.py', "                    self.var_ev_list[s] = RoAffine(raffine,\n                                                   self.var_ev_list[s],\n                                                   self.ro_model.sup_model)",
    "                    self.var_ev_list[s] = RoAffine(raffine,\n                                                   self.var_ev_list[0],\n                                                   self.ro_model.sup_model)")],
  'store self.var_ev_list[s]')
M('R28-last-bound-wins', 'R28',
  [('lp.py', "                    ub[b.indices] = np.minimum(b.values, ub[b.indices])", "                    ub[b.indices] = b.values")], 'store into ub')
M('R28-lower-uses-min', 'R28',
  [('lp.py', "                    lb[b.indices] = np.maximum(b.values, lb[b.indices])", "                    lb[b.indices] = np.minimum(b.values, lb[b.indices])")],
  'store into lb')
T('R28-ufunc-at', 'R28',
  [('lp.py', "                    ub[b.indices] = np.minimum(b.values, ub[b.indices])", "                    np.minimum.at(ub, b.indices, b.values)")])
M('R19-ort-boolvar', 'R19',
  [('ort_solver.py', "          solver.IntVar(max(0, lb[i]), min(1, ub[i]),\n                        'x' + str(i)) if vtype[i] == 'B' else", "          solver.BoolVar('x' + str(i)) if vtype[i] == 'B' else")],
  'bounds dropped')
M('R23-eigh-overwrite', 'R23',
  [('lp.py', "eighvals = eigh(qmat, eigvals_only=True).round(6)", "eighvals = eigh(qmat, eigvals_only=True, overwrite_a=True).round(6)")],
  'lp.Affine.quad')

# ---------------------------------------------------------------------------------------- R29 / R10 / R06 / R24
M('R29-repeat-sense', 'R29',
  [('lp.py', "        sense2 = np.tile(support.sense[:num_rand], num_constr)", "        sense2 = np.repeat(support.sense[:num_rand], num_constr)")],
  'sense layout of block 1')
M('R29-wrong-slice', 'R29',
  [('lp.py', "            sense3 = np.tile(support.sense[num_rand:], num_constr)", "            sense3 = np.tile(support.sense[:num_rand], num_constr)")],
  'sense layout of block 2')
M('R10-depend-redefinition', 'R10',
  [('lp.py', "        if self.depend[row_ind, col_ind].any():\n            raise RuntimeError('Redefinition of adaptation is not allowed.')\n\n", "")],
  'lp.DecRule.adapt')
M('R10-integer-adapt', 'R10',
  [('lp.py', "        if self.vtype in ['B', 'I']:\n            raise ValueError('No affine adaptation for integer variables.')\n", "")],
  'lp.DecVarSub.affadapt')
M('R10-adapt-after-use', 'R10',
  [('lp.py', "        if self.roaffine is not None:\n            raise SyntaxError('Adaptation must be defined ' +\n                              'before used in constraints')\n\n", "")],
  'lp.DecRule.adapt')
M('R10-adaptive-times-random', 'R10',
  [('dro.py', "                        if (drule.raffine[row_ind].linear.nnz > 0 or\n                                np.any(drule.raffine[row_ind].const)):\n                            raise SyntaxError('Incorrect affine expressions.')",
    "                        pass")], 'dro.Model.ro_to_roc')
M('R10-parent-mask', 'R10',
  [('lp.py', "        self.rand_adapt[dec_indices_flat, rand_indices_flat] = 1\n        self.dvars.rand_adapt = self.rand_adapt\n", "        self.rand_adapt[dec_indices_flat, rand_indices_flat] = 1\n")],
  'self.dvars.rand_adapt')
M('R06-abs-ignores-multiplier', 'R06',
  [('lp.py', "                if constr.xtype == 'A':\n                    affine_in = constr.affine_in * constr.multiplier\n                    self.aux_constr.append(affine_in +\n                                           constr.affine_out <= 0)",
    "                if constr.xtype == 'A':\n                    affine_in = constr.affine_in\n                    self.aux_constr.append(affine_in +\n                                           constr.affine_out <= 0)")],
  'branch A')
M('R06-exp-scales-argument', 'R06',
  [('gcp.py', "                    elif constr.xtype == 'X':\n                        affine_out = constr.affine_out * (1/constr.multiplier)\n                        exprs_list = rso_broadcast(constr.affine_in, affine_out)",
    "                    elif constr.xtype == 'X':\n                        affine_out = constr.affine_out\n                        exprs_list = rso_broadcast(constr.affine_in * constr.multiplier, affine_out)")],
  'branch X')
M('R24-sum-keeps-shape', 'R24',
  [('lp.py', "        linear = sv_to_csr(indices) @ self.linear\n        const = self.const.sum(axis=axis)\n\n        return Affine(self.model, linear, const)",
    "        linear = sv_to_csr(indices) @ self.linear\n        const = self.const.sum(axis=axis, keepdims=True)\n\n        return Affine(self.model, linear, const)")],
  'lp.Affine.sum')
M('R24-rmatmul-order', 'R24',
  [('lp.py', "        new_const = other @ self.const\n        new_linear = sp_matmul(other, self, new_const.shape) @ self.linear", "        new_const = self.const @ other\n        new_linear = sp_matmul(other, self, new_const.shape) @ self.linear")],
  'lp.Affine.__rmatmul__')
T('R24-rename-param', 'R24',
  [('lp.py', "    def __getitem__(self, item):\n\n        if self.sparray is None:\n            self.sparray = self.sv_array()\n\n        indices = self.sparray[item]\n        linear = sv_to_csr(indices) @ self.linear\n        const = self.const[item]",
    "    def __getitem__(self, key):\n\n        if self.sparray is None:\n            self.sparray = self.sv_array()\n\n        indices = self.sparray[key]\n        linear = sv_to_csr(indices) @ self.linear\n        const = self.const[key]")])
M('R11-setter-no-curvature-guard', 'R11',
  [('dro.py', "        if isinstance(obj, (Convex, PiecewiseConvex)) and obj.sign == 1:\n            raise ValueError('Nonconvex objective function.')\n\n        self.obj = obj\n        self.obj_ambiguity = ambset\n        self.sign = - 1",
    "        self.obj = obj\n        self.obj_ambiguity = ambset\n        self.sign = - 1")], 'dro.Model.maxinf')
M('R11-setter-wrong-sign', 'R11',
  [('lp.py', "        if isinstance(obj, Convex) and obj.sign == -1:\n            raise ValueError('Nonconvex objective function.')\n\n        self.obj = obj\n        self.sign = 1",
    "        if isinstance(obj, Convex) and obj.sign == 1:\n            raise ValueError('Nonconvex objective function.')\n\n        self.obj = obj\n        self.sign = 1")], 'lp.Model.min')

# ---------------------------------------------------------------------------------------- R30 and round-2 rules
M('R30-log-args-swapped', 'R30',
  [('gcp.py', "                            exp_cone_constr = ExpConstr(constr.model,\n                                                        exprs[1], exprs[0], 1)",
    "                            exp_cone_constr = ExpConstr(constr.model,\n                                                        exprs[0], exprs[1], 1)")], 'exp-cone roles for L')
M('R30-msk-triple', 'R30',
  [('msk_solver.py', "            M.constraint(x.pick([e[1], e[2], e[0]]), Domain.inPExpCone())", "            M.constraint(x.pick([e[0], e[1], e[2]]), Domain.inPExpCone())")],
  'exp-cone triple order')
M('R09-default-set-overrides', 'R09',
  [('ro.py', "                if constr.support:\n                    rc_constrs = constr.le_to_rc()\n                else:\n                    rc_constrs = constr.le_to_rc(self.obj_support)",
    "                rc_constrs = constr.le_to_rc(self.obj_support)")], 'ro.Model.do_math')
M('R15-rollback-sum-sizes', 'R15',
  [('gcp.py', "                self.last = self.vars[-1].first + self.vars[-1].size\n\n            more_exp = []", "                self.last = sum(var.size for var in self.vars)\n\n            more_exp = []")],
  'aux rollback position')
M('R21-bounds-skip-binaries', 'R21',
  [('lp.py', "        for i in range(nvar):\n            string += '{} <= x{} <= {}\\n'.format(lb[i], i+1, ub[i])",
    "        for i in range(nvar):\n            if self.vtype[i] == 'B':\n                continue\n            string += '{} <= x{} <= {}\\n'.format(lb[i], i+1, ub[i])")],
  'Bounds section')
M('R21-row-coeff-filter', 'R21',
  [('lp.py', "                    for coeff, index in zip(coeffs, indices)]",
    "                    for coeff, index in zip(coeffs, indices)\n                    if abs(coeff) > 1e-10]")],
  'row coefficients filtered')
M('R24-reshape-forwards-memo', 'R24',
  [('lp.py', "            new_const = np.array([self.const]).reshape(shape)\n        return Affine(self.model, self.linear, new_const)", "            new_const = np.array([self.const]).reshape(shape)\n        return Affine(self.model, self.linear, new_const, self.sparray)")],
  'sparray forwarded')
M('R26-grb-unscattered-pi', 'R26',
  [('grb_solver.py', "        pi = np.ones(formula.linear.shape[0]) * np.nan\n", "        pi = np.array(grb.getAttr('Pi', grb.getConstrs()))\n"),
   ('grb_solver.py', "        pi[indices_eq] = c_eq.pi\n        pi[indices_ineq] = c_ineq.pi\n", "")], 'pi not scattered back')
M('R27-events-as-series', 'R27',
  [('lp.py', "        self.ambset.exp_constr_indices.append(list(indices))", "        self.ambset.exp_constr_indices.append(indices)")],
  'exp_constr_indices element')
M('R31-reader-layout', 'R31',
  [('lp.py', "                indices = (self.ro_first + eindex*self.size +\n                           np.arange(self.size, dtype=int))", "                indices = (self.ro_first + eindex +\n                           np.arange(self.size, dtype=int))")],
  '', error_ok=True)
M('R31-writer-offset', 'R31',
  [('dro.py', "            dvar.ro_first = count\n            count += dvar.size*len(dvar.event_adapt)", "            count += dvar.size*len(dvar.event_adapt)\n            dvar.ro_first = count")],
  'ro_first recorded before')
M('R31-writer-block-length', 'R31',
  [('dro.py', "                start += size * len(dvar.event_adapt)\n                total_size += size", "                start += size\n                total_size += size")],
  'running sums')
M('R32-mass-of-first-scenario', 'R32',
  [('dro.py', "                      p[indices].sum() * exp_support.const)", "                      p[indices[0]] * exp_support.const)")], '', error_ok=True)
M('R32-mass-all-scenarios', 'R32',
  [('dro.py', "                      p[indices].sum() * exp_support.const)", "                      p.sum() * exp_support.const)")], '', error_ok=True)
M('R32-zip-swapped', 'R32',
  [('dro.py', "        for econstr, indices in zip(self.exp_constr, self.exp_constr_indices):", "        for indices, econstr in zip(self.exp_constr, self.exp_constr_indices):")],
  'mix_support')
M('R32-primal-lifted-set', 'R32',
  [('dro.py', "        mixed_support = ambset.mix_support(primal=False)", "        mixed_support = ambset.mix_support(primal=True)")], 'the dual of the lifted set')
M('R32-beta-column', 'R32',
  [('dro.py', "                left += var_exp_list[j][:num_rand] @ beta[:, j]", "                left += var_exp_list[j][:num_rand] @ beta[:, 0]")], 'event j')
M('R32-alpha-scenario', 'R32',
  [('dro.py', "                        right = alpha[s] + (z @ beta[:, event_indices]).sum()", "                        right = alpha[0] + (z @ beta[:, event_indices]).sum()")], 'scenario inequality')
M('R32-sense-lost', 'R32',
  [('dro.py', "            constr = LinConstr(affine.model, affine.linear, affine.const,\n                               exp_support.sense)", "            constr = LinConstr(affine.model, affine.linear, affine.const,\n                               np.zeros(affine.const.size))")],
  'lifted rows keep the senses')

# ---------------------------------------------------------------------------------------- R33
M('R33-gcd-after-degree', 'R33',
  [('lp.py', "        xbeta = int(2 ** np.ceil(np.log2(degree)) - degree)\n",
    "        xbeta = int(2 ** np.ceil(np.log2(degree)) - degree)\n        g = int(np.gcd.reduce(beta))\n        beta = [b // g for b in beta]\n")],
  expect='R33|lp.IPCone.to_pot')
M('R33-pad-floor', 'R33',
  [('lp.py', "xbeta = int(2 ** np.ceil(np.log2(degree)) - degree)", "xbeta = int(2 ** np.floor(np.log2(degree)) - degree)")],
  expect='R33|lp.IPCone.to_pot')
M('R33-pad-twice', 'R33',
  [('lp.py', "            beta.append(xbeta)\n", "            beta.append(xbeta)\n            beta.append(xbeta)\n")],
  expect='R33|lp.IPCone.to_pot')
M('R33-unpadded-path-sorted', 'R33',
  [('lp.py', "            return IPCone(self.left, self.right, beta), []", "            beta[0] += 1\n            return IPCone(self.left, self.right, beta), []")],
  expect='R33|lp.IPCone.to_pot')
M('R33-split-suffix-off-by-one', 'R33',
  [('lp.py', "                beta2 = [beta[index] - mid] + beta[index+1:]", "                beta2 = [beta[index] - mid] + beta[index:]")],
  expect='R33|lp.IPCone.split')
M('R33-split-mid-cum', 'R33',
  [('lp.py', "            mid = degree//2 - cum[index-1]", "            mid = degree//2 - cum[index]")],
  expect='R33|lp.IPCone.split')
M('R33-split-dominant-mid', 'R33',
  [('lp.py', "            mid = beta[index] - degree//2", "            mid = beta[index] - degree")],
  expect='R33|lp.IPCone.split')
M('R33-split-prefix-drops-mid', 'R33',
  [('lp.py', "            beta1 = beta[:index] + [mid]\n", "            beta1 = beta[:index+1]\n")],
  expect='R33|lp.IPCone.split')
T('R33-guard-clause', 'R33',
  [('lp.py', """        if xbeta > 0:
            s = model.dvar(aux=True).flatten()
            right = concat((self.right, s))
            beta.append(xbeta)
            return IPCone(s, right, beta), [s >= abs(self.left)]
        else:
            return IPCone(self.left, self.right, beta), []
""", """        if xbeta == 0:
            return IPCone(self.left, self.right, beta), []

        s = model.dvar(aux=True).flatten()
        right = concat((self.right, s))
        beta.append(xbeta)
        return IPCone(s, right, beta), [s >= abs(self.left)]
""")])
T('R33-split-mid-nonzero-spelling', 'R33',
  [('lp.py', "beta1 = beta[:index] + ([] if mid == 0 else [mid]) + beta[index+1:]",
    "beta1 = beta[:index] + ([mid] if mid != 0 else []) + beta[index+1:]")])

# ---------------------------------------------------------------------------------------- clauses added after seed round 4
M('R29-raffine-without-const', 'R29',
  [('lp.py', "        left = left + self.raffine[:, :num_rand] * support.const[:num_rand]\n",
    "        left = left + self.raffine[:, :num_rand]\n")], 'random coefficients in the stationarity rows')
M('R24-square-broadcast-conditional', 'R24',
  [('lp.py', "        if self.xtype in 'S':\n            affine_in = (affine_in.reshape(self.affine_out.shape) + 0*other)\n",
    "        if self.xtype in 'S' and np.size(other) > 1:\n            affine_in = (affine_in.reshape(self.affine_out.shape) + 0*other)\n")],
  'element-wise atom')
M('R10-slice-copies-mask', 'R10',
  [('lp.py', "        self.event_adapt = dvars.event_adapt\n        self.rand_adapt = dvars.rand_adapt\n        self.dvars = dvars\n",
    "        self.event_adapt = dvars.event_adapt\n        self.rand_adapt = np.array(dvars.rand_adapt)\n        self.dvars = dvars\n")],
  'slice state self.rand_adapt')
M('R35-searchsorted-unsorted', 'R35',
  [('gcp.py', "                socp_idx = flat(primal.qmat)\n", "                socp_idx = flat(primal.qmat)\n                below = np.searchsorted(np.array(socp_idx), pvar_num)\n")],
  'search on an unsorted sequence')
T('R35-searchsorted-sorted', 'R35',
  [('gcp.py', "                socp_idx = flat(primal.qmat)\n", "                socp_idx = flat(primal.qmat)\n                below = np.searchsorted(np.sort(socp_idx), pvar_num)\n")])

M('R36-rounded-eigenvalues-used', 'R36',
  [('lp.py', "        sqrt_mat = np.real(sqrtm(sign*qmat))\n", "        sqrt_mat = np.real(sqrtm(sign*qmat)) * (1 + 0*eighvals.sum())\n")],
  'rounded value')
M('R36-transpose-from-part', 'R36',
  [('lp.py', "        raffine = sp_trans(self) @ self.raffine\n        affine = self.affine.T\n",
    "        affine = self.affine.T\n        raffine = sp_trans(affine) @ self.raffine\n")], 'transpose permutation')
M('R20-reference-model-rebound', 'R20',
  [('lp.py', "        if model is None:\n            model = item.model\n            num_var = model.last\n        else:\n            if model != item.model:\n                raise ValueError('Model mismatch.')\n",
    "        if model is None or item.model.last > num_var:\n            model = item.model\n            num_var = model.last\n        else:\n            if model != item.model:\n                raise ValueError('Model mismatch.')\n")],
  'reference model re-bound')
M('R22-aux-upper-bound', 'R22',
  [('gcp.py', "            ub = np.concatenate((ub, np.ones(right_width) * np.inf))\n", "            ub = np.concatenate((ub, np.ones(right_width)))\n")],
  'to_socp', error_ok=True)
M('R27-scenario-keyed-memo', 'R27',
  [('dro.py', "        self.ro_model.reset()\n        self.rule_var()\n", "        self.ro_model.reset()\n        self.rule_var()\n        self.sup_memo = {}\n"),
   ('dro.py', "                    ew_constr = ew_constr.forall(support)\n",
    "                    if s not in self.sup_memo:\n                        self.sup_memo[s] = ew_constr.forall(support).support\n                    ew_constr.support = self.sup_memo[s]\n")],
  'under-keyed memo')
M('R39-compact-dual-without-unit-test', 'R39',
  [('socp.py', "            if (len(eye_block.data) + 1 == len(eye_block.indptr) and\n                    (eye_block.data == 1).all()):\n",
    "            if len(eye_block.data) + 1 == len(eye_block.indptr):\n")], 'compact SOC dual')          # F28 re-introduced
T('R39-unit-test-np-all', 'R39',
  [('socp.py', "                    (eye_block.data == 1).all()):\n", "                    np.all(eye_block.data == 1)):\n")])
