"""Mutants and twins for the rules.  Each edit is (file, old text, new text); `old` must match
exactly once in the current /repo/rsome/<file>."""

ENTRIES = []


def M(id, rule, edits, expect='', **kw):
    ENTRIES.append(dict(id=id, rule=rule, kind='mutant', edits=edits, expect=expect, **kw))


def T(id, rule, edits, **kw):
    ENTRIES.append(dict(id=id, rule=rule, kind='twin', edits=edits, **kw))


# ---------------------------------------------------------------------------------------- R01
M('R01-socp-drop-ip', 'R01',
  [('socp.py', "        self.cvx_constr = []\n        self.ip_constr = []\n\n    def st",
    "        self.cvx_constr = []\n\n    def st")], 'socp.Model.reset')        # F01 re-introduced
M('R01-gcp-drop-det', 'R01',
  [('gcp.py', "        self.ip_constr = []\n        self.det_constr = []\n",
    "        self.ip_constr = []\n")], 'gcp.Model.reset|self.det_constr')
M('R01-gcp-drop-exp', 'R01',
  [('gcp.py', "        self.cone_constr = []\n        self.exp_constr = []\n        self.other_constr = []\n        self.bounds = []",
    "        self.cone_constr = []\n        self.other_constr = []\n        self.bounds = []")],
  'gcp.Model.reset|self.exp_constr')
M('R01-conditional-clear', 'R01',
  [('socp.py', "        self.cvx_constr = []\n        self.ip_constr = []\n\n    def st",
    "        self.cvx_constr = []\n        if self.obj is None:\n            self.ip_constr = []\n\n    def st")],
  'socp.Model.reset|self.ip_constr')
M('R01-ro-reset-no-rc', 'R01',
  [('ro.py', "        self.dual = None\n        self.rc_model.reset()\n", "        self.dual = None\n")],
  'ro.Model.reset|self.rc_model.reset')
M('R01-new-container', 'R01',
  [('socp.py', "            self.cone_constr.append(constr)\n",
    "            self.cone_constr.append(constr)\n            self.cone_log.append(constr)\n")],
  'self.cone_log')
T('R01-clear-via-helper', 'R01',
  [('socp.py', "        self.cvx_constr = []\n        self.ip_constr = []\n\n    def st",
    "        self.cvx_constr = []\n        self._clear_ip()\n\n    def _clear_ip(self):\n\n        self.ip_constr = []\n\n    def st")])
T('R01-clear-method', 'R01',
  [('gcp.py', "        self.ip_constr = []\n        self.det_constr = []\n",
    "        self.ip_constr.clear()\n        self.det_constr = list()\n")])

# ---------------------------------------------------------------------------------------- R05
M('R05-objective-drop-N', 'R05',
  [('gcp.py', "if constr.xtype in 'XLPFN':\n                        more_others.append(constr)",
    "if constr.xtype in 'XLPF':\n                        more_others.append(constr)")],
  'objective:CvxConstr/N')                                                  # F02 re-introduced
M('R05-st-accept-unlowered', 'R05',
  [('socp.py', "elif constr.xtype in 'GCTC':", "elif constr.xtype in 'GCDTC':")],
  'route:CvxConstr/D')                                                      # F17 re-introduced
M('R05-drop-softplus-branch', 'R05',
  [('gcp.py', "                    elif constr.xtype == 'F':\n                        affine_out = constr.affine_out * (1/constr.multiplier)",
    "                    elif constr.xtype == 'f':\n                        affine_out = constr.affine_out * (1/constr.multiplier)")],
  'CvxConstr/F')
M('R05-shadow-pcvx', 'R05',
  [('gcp.py', "                if isinstance(constr, KLConstr):\n                    ns = constr.p.size",
    "                if isinstance(constr, (KLConstr, CvxConstr)):\n                    ns = constr.p.size")],
  'shadowed')
M('R05-ro-do-math-drops-kl', 'R05',
  [('ro.py', "            if isinstance(constr, (LinConstr, Bounds, CvxConstr, ConeConstr,\n                                   ExpConstr, KLConstr, LMIConstr, IPCone)):\n                self.rc_model.st(constr)",
    "            if isinstance(constr, (LinConstr, Bounds, CvxConstr, ConeConstr,\n                                   ExpConstr, LMIConstr, IPCone)):\n                self.rc_model.st(constr)")],
  'accepted-unhandled:KLConstr')
M('R05-lp-abs-letter', 'R05',
  [('lp.py', "                if constr.xtype == 'A':\n                    affine_in = constr.affine_in * constr.multiplier\n                    self.aux_constr.append(affine_in +\n                                           constr.affine_out <= 0)\n                    self.aux_constr.append(-affine_in +\n                                           constr.affine_out <= 0)\n                elif constr.xtype == 'M':",
    "                if constr.xtype == 'a':\n                    affine_in = constr.affine_in * constr.multiplier\n                    self.aux_constr.append(affine_in +\n                                           constr.affine_out <= 0)\n                    self.aux_constr.append(-affine_in +\n                                           constr.affine_out <= 0)\n                elif constr.xtype == 'M':")],
  'lp.Model')
T('R05-letters-as-tuple', 'R05',
  [('socp.py', "if constr.xtype in 'AMI':\n                super().st(constr)", "if constr.xtype in ('A', 'M', 'I'):\n                super().st(constr)")])
T('R05-reorder-independent-branches', 'R05',
  [('gcp.py', "        elif isinstance(constr, KLConstr):\n            self.other_constr.append(constr)\n        elif isinstance(constr, LMIConstr):\n            self.other_constr.append(constr)",
    "        elif isinstance(constr, LMIConstr):\n            self.other_constr.append(constr)\n        elif isinstance(constr, KLConstr):\n            self.other_constr.append(constr)")])

# ---------------------------------------------------------------------------------------- R04
M('R04-defsol-inplace', 'R04',
  [('lp.py', "        lb = formula.lb.copy()\n        ub = formula.ub.copy()\n        lb[bool_bin] = np.maximum(lb[bool_bin], 0)",
    "        lb = formula.lb\n        ub = formula.ub.copy()\n        lb[bool_bin] = np.maximum(lb[bool_bin], 0)")],
  'lp.def_sol')                                                             # F03 re-introduced
M('R04-tosocp-alias', 'R04',
  [('gcp.py', "        qmat = list(self.qmat)\n", "        qmat = self.qmat\n")], 'gcp.GCProg.to_socp')   # F11
M('R04-lpdual-view', 'R04',
  [('lp.py', "dual_const = primal.obj.reshape((nv, )).copy()", "dual_const = primal.obj.reshape((nv, ))")],
  'lp.Model.do_math')                                                       # F24
M('R04-eco-negate-bounds', 'R04',
  [('eco_solver.py', "    c = formula.obj\n", "    c = formula.obj\n    lbv = formula.lb\n    lbv[lbv == -np.inf] = -1e20\n")],
  'eco_solver.solve')
M('R04-letorc-sort-support', 'R04',
  [('lp.py', "        size_support = support.linear.shape[1]\n", "        size_support = support.linear.shape[1]\n        support.qmat.sort()\n")],
  'lp.RoConstr.le_to_rc')
M('R04-socp-dual-no-rebind', 'R04',
  [('socp.py', "                formula = SOCProg(linear, const, sense,\n                                  vtype, ub, lb, qmat, obj)\n\n            else:",
    "                formula = SOCProg(linear, const, sense,\n                                  vtype, ub, lb, qmat, obj)\n                if len(qmat) > 3:\n                    return formula\n\n            else:")],
  'socp.Model.do_math')
M('R04-grb-vtype-upper', 'R04',
  [('grb_solver.py', "    vtype = list(formula.vtype)\n", "    vtype = formula.vtype\n    vtype[vtype == 'B'] = 'I'\n")],
  'grb_solver.solve')
T('R04-copy-then-edit', 'R04',
  [('eco_solver.py', "    c = formula.obj\n", "    c = formula.obj\n    lbv = formula.lb.copy()\n    lbv[lbv == -np.inf] = -1e20\n")])
T('R04-np-array-copy', 'R04',
  [('lp.py', "        lb = formula.lb.copy()\n        ub = formula.ub.copy()\n", "        lb = np.array(formula.lb)\n        ub = formula.ub + 0\n")])

# ---------------------------------------------------------------------------------------- R03
M('R03-exppw-ctype', 'R03',
  [('lp.py', "            if isinstance(piece, DecAffine):\n                piece = DecAffine(piece.dro_model, piece, piece.event_adapt,\n                                  piece.fixed, 'E')\n            elif isinstance(piece, DecRoAffine):\n                piece = DecRoAffine(piece, piece.event_adapt, 'E')\n",
    "            if isinstance(piece, (DecAffine, DecRoAffine)):\n                piece.ctype = 'E'\n")],
  'lp.ExpPiecewiseConvex.__init__')                                         # F06 re-introduced
M('R03-neg-inplace', 'R03',
  [('lp.py', "    def __neg__(self):\n\n        return Affine(self.model, -self.linear, -self.const)",
    "    def __neg__(self):\n\n        self.const *= -1\n        return Affine(self.model, -self.linear, self.const)")],
  'lp.Affine.__neg__')
M('R03-add-other-const', 'R03',
  [('lp.py', "            new_const = other.const + self.const\n", "            other.const += self.const\n            new_const = other.const\n")],
  'lp.Affine.__add__')
M('R03-resize-unguarded', 'R03',
  [('subroutines.py', "    if left.shape[1] > right.shape[1]:\n        right.resize((right.shape[0], left.shape[1]))",
    "    if left.shape[1] != right.shape[1]:\n        right.resize((right.shape[0], left.shape[1]))")],
  'subroutines.add_linear')
M('R03-pw-add-mutates-pieces', 'R03',
  [('lp.py', "        pieces = [piece + other*self.sign for piece in self.pieces]\n\n        return PiecewiseConvex(self.model, pieces, self.sign, self.add_sign)",
    "        self.pieces[:] = [piece + other*self.sign for piece in self.pieces]\n\n        return self")],
  'lp.PiecewiseConvex.__add__')
T('R03-memo-sparray', 'R03',
  [('lp.py', "        new_affine = self.affine.sum(axis=axis)\n\n        svarray = self.affine.sv_array()",
    "        new_affine = self.affine.sum(axis=axis)\n\n        if self.affine.sparray is None:\n            self.affine.sparray = self.affine.sv_array()\n        svarray = self.affine.sv_array()")])

# ---------------------------------------------------------------------------------------- R23
M('R23-random-tiebreak', 'R23',
  [('subroutines.py', "import numpy as np\n", "import numpy as np\nimport random\n")], 'nondeterminism')
M('R23-set-iteration', 'R23',
  [('subroutines.py', "    for key in dc:\n", "    for key in set(dc):\n")], 'nondeterminism')
M('R23-bounds-values-inplace', 'R23',
  [('lp.py', "                if b.btype == 'U':\n                    ub[b.indices] = np.minimum(b.values, ub[b.indices])",
    "                if b.btype == 'U':\n                    b.values[b.values > 1e20] = np.inf\n                    ub[b.indices] = np.minimum(b.values, ub[b.indices])")],
  'lp.Model.do_math')
M('R23-rmul-scales-user-array', 'R23',
  [('lp.py', "    def __rmatmul__(self, other):\n\n        other = check_numeric(other)\n\n        new_const = other @ self.const\n        new_linear = sp_matmul(other, self, new_const.shape) @ self.linear\n\n        return Affine(",
    "    def __rmatmul__(self, other):\n\n        other = check_numeric(other)\n        other[np.isnan(other)] = 0\n\n        new_const = other @ self.const\n        new_linear = sp_matmul(other, self, new_const.shape) @ self.linear\n\n        return Affine(")],
  'lp.Affine.__rmatmul__')
M('R23-hash-order', 'R23',
  [('dro.py', "        self.dec_vars.append(dec_var)\n", "        self.dec_vars.append(dec_var)\n        self.dec_vars.sort(key=lambda v: id(v))\n")],
  'nondeterminism')
T('R23-sorted-set', 'R23',
  [('subroutines.py', "    for key in dc:\n", "    for key in sorted(set(dc)):\n")])
