"""Self-validation of the rules (thorough tier).

For each rule a catalogue of
  * mutants: one instance of the rule broken in a scratch copy of /repo/rsome (the copy still
    parses); the rule must report a *new* finding naming the expected function;
  * twins: behaviour-preserving rewrites; the rule must stay silent (an ANALYSIS-ERROR is
    recorded as "blind" -- acceptable only where the entry says so).
Edits are (file, old, new) text replacements that must match exactly once in the current
source; an entry whose anchor text no longer exists is reported as stale (and the run fails
when too many are stale: the catalogue no longer describes the tree).

Scratch copies live under $(mktemp -d) outside /repo and /verif and are removed immediately.
"""
import importlib
import os
import shutil
import sys
import tempfile
from concurrent.futures import ProcessPoolExecutor

HERE = os.path.dirname(os.path.dirname(os.path.abspath(__file__)))
sys.path.insert(0, HERE)

from rsx.loader import Repo, AnalysisError, REPO      # noqa: E402


def catalogue():
    from selftest.catalogue import ENTRIES
    return ENTRIES


def _rule_module(rid):
    for f in os.listdir(os.path.join(HERE, 'rules')):
        if f.startswith('r' + rid[1:3]) and f.endswith('.py'):
            return 'rules.' + f[:-3]
    raise AnalysisError('no module for rule %s' % rid)


_BASE = {}          # rule -> findings on the tree itself (per worker process; the tree does not change during a run)
_REPOS = {}         # scratch root -> Repo (one load per scratch tree, shared by the rules run on it)


def _findings(root, rid):
    if root == REPO and rid in _BASE:
        if isinstance(_BASE[rid], Exception):
            raise _BASE[rid]
        return _BASE[rid]
    if root not in _REPOS:
        if len(_REPOS) > 2:
            _REPOS.clear()
        _REPOS[root] = Repo(root)
    repo = _REPOS[root]
    mod = importlib.import_module(_rule_module(rid))
    try:
        res = mod.run(repo)
        res.check_floor()
        res.check_opaque(repo)
    except AnalysisError as exc:
        if root == REPO:
            _BASE[rid] = exc
        raise
    out = {f.key: f for f in res.findings}
    if root == REPO:
        _BASE[rid] = out
    return out


def _run_entry(entry):
    eid = entry['id']
    src = os.path.join(REPO, 'rsome')
    tmp = tempfile.mkdtemp(prefix='rsx_mut_')
    try:
        dst = os.path.join(tmp, 'rsome')
        shutil.copytree(src, dst, ignore=shutil.ignore_patterns('__pycache__'))
        for (fname, old, new) in entry['edits']:
            path = os.path.join(dst, fname)
            with open(path) as fh:
                text = fh.read()
            if text.count(old) != 1:
                return {'id': eid, 'status': 'stale', 'detail': '%s: anchor matches %d times'
                        % (fname, text.count(old))}
            text = text.replace(old, new)
            try:
                compile(text, path, 'exec')
            except SyntaxError as exc:
                return {'id': eid, 'status': 'stale', 'detail': 'edit does not compile: %s' % exc}
            with open(path, 'w') as fh:
                fh.write(text)
        out = {'id': eid, 'rule': entry['rule'], 'kind': entry['kind']}
        try:
            base = _findings(REPO, entry['rule'])
        except AnalysisError as exc:
            return {'id': eid, 'status': 'error', 'detail': 'baseline: %s' % exc}
        try:
            got = _findings(tmp, entry['rule'])
        except AnalysisError as exc:
            if entry['kind'] == 'twin':
                out['status'] = 'blind' if entry.get('blind_ok') else 'twin-error'
            else:
                # a mutant that makes the tree uninterpretable is detected (exit 2), but it is
                # not *named*; count it separately
                out['status'] = 'killed-as-analysis-error' if entry.get('error_ok') else 'survived'
            out['detail'] = str(exc)
            return out
        new = [k for k in got if k not in base]
        if entry['kind'] == 'mutant':
            exp = entry.get('expect', '')
            hit = [k for k in new if exp in k]
            out['status'] = 'killed' if hit else 'survived'
            out['detail'] = hit[:2] if hit else new[:3]
        else:
            out['status'] = 'silent' if not new else 'twin-alarm'
            out['detail'] = new[:3]
        return out
    finally:
        shutil.rmtree(tmp, ignore_errors=True)


def _run_patch_twin(args):
    """A whole behaviour-preserving refactoring (selftest/twins/<name>.diff, each confirmed against
    the test suite and an output-equivalence script when it was written) applied to a scratch
    copy: no requested rule may report a finding it does not report on the tree itself."""
    name, rules = args
    import subprocess
    diff = os.path.join(HERE, 'selftest', 'twins', name + '.diff')
    tmp = tempfile.mkdtemp(prefix='rsx_twin_')
    try:
        shutil.copytree(os.path.join(REPO, 'rsome'), os.path.join(tmp, 'rsome'),
                        ignore=shutil.ignore_patterns('__pycache__'))
        pr = subprocess.run(['patch', '-p1', '-s', '--no-backup-if-mismatch', '-i', diff], cwd=tmp,
                            capture_output=True, text=True)
        if pr.returncode != 0:
            return [{'id': 'TWIN-%s' % name, 'kind': 'twin', 'rule': '*', 'status': 'stale',
                     'detail': 'patch no longer applies'}]
        out = []
        for rid in rules:
            rec = {'id': 'TWIN-%s/%s' % (name, rid), 'kind': 'twin', 'rule': rid}
            try:
                base = _findings(REPO, rid)
            except AnalysisError as exc:
                rec.update(status='error', detail='baseline: %s' % exc)
                out.append(rec)
                continue
            try:
                got = _findings(tmp, rid)
                new = [k for k in got if k not in base]
                rec.update(status='silent' if not new else 'twin-alarm', detail=new[:3])
            except AnalysisError as exc:
                rec.update(status='blind', detail=str(exc)[:160])
            out.append(rec)
        return out
    finally:
        shutil.rmtree(tmp, ignore_errors=True)


def _run_seed(args):
    """a kept seeded change (seeded/<id>/patch.diff) that is recorded as caught for this property:
    at least one of the property's rules must report a finding the tree itself does not have"""
    sid, rules = args
    import subprocess
    diff = os.path.join(HERE, 'seeded', sid, 'patch.diff')
    tmp = tempfile.mkdtemp(prefix='rsx_seed_')
    try:
        shutil.copytree(os.path.join(REPO, 'rsome'), os.path.join(tmp, 'rsome'),
                        ignore=shutil.ignore_patterns('__pycache__'))
        pr = subprocess.run(['patch', '-p1', '-s', '--no-backup-if-mismatch', '-i', diff], cwd=tmp,
                            capture_output=True, text=True)
        if pr.returncode != 0:
            return {'id': 'SEED-' + sid, 'kind': 'mutant', 'rule': '*', 'status': 'stale',
                    'detail': 'patch no longer applies (the tree has moved on)'}
        hits, blind = [], []
        for rid in rules:
            try:
                base = _findings(REPO, rid)
                got = _findings(tmp, rid)
                hits += [k for k in got if k not in base]
            except AnalysisError as exc:
                blind.append('%s: %s' % (rid, str(exc)[:80]))
        return {'id': 'SEED-' + sid, 'kind': 'mutant', 'rule': '*',
                'status': 'killed' if hits else 'survived', 'detail': hits[:2] or blind[:2]}
    finally:
        shutil.rmtree(tmp, ignore_errors=True)


def seeds_for(prop):
    import json
    out = []
    d = os.path.join(HERE, 'seeded')
    if not os.path.isdir(d):
        return out
    for sid in sorted(os.listdir(d)):
        mp = os.path.join(d, sid, 'meta.json')
        if not os.path.isfile(mp):
            continue
        try:
            meta = json.load(open(mp))
        except ValueError:
            continue
        if meta.get('breaks_property') == prop and prop in meta.get('checks_that_fire_now', []):
            out.append(sid)
    return out


def patch_twins():
    d = os.path.join(HERE, 'selftest', 'twins')
    return sorted(f[:-5] for f in os.listdir(d) if f.endswith('.diff')) if os.path.isdir(d) else []


def run_for_rules(rules, jobs=None, prop=None):
    entries = [e for e in catalogue() if e['rule'] in rules]
    jobs = jobs or min(16, max(1, len(entries)))
    results = []
    if entries:
        with ProcessPoolExecutor(max_workers=jobs) as ex:
            results = list(ex.map(_run_entry, entries))
    # the red-team edits (selftest/adv): each one against the rule it was written for
    try:
        from selftest import adv as _adv
        todo = [(n, r, p_, ()) for n, r, p_ in _adv.entries(set(rules))]
        if todo:
            with ProcessPoolExecutor(max_workers=min(16, len(todo))) as ex:
                for name, rid, st, detail in ex.map(_adv.run_one, todo):
                    results.append({'id': 'ADV-' + name, 'kind': 'twin', 'rule': rid,
                                    'status': {'silent': 'silent', 'blind': 'blind', 'stale': 'stale'}.get(st, 'twin-alarm'),
                                    'detail': detail})
    except ImportError:
        pass
    if prop is not None:
        sd = [(sid, sorted(rules)) for sid in seeds_for(prop)]
        if sd:
            with ProcessPoolExecutor(max_workers=min(16, len(sd))) as ex:
                results.extend(ex.map(_run_seed, sd))
    tw = [(name, sorted(rules)) for name in patch_twins()]
    if tw:
        with ProcessPoolExecutor(max_workers=min(16, len(tw))) as ex:
            for lst in ex.map(_run_patch_twin, tw):
                results.extend(lst)
    stale = [r['id'] for r in results if r['status'] == 'stale']
    errors = [r for r in results if r['status'] == 'error']
    if errors:
        raise AnalysisError('self-validation could not run: %s' % errors[0]['detail'])
    mutants = [r for r in results if r.get('kind') == 'mutant']
    twins = [r for r in results if r.get('kind') == 'twin']
    survivors = [r['id'] for r in mutants if r['status'] == 'survived']
    alarms = [r['id'] for r in twins if r['status'] in ('twin-alarm', 'twin-error')]
    if entries and len(stale) * 3 > len(entries):
        raise AnalysisError('%d of %d self-validation entries are stale: %s'
                            % (len(stale), len(entries), stale[:5]))
    return {'mutants_total': len(mutants),
            'mutants_killed': sum(1 for r in mutants if r['status'].startswith('killed')),
            'twins_total': len(twins),
            'twins_silent': sum(1 for r in twins if r['status'] == 'silent'),
            'twins_blind': [r['id'] for r in twins if r['status'] == 'blind'],
            'stale': stale, 'survivors': survivors, 'twin_alarms': alarms,
            'results': results}


if __name__ == '__main__':
    import json
    rules = sys.argv[1:] or sorted({e['rule'] for e in catalogue()})
    r = run_for_rules(rules)
    for x in r['results']:
        print('%-28s %-8s %s' % (x['id'], x['status'], str(x.get('detail', ''))[:140]))
    print(json.dumps({k: v for k, v in r.items() if k != 'results'}))
    sys.exit(0 if not r['survivors'] and not r['twin_alarms'] else 1)
