"""Regression suite of small behaviour-preserving edits (selftest/adv/*.diff).

Each diff was written by a red-team sub-agent that read the rule's source and looked for an
edit of rsome that cannot change behaviour but that the rule (named in the file name,
A<k>_<rule>_<n>.diff) would misreport.  The suite applies each diff alone to a scratch copy and
runs the rule: `silent` is the wanted outcome, `blind` (ANALYSIS-ERROR, exit 2) is tolerated,
`alarm` (a finding that the tree itself does not have) is a false alarm of the checker.

usage:  python -m selftest.adv [Rxx ...] [--all-rules]     (exit 1 when an alarm remains)
"""
import os
import re
import shutil
import subprocess
import sys
import tempfile
from concurrent.futures import ProcessPoolExecutor

HERE = os.path.dirname(os.path.dirname(os.path.abspath(__file__)))
sys.path.insert(0, HERE)

from rsx.loader import AnalysisError, REPO      # noqa: E402
from selftest.mutants import _findings          # noqa: E402

ADV = os.path.join(HERE, 'selftest', 'adv')
# edits whose author flagged them as not strictly behaviour-preserving (kept for reference only)
EXCLUDED = {
    'A8_R27_15',      # ValueError instead of IndexError on an empty event (its author's own caveat)
    'A2_R03_13',      # extracts a helper that does write self.linear (called on a fresh copy): debatable by its author
    'A2_R03_8',       # `raffine *= M` on a scipy sparse matrix: in-place for scalars, rebinding otherwise -- not exact
    'A3_R06_9',       # adds a new public module-level name (public API change)
}


def entries(rules=None):
    out = []
    for f in sorted(os.listdir(ADV)):
        m = re.match(r'([ABC]\d+)_(R\d+)_(\w+)\.diff$', f)
        if not m or f[:-5] in EXCLUDED:
            continue
        if rules and m.group(2) not in rules:
            continue
        out.append((f[:-5], m.group(2), os.path.join(ADV, f)))
    return out


def run_one(args):
    name, rid, path, extra_rules = args
    tmp = tempfile.mkdtemp(prefix='rsx_adv_')
    try:
        shutil.copytree(os.path.join(REPO, 'rsome'), os.path.join(tmp, 'rsome'),
                        ignore=shutil.ignore_patterns('__pycache__'))
        pr = subprocess.run(['patch', '-p1', '-s', '--no-backup-if-mismatch', '-i', path], cwd=tmp,
                            capture_output=True, text=True)
        if pr.returncode != 0:
            return name, rid, 'stale', 'patch does not apply'
        worst = ('silent', '')
        for r in [rid] + list(extra_rules):
            try:
                base = _findings(REPO, r)
                got = _findings(tmp, r)
                new = [k for k in got if k not in base]
                if new:
                    return name, r, 'alarm', new[0][:150]
            except AnalysisError as exc:
                worst = ('blind', '%s: %s' % (r, str(exc)[:120]))
            except Exception as exc:      # noqa: BLE001
                worst = ('blind', '%s: internal %r' % (r, exc))
        return name, rid, worst[0], worst[1]
    finally:
        shutil.rmtree(tmp, ignore_errors=True)


def run(rules=None, extra_rules=(), jobs=16):
    es = [(n, r, p, tuple(extra_rules)) for n, r, p in entries(rules)]
    with ProcessPoolExecutor(max_workers=jobs) as ex:
        return list(ex.map(run_one, es))


if __name__ == '__main__':
    args = [a for a in sys.argv[1:] if not a.startswith('--')]
    res = run(set(args) or None)
    counts = {}
    for name, rid, st, detail in res:
        counts[st] = counts.get(st, 0) + 1
        if st != 'silent' or '--verbose' in sys.argv:
            print('%-14s %-6s %s' % (name, st, detail))
    print(counts)
    sys.exit(1 if counts.get('alarm') else 0)
