"""F15 (C10): an objective of the wrong curvature is accepted by min()/max() and only rejected
later, when the model is formulated (the property asks for rejection no later than hand-over)."""
from rsome import ro, dro
import rsome as rso
for front in ('ro', 'dro'):
    m = ro.Model() if front == 'ro' else dro.Model(2)
    x = m.dvar(3)
    try:
        m.min(rso.log(x[0]))            # minimising a concave function
    except ValueError as e:
        print(front, 'min(log x) raises at hand-over:', e)
    else:
        raise AssertionError(front + ': min(log x) accepted by min()')
    m = ro.Model() if front == 'ro' else dro.Model(2)
    x = m.dvar(3)
    try:
        m.max(rso.norm(x, 2))           # maximising a convex function
    except ValueError as e:
        print(front, 'max(norm x) raises at hand-over:', e)
    else:
        raise AssertionError(front + ': max(norm x) accepted by max()')
    m = ro.Model() if front == 'ro' else dro.Model(2)
    x = m.dvar(3)
print('OK')
