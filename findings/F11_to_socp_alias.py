"""F11 (C18, C19): GCProg.to_socp() appends its approximation cones to the qmat list of the
*cached* exact program.  soc_solve() followed by solve() then fails / solves another program."""
from rsome import ro
import rsome as rso
from rsome import eco_solver as eco
m = ro.Model()
x = m.dvar()
m.min(x)
m.st(rso.exp(x) <= 5, x >= 1)
n0 = len(m.do_math().qmat)
m.soc_solve(eco, display=False)
n1 = len(m.do_math().qmat)
print('SOC cones in the cached exact program before/after soc_solve:', n0, n1)
assert n0 == n1
m.solve(eco, display=False)
assert abs(m.get() - 1.0) < 1e-5
