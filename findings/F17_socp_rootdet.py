"""F17 (C06): a bare socp.Model accepts a root-determinant constraint and drops it silently."""
from rsome import socp
import rsome as rso

m = socp.Model()
X = m.dvar((2, 2))
try:
    m.st(rso.rootdet(X) >= 1)
except (ValueError, TypeError) as e:
    print('raises:', e)
else:
    f = m.do_math()
    print(f)
    raise AssertionError('constraint accepted by socp.Model.st but absent from the program')
