"""F05 (C07, C09): after solve -> st -> solve of an ro model with integers, a robust constraint
and an atom needing auxiliary columns, the integrality vector is shorter than the number of
columns (types concatenated in list order although the column blocks have a gap)."""
from rsome import ro
import rsome as rso
import numpy as np
m = ro.Model()
x = m.dvar(3, 'I')
y = m.dvar(2)
z = m.rvar(2)
m.min(x.sum() + y.sum())
m.st((x[:2] + y >= z).forall(abs(z) <= 1))
m.st(rso.norm(y, 1) <= 5, x >= 0, y >= -3)
m.solve(display=False)
v1 = m.get()
m.st(x[2] >= 1)
f = m.do_math()
print('columns:', f.linear.shape[1], ' len(vtype):', len(f.vtype))
assert f.linear.shape[1] == len(f.vtype)
m.solve(display=False)
print(v1, m.get())
