"""F07 (C04): DecAffine.sum() / .trace() drop the expectation marker: E(y).sum() <= 1 is
compiled as a worst-case constraint instead of an expectation constraint."""
from rsome import dro, E
m = dro.Model(2)
y = m.dvar(3)
e = E(y)
print('ctype of E(y):', e.ctype, ' of E(y).sum():', e.sum().ctype)
Y = m.dvar((2, 2))
print('ctype of E(Y).trace():', E(Y).trace().ctype)
assert e.sum().ctype == 'E' and E(Y).trace().ctype == 'E'
