"""F08 (C09): changing an ambiguity set after a solve is ignored: the dro model keeps its
cached program.  max-min of z over |z|<=1, then suppset(|z|<=3): 1.0 again instead of 3.0."""
from rsome import dro, E
from rsome import eco_solver as eco
m = dro.Model(1)
x = m.dvar()
z = m.rvar()
fset = m.ambiguity()
fset.suppset(abs(z) <= 1)
m.minsup(x, fset)
m.st(x >= z)
m.solve(eco, display=False)
v1 = m.get()
fset.suppset(abs(z) <= 3)
m.solve(eco, display=False)
v2 = m.get()
print(v1, v2)
assert abs(v1 - 1) < 1e-5 and abs(v2 - 3) < 1e-5, (v1, v2)
