"""F23 (C06): PerspConvex inherits Convex.sum(), which returns a plain Convex without the
perspective scale: pexp(x, s).sum() <= t is compiled as exp(x_i) <= t.
x = (1, 1), s = 2:  2*exp(1/2)*2 = 6.595 expected, 2.718 obtained."""
from rsome import ro
import rsome as rso
import numpy as np
from rsome import eco_solver as eco
m = ro.Model()
x = m.dvar(2)
t = m.dvar()
m.min(t)
m.st(x == np.ones(2))
m.st(rso.pexp(x, 2).sum() <= t)
m.solve(eco, display=False)
print(m.get(), 'expected', 2 * 2 * np.exp(0.5))
assert abs(m.get() - 4 * np.exp(0.5)) < 1e-4
