"""F04 (C08): the LP dual appends, for a variable fixed by its bounds (lb == ub = c != 0), the row
-x = +c next to x <= c and -x <= -c: the represented set is empty and the "dual" of a feasible
bounded LP is infeasible/unbounded.   min 3 x0 + x1  s.t. x1 >= 0, 1 <= x0 <= 1  -> primal 3, dual -3."""
from rsome import ro
from rsome import eco_solver as eco
import numpy as np
m = ro.Model()
x = m.dvar(2)
m.min(3 * x[0] + x[1])
m.st(x[1] >= 0, x[0] >= 1, x[0] <= 1)
m.solve(eco, display=False)
p = m.get()
d = eco.solve(m.do_math(primal=False), display=False)
print('primal', p, 'dual', d.objval)
assert abs(p - 3) < 1e-6 and not np.isnan(d.objval) and abs(d.objval + 3) < 1e-6
