"""F27 (C12): DecVar.get() labels per-scenario results in scenario order but enumerates them in
the order in which the scenarios appear in the event partition (dict insertion order of
event_dict).  When adapt() calls are made out of scenario order the Series pairs values with the
wrong scenario labels; x() (evaluation) is right."""
from rsome import dro, E
from rsome import eco_solver as eco
m = dro.Model(3)
x = m.dvar()
z = m.rvar()
fset = m.ambiguity()
for s, v in enumerate([1.0, 2.0, 3.0]):
    fset[s].suppset(z == v)
pr = m.p
fset.probset(pr == 1 / 3)
m.minsup(E(x), fset)
x.adapt(2)          # out of scenario order
x.adapt(0)
m.st(x >= z)
m.solve(eco, display=False)
got = x.get()
print(got)
vals = [float(got.loc[s]) for s in range(3)]
print('x.get() by scenario label:', vals, ' expected [1, 2, 3]')
assert all(abs(v - e) < 1e-5 for v, e in zip(vals, [1.0, 2.0, 3.0])), vals
