"""F12 (C04, C03): an exponential-cone constraint in exptset() is dropped: mix_support copies
the SOC part (qmat) of each expectation set but not its exp-cone part (xmat).
min_x>=0 sup E[x+z] s.t. z in [-10,10], exp(E[z]) <= e   ->  1.0 ; buggy tree: 10.0."""
from rsome import dro, E
import rsome as rso
import numpy as np
from rsome import eco_solver as eco
m = dro.Model(1)
x = m.dvar()
z = m.rvar()
fset = m.ambiguity()
fset.suppset(abs(z) <= 10)
fset.exptset(rso.exp(E(z)) <= np.e)
m.minsup(E(x + z), fset)
m.st(x >= 0)
m.solve(eco, display=False)
print(m.get())
assert abs(m.get() - 1.0) < 1e-4, m.get()
