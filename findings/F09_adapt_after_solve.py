"""F09 (C13, C09): declaring adaptation after the decision rule was expanded is neither
rejected nor honoured: the cached expansion is kept, and read-back breaks."""
from rsome import dro, E
from rsome import eco_solver as eco
m = dro.Model(2)
x = m.dvar()
z = m.rvar()
fset = m.ambiguity()
fset[0].suppset(z == 1)
fset[1].suppset(z == 3)
m.minsup(E(x), fset)
m.st(x >= z)
m.solve(eco, display=False)
print('static:', m.get())          # 3.0
try:
    x.adapt(0)
except Exception as e:
    print('adapt after formulation raises:', type(e).__name__, e)
else:
    m.st(x >= 0)
    m.solve(eco, display=False)
    print('after adapt:', m.get())
    print(x.get())                 # IndexError on the buggy tree
    raise AssertionError('adaptation declared after expansion was silently ignored')
