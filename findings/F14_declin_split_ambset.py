"""F14 (C03, C09, C15): an equality between affinely adaptive decisions carrying its own set via
forall() loses that set when it is split into two inequalities (DecLinConstr branch of
ro_to_roc); it is then checked against the default set.  (y == w) over S={z=0} with
y = a+b z, w = c+d z adaptive, default set |z|<=1 plus y >= z + 1, w <= z - 1:
as two inequalities with forall(S) the model is feasible; as an equality it is infeasible."""
from rsome import dro
from rsome import eco_solver as eco
import warnings
warnings.simplefilter('ignore')

def build(as_equality):
    m = dro.Model(1)
    y = m.dvar(); w = m.dvar()
    z = m.rvar()
    y.adapt(z); w.adapt(z)
    fset = m.ambiguity()
    fset.suppset(abs(z) <= 1)
    m.minsup(0 * y, fset)
    S = [z == 0]
    if as_equality:
        m.st((y == w).forall(S))
    else:
        m.st((y <= w).forall(S), (y >= w).forall(S))
    m.st(y >= 2 * z + 1, w <= 1 - z)
    m.solve(eco, display=False)
    return m.optimal()

a = build(False)
b = build(True)
print('feasible as two inequalities:', a, ' as an equality:', b)
assert a and b
