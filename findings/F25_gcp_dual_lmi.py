"""F25 (C19, C09): building the conic dual trims the SOC columns out of the LMI blocks of the
*cached primal* in place; the primal returned afterwards (same object) has LMI matrices whose
columns no longer line up with the variables."""
from rsome import ro
import rsome as rso
import numpy as np
m = ro.Model()
x = m.dvar(2)
X = m.dvar((2, 2))
z = m.rvar(2)
m.min(x.sum() - rso.logdet(X))
m.st((x @ z <= 1).forall(rso.norm(z, 2) <= 1))   # robust counterpart: SOC over multiplier columns
m.st(X << 2 * np.eye(2))
p = m.do_math()
ncol = p.linear.shape[1]
def dense(c):
    a = c['linear'].toarray()
    out = np.zeros((a.shape[0], ncol)); out[:, :a.shape[1]] = a
    return out
before = [dense(c) for c in p.lmi]
m.do_math(primal=False)
p2 = m.do_math()
assert p is p2
after = [dense(c) for c in p2.lmi]
same = all((a == b).all() for a, b in zip(before, after))
print('LMI blocks of the cached primal unchanged by building the dual:', same)
assert same, 'LMI coefficients of the cached primal moved to other columns'
