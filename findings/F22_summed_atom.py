"""F22 (C06, C12): Convex.sum() stores the axis in a field nothing ever reads, and negation /
addition / scaling / comparison do not pass it on: exp(x).sum() <= t is compiled as
max_i exp(x_i) <= t.   x = (0.1, 0.5, 1):  min t = 2.718 (max) instead of 5.472 (sum)."""
from rsome import ro
import rsome as rso
import numpy as np
from rsome import eco_solver as eco
m = ro.Model()
x = m.dvar(3)
t = m.dvar()
m.min(t)
m.st(x == np.array([0.1, 0.5, 1.0]))
m.st(rso.exp(x).sum() <= t)
m.solve(eco, display=False)
print(m.get(), 'expected', np.exp([0.1, 0.5, 1.0]).sum())
assert abs(m.get() - np.exp([0.1, 0.5, 1.0]).sum()) < 1e-4
