"""F21 (C10): in dro models a piecewise-convex expression is accepted on the non-convex side when
the affine operand is written first:  x <= maxof(y0, y1)  is accepted (ro raises; and
maxof(y0, y1) >= x raises in dro too) and compiles to  x <= y0 and x <= y1, i.e. x <= min."""
from rsome import dro
import rsome as rso
m = dro.Model(1)
x = m.dvar()
y = m.dvar(2)
try:
    c = (x <= rso.maxof(y[0], y[1]))
except ValueError as e:
    print('raises:', e)
else:
    raise AssertionError('non-convex constraint accepted: %r' % c)
