"""F24 (C19, C09): building the LP dual negates, in place, entries of the *cached primal's*
objective vector for variables with ub == 0 (dual_const is a reshape-view of primal.obj)."""
from rsome import ro
m = ro.Model()
z = m.rvar(2)
sm = m.sup_model
sm.st(z <= 0)
p = sm.do_math(obj=False)
before = p.obj.copy()
sm.do_math(primal=False, obj=False)
after = sm.do_math(obj=False).obj
print(before, after)
assert (before == after).all(), 'primal formula changed by formulating its dual'
