"""F19 (C12): Convex.__call__ adds value_out twice for power atoms: (power(x,3) + 5)() = x^3 + 10.
F20 (C12): entropy is created concave (sign -1) but evaluated as sign * sum(v log(1/v)), i.e.
minus the entropy: entropy(p)() returns -1.0297 instead of +1.0297 (ro and dro evaluators)."""
from rsome import ro, dro
import rsome as rso
import numpy as np
from rsome import eco_solver as eco
m = ro.Model()
x = m.dvar()
p = m.dvar(3)
m.min(x)
pv = np.array([0.2, 0.3, 0.5])
m.st(x == 2, p == pv)
m.solve(eco, display=False)
f = rso.power(x, 3) + 5
h = rso.entropy(p)
print('power(x,3)+5 at x=2:', f(), '(expected 13)')
print('entropy(p):', h(), '(expected %.4f)' % -(pv * np.log(pv)).sum())
ok1 = abs(f() - 13) < 1e-5
ok2 = abs(h() + (pv * np.log(pv)).sum()) < 1e-5
md = dro.Model(1)
q = md.dvar(3)
md.min(q.sum())
md.st(q == pv)
md.solve(eco, display=False)
hd = rso.entropy(q)
print('dro entropy(q):', hd())
ok3 = abs(hd() + (pv * np.log(pv)).sum()) < 1e-5
assert ok1 and ok2 and ok3, (ok1, ok2, ok3)
