"""F28 (C08): the compact SOC dual layout was used for cone rows with coefficients other than 1.

exit 0: for every model below the optimum of do_math(primal=False) is minus the optimum of do_math(primal=True)
exit 1: otherwise (the tree before the fix: 7 of 12 mismatch, e.g. norm(z) <= 1.5 gives 4.1213 against -3.4142)
run:  cd /repo && /venv/bin/python /verif/findings/F28_soc_dual_compact.py
"""
import os
import sys
import numpy as np
from rsome import ro
from rsome import eco_solver as eco
import rsome as rso


def quiet(f, *a, **k):
    fd = os.dup(1)
    devnull = os.open(os.devnull, os.O_WRONLY)
    os.dup2(devnull, 1)
    try:
        return f(*a, **k)
    finally:
        os.dup2(fd, 1)
        os.close(devnull)


bad = 0
rng = np.random.default_rng(1)
for case in range(12):
    r = [0.5, 1.0, 1.5, 2.0][case % 4]
    n = 2 + case % 3
    m = ro.Model()
    x = m.dvar(n)
    z = m.rvar(n)
    c = rng.normal(size=n).round(2)
    if case < 4:
        uset = (rso.norm(z) <= r,)
    elif case < 8:
        uset = (rso.norm(z * (1 + np.arange(n))) <= r, )
    else:
        uset = (rso.norm(z - 0.3) <= r, rso.norm(z, 1) <= 2*r)
    m.minmax(c @ x + (x*z).sum(), *uset)
    m.st(x >= 1, x <= 3)
    sp = quiet(m.do_math(primal=True).solve, eco)
    sd = quiet(m.do_math(primal=False).solve, eco)
    ok = abs(sp.objval + sd.objval) < 1e-4 * max(1, abs(sp.objval))
    bad += not ok
    sys.stderr.write('case %d r=%s primal %.5f dual %.5f %s\n' % (case, r, sp.objval, sd.objval, 'ok' if ok else 'MISMATCH'))
sys.exit(1 if bad else 0)
