"""F10 (C09): adding a decision variable to a dro model after it was formulated breaks the
next formulation (stale event-wise expansion)."""
from rsome import dro
from rsome import eco_solver as eco
m = dro.Model(1)
x = m.dvar()
z = m.rvar()
fset = m.ambiguity()
fset.suppset(abs(z) <= 1)
m.minsup(x, fset)
m.st(x >= z)
m.solve(eco, display=False)
print(m.get())
y = m.dvar()
m.st(x >= y, y >= 2)
m.solve(eco, display=False)
print(m.get(), y.get(), x.get())
assert abs(m.get() - 2) < 1e-5
