"""F26 (C10): a piecewise expression scaled by zero swallows whatever is added to / compared with
it afterwards:  0*maxof(x, y) <= -1  (i.e. 0 <= -1, infeasible) is compiled as 0 <= 0.
PiecewiseConvex.__add__ pushes the added term into the pieces multiplied by self.sign, which is 0
after the scaling."""
from rsome import ro
import rsome as rso
m = ro.Model()
x = m.dvar()
y = m.dvar()
m.min(x + y)
m.st(x >= 0, y >= 0)
m.st(0 * rso.maxof(x, y) <= -1)
m.solve(display=False)
print('optimal?', m.optimal(), '(the model is infeasible: 0 <= -1)')
assert not m.optimal()
