"""F16 (C09): reset() of the shared support model leaves the dual cache valid.  A set defined
with no constraints (forall() with an empty argument list) re-uses the previous set."""
from rsome import ro
m = ro.Model()
x = m.dvar()
z = m.rvar()
c1 = (x >= z).forall(abs(z) <= 5)
c2 = (x >= 2 * z).forall()          # whole space: no x can satisfy it -> infeasible
n1 = c1.support.linear.shape
n2 = c2.support.linear.shape
print('support of c1', n1, 'support of c2', n2, 'same object:', c1.support is c2.support)
assert c1.support is not c2.support, 'the empty set definition returned the cached previous set'
