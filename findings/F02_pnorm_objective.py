"""F02 (C06): an 'exc' p-norm used as the OBJECTIVE is compiled to nothing.
min ||x||_2.5 s.t. x == (1, 1)  -> true value 2**(1/2.5) = 1.3195; buggy tree: unbounded/-inf or 0 cones."""
from rsome import ro
import rsome as rso
from rsome import eco_solver as eco
import numpy as np

m = ro.Model()
x = m.dvar(2)
m.min(rso.pnorm(x, 2.5))
m.st(x == np.ones(2))
f = m.do_math()
print('exp cones in the program:', len(f.xmat))
assert len(f.xmat) > 0, 'objective dropped: no exponential cone generated'
m.solve(eco, display=False)
print(m.get())
assert abs(m.get() - 2 ** (1 / 2.5)) < 1e-4
