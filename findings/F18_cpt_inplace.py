"""F18 (C11, C19): the COPT interface rewrites formula.lb/ub in place (+-inf -> +-COPT.INFINITY,
binaries -> [0,1]).  COPT is not installed here, so a stub `coptpy` that records nothing and
"solves" trivially is injected; the point is only what the interface does to the formula."""
import sys, types
import numpy as np

cp = types.ModuleType('coptpy')
class CoptError(Exception): pass
class _M:
    status = 1
    def setParam(self, *a): pass
    def loadMatrix(self, c, A, lhs, rhs, lb, ub, vtype): self.n = len(c)
    def loadCone(self, *a): pass
    def loadExpCone(self, *a): pass
    def solve(self): pass
    def getAttr(self, a): return 0.0
    def getValues(self): return [0.0] * self.n
class _Env:
    def __init__(self, cfg): pass
    def createModel(self): return _M()
class _Cfg:
    def set(self, *a): pass
cp.GetCoptVersion = lambda i: 7 if i < 3 else -1
cp.EnvrConfig = _Cfg
cp.Envr = _Env
cp.CoptError = CoptError
cp.COPT = types.SimpleNamespace(INFINITY=1e30, EXPCONE_PRIMAL=1,
                                Param=types.SimpleNamespace(Logging='Logging', LogToConsole='LogToConsole'),
                                attr=types.SimpleNamespace(SolvingTime='t', LpStatus='s', MipStatus='m'))
sys.modules['coptpy'] = cp

from rsome import ro
from rsome import cpt_solver
m = ro.Model()
b = m.dvar(3, 'B')
x = m.dvar()
m.max(b.sum() + x)
m.st(b[0] <= 0, x <= 1)
f = m.do_math()
lb0, ub0 = f.lb.copy(), f.ub.copy()
m.solve(cpt_solver, display=False)
f2 = m.do_math()
print('lb', lb0, '->', f2.lb)
print('ub', ub0, '->', f2.ub)
assert f2 is f
assert (lb0 == f2.lb).all() and (ub0 == f2.ub).all(), 'cached formula edited by the COPT interface'
