"""F03 (C11, C19): the default MILP interface overwrites the bounds of binary variables with
[0, 1] *inside the cached formula*, discarding the user's bounds.
max b0+b1+b2, b binary, b0 <= 0  -> 2.0 (OR-Tools/ECOS/Gurobi agree); buggy default solver: 3.0."""
from rsome import ro
m = ro.Model()
b = m.dvar(3, 'B')
m.max(b.sum())
m.st(b[0] <= 0)
ub_before = m.do_math().ub.copy()
m.solve(display=False)
print('objective', m.get(), 'ub before', ub_before[1:4], 'ub after', m.do_math().ub[1:4])
assert abs(m.get() - 2.0) < 1e-6, m.get()
assert (m.do_math().ub == ub_before).all()
