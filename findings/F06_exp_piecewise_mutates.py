"""F06 (C09): taking the expectation of a piecewise function marks the caller's own piece
expressions as expectations (piece.ctype = 'E' on the operand).  The same expression used
afterwards in an ordinary constraint silently becomes an expectation constraint."""
from rsome import dro
from rsome import E
import rsome as rso
m = dro.Model(2)
x = m.dvar()
z = m.rvar()
e = x * z + 1
before = e.ctype
_ = E(rso.maxof(e, 0))
print('ctype of e before/after building E(maxof(e, 0)):', before, e.ctype)
c = (e <= 5)
print(c)
assert e.ctype == before == 'R'
