"""F01 (C09, C01, C03): socp/gcp Model.reset() leave ip_constr / det_constr populated.
A p-norm ball used for one constraint's forall() leaks into the set of the next constraint.
Expected optimum 4.0 (x >= 2*sum(z) over the box |z|<=1, z in R^2); buggy tree gives ~0.317."""
from rsome import ro
import rsome as rso
from rsome import eco_solver as eco

m = ro.Model()
x = m.dvar()
y = m.dvar()
z = m.rvar(2)
m.min(x + y)
m.st((y >= z.sum()).forall(rso.pnorm(z, 3) <= 0.1))
m.st((x >= 2 * z.sum()).forall(abs(z) <= 1))
m.solve(eco, display=False)
print('x =', x.get(), '(expected 4.0)')
assert abs(x.get() - 4.0) < 1e-4, x.get()
