#!/venv/bin/python
"""Regenerate MANIFEST.json from props.py and the rule modules that exist."""
import json
import os
import sys

HERE = os.path.dirname(os.path.abspath(__file__))
sys.path.insert(0, HERE)
import props as P  # noqa: E402

NA_FIXED = {
    'C02': 'value equality of an infinite-dimensional min-max problem (reported optimum == true '
           'robust optimum); quantifies over numeric optima that no static argument bounds. Its '
           'only structural necessary conditions are those already decided under C01, C08 and '
           'C13; static analysis does not apply to the remainder.',
}


def built_rules():
    out = set()
    for f in os.listdir(os.path.join(HERE, 'rules')):
        if f.startswith('r') and f[1:3].isdigit() and f.endswith('.py'):
            out.add('R' + f[1:3])
    return out


def main():
    built = built_rules()
    checks = []
    na = [{'property_id': k, 'reason': v} for k, v in sorted(NA_FIXED.items())]
    for pid in sorted(P.PROPS):
        spec = P.PROPS[pid]
        have = [r for r in spec['rules'] if r in built]
        if not have:
            na.append({'property_id': pid,
                       'reason': 'static rules for this property (%s) are not built; see DESIGN.md'
                                 % ', '.join(spec['rules'])})
            continue
        checks.append({
            'property_id': pid,
            'quick_cmd': './check %s --tier quick' % pid,
            'thorough_cmd': './check %s --tier thorough' % pid,
            'evidence_file': 'evidence/%s.json' % pid,
            'replay_cmd_template': './check %s --replay {path}' % pid,
            'engine': 'rsx',
            'level_claimed': {
                'category': 'other',
                'text': 'Static analysis: exhaustive check, over the current source of every '
                        'rsome module, of named structural obligations that are necessary '
                        'conditions of the property (rules %s). Decided: %s. NOT decided (numeric '
                        'remainder of the property): %s.' % (', '.join(have), spec['decided'],
                                                            spec['not_decided']),
                'design_ref': 'DESIGN.md section 3 (rules) and section 4 (%s)' % pid,
            },
            'level_note': 'Trusted base: CPython ast; the frozen idiom/exemption tables inside the '
                          'rules (each re-validated against the source on every run; a vanished '
                          'anchor or an instance count below the hand-confirmed floor is exit 2); '
                          'NumPy/SciPy copy-vs-view semantics listed in rsx/access.py. The check '
                          'decides the listed structural clauses, not the numeric behaviour.',
            'technique': 'custom AST dataflow / must-path / dispatch-table / effect analysis '
                         '(rules %s)' % ', '.join(have),
        })
    manifest = {
        'version': 1,
        'setup_cmd': '/venv/bin/python -m compileall -q rsx rules selftest props.py >/dev/null 2>&1; '
                     '/venv/bin/python -c "import ast"',
        'hooks': {
            'guard': 'RSOME_VERIF',
            'enable': 'none needed: the checks parse /repo/rsome/*.py; no instrumentation is added '
                      'to the repository',
            'baseline_off_cmd': 'cd /repo && /venv/bin/python -m pytest -ra -q -p no:cacheprovider '
                                '--timeout=900 --continue-on-collection-errors',
            'source_commits': [],
            'add_only': True,
        },
        'engines': [{'name': 'rsx', 'path': 'rsx/',
                     'serves_properties': [c['property_id'] for c in checks],
                     'kind_free_text': 'repository-specific static analyser on stdlib ast: class '
                                       'table + MRO, structured must-flow (path) analysis, '
                                       'may-alias/in-place-effect summaries, dispatch-table '
                                       'extraction, constructor unfolding'}],
        'checks': checks,
        'not_applicable': na,
        'notes': 'All checks: ./check Cxx --tier quick|thorough. Exit 0 OK (+KNOWN-FINDING lines), '
                 '1 VIOLATION, 2 ANALYSIS-ERROR (analyser cannot interpret the tree). Known findings '
                 'in known_findings.json; fixes are "fix:" commits in /repo.',
    }
    with open(os.path.join(HERE, 'MANIFEST.json'), 'w') as fh:
        json.dump(manifest, fh, indent=1)
    print('MANIFEST.json: %d checks, %d not_applicable' % (len(checks), len(na)))


if __name__ == '__main__':
    main()
