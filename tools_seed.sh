#!/bin/bash
# tools_seed.sh <seed-id> <source-dir-with patch.diff demo.py notes.md> [--tests]
# 1. copies the seed into /verif/seeded/<id>/   2. verifies the demo in a scratch worktree
# (passes on HEAD, fails with the patch)   3. optionally runs the test-suite with the patch
# 4. applies the patch to /repo, runs every check, undoes it; prints which properties fire.
set -u
ID=$1; SRC=$2; TESTS=${3:-}
DST=/verif/seeded/$ID
mkdir -p "$DST"
cp "$SRC/patch.diff" "$DST/patch.diff"; cp "$SRC/demo.py" "$DST/demo.py"; [ -f "$SRC/notes.md" ] && cp "$SRC/notes.md" "$DST/notes.md"
WT=$(mktemp -d /tmp/seedchk.XXXXXX)
git -C /repo worktree add -q --detach "$WT" HEAD
cd "$WT"
PYTHONPATH=$WT timeout 300 /venv/bin/python "$DST/demo.py" > "$DST/.demo_clean.log" 2>&1; RC_CLEAN=$?
if ! git apply "$DST/patch.diff"; then echo "PATCH DOES NOT APPLY"; cd /; git -C /repo worktree remove --force "$WT"; exit 3; fi
PYTHONPATH=$WT timeout 300 /venv/bin/python "$DST/demo.py" > "$DST/.demo_patched.log" 2>&1; RC_PATCHED=$?
TESTRES="not run"
if [ "$TESTS" = "--tests" ]; then
  TESTRES=$(ls tests/test_*.py | xargs -P 16 -I{} sh -c 'PYTHONPATH='"$WT"' /venv/bin/python -m pytest -q -p no:cacheprovider --timeout=900 {} 2>&1 | tail -1' | grep -v -c " passed" )
  TESTRES="$TESTRES test files not passing"
fi
cd /; git -C /repo worktree remove --force "$WT"
echo "demo on clean tree: rc=$RC_CLEAN ; demo with patch: rc=$RC_PATCHED ; tests with patch: $TESTRES"
# run every check against a scratch copy with the patch applied (no evidence is written)
cd /verif
./tools_seedscan.sh "$ID" | tee "$DST/.fired"
rm -f "$DST"/.fired "$DST"/.demo_clean.log "$DST"/.demo_patched.log
