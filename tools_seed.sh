#!/bin/bash
# tools_seed.sh <seed-id> <source-dir-with patch.diff demo.py notes.md> [--tests]
# 1. copies the seed into /verif/seeded/<id>/   2. verifies the demo in a scratch worktree
# (passes on HEAD, fails with the patch)   3. optionally runs the test-suite with the patch
# 4. applies the patch to /repo, runs every check, undoes it; prints which properties fire.
set -u
ID=$1; SRC=$2; TESTS=${3:-}
DST=/verif/seeded/$ID
mkdir -p "$DST"
cp "$SRC/patch.diff" "$DST/patch.diff"; cp "$SRC/demo.py" "$DST/demo.py"; [ -f "$SRC/notes.md" ] && cp "$SRC/notes.md" "$DST/notes.md"
WT=$(mktemp -d /tmp/seedchk.XXXXXX)
git -C /repo worktree add -q --detach "$WT" HEAD
cd "$WT"
PYTHONPATH=$WT timeout 300 /venv/bin/python "$DST/demo.py" > "$DST/.demo_clean.log" 2>&1; RC_CLEAN=$?
if ! git apply "$DST/patch.diff"; then echo "PATCH DOES NOT APPLY"; cd /; git -C /repo worktree remove --force "$WT"; exit 3; fi
PYTHONPATH=$WT timeout 300 /venv/bin/python "$DST/demo.py" > "$DST/.demo_patched.log" 2>&1; RC_PATCHED=$?
TESTRES="not run"
if [ "$TESTS" = "--tests" ]; then
  TESTRES=$(ls tests/test_*.py | xargs -P 16 -I{} sh -c 'PYTHONPATH='"$WT"' /venv/bin/python -m pytest -q -p no:cacheprovider --timeout=900 {} 2>&1 | tail -1' | grep -v -c " passed" )
  TESTRES="$TESTRES test files not passing"
fi
cd /; git -C /repo worktree remove --force "$WT"
echo "demo on clean tree: rc=$RC_CLEAN ; demo with patch: rc=$RC_PATCHED ; tests with patch: $TESTRES"
# run the checks against /repo with the patch applied
cd /verif
git -C /repo apply "$DST/patch.diff" || { echo "cannot apply to /repo"; exit 3; }
FIRED=""
for p in $(/venv/bin/python -c "import json;print(' '.join(c['property_id'] for c in json.load(open('/verif/MANIFEST.json'))['checks']))"); do
  OUT=$(./check $p --tier quick 2>&1); RC=$?
  if [ $RC -eq 1 ]; then FIRED="$FIRED $p"; echo "--- $p fires:"; echo "$OUT" | grep -A1 "^VIOLATION" | grep -v "^--" | grep -v "^VIOLATION" | head -3 | cut -c1-260; fi
  if [ $RC -eq 2 ]; then FIRED="$FIRED $p(exit2)"; echo "--- $p ANALYSIS-ERROR: $(echo "$OUT" | head -1 | cut -c1-200)"; fi
done
git -C /repo checkout -- . 
git -C /repo status --short | grep -v egg-info
echo "FIRED:$FIRED"
echo "$FIRED" > "$DST/.fired"
rm -rf /verif/replays
