"""Inlining of private helpers, so that "extract method" refactorings do not blind the rules.

A call to a private helper -- a method `self._h(..)` / `Cls._h(..)` of the same class hierarchy or a
module-level function `_h(..)` -- is replaced by the helper's body with parameters substituted:

* expression helpers (body = a single `return <expr>`) are substituted inside any expression;
* statement helpers are spliced in at statement level for the forms  `self._h(a)`,
  `x = self._h(a)` and `return self._h(a)`; early returns of the helper are kept exact by running the
  spliced body inside a one-iteration `for` loop in which `return v` becomes `ret = v; break`
  (only when no return of the helper sits inside a loop of its own).

Locals of the helper are renamed apart; arguments that are not plain names / attribute paths /
constants are bound to fresh temporaries first.  Helpers with *args/**kwargs, nested functions,
generators or recursion are left alone.  A helper all of whose call sites in the package were
inlined is marked `absorbed`: rules then analyse it only as part of its callers.
"""
import ast
import copy

from .ctor import bind_args, MISSING


def _is_private(name):
    return name.startswith('_') and not (name.startswith('__') and name.endswith('__'))


def _simple_arg(e):
    if isinstance(e, (ast.Name, ast.Constant)):
        return True
    if isinstance(e, ast.Attribute):
        return _simple_arg(e.value)
    if isinstance(e, ast.UnaryOp) and isinstance(e.operand, ast.Constant):
        return True
    return False


class _Rename(ast.NodeTransformer):
    def __init__(self, mapping, direct):
        self.mapping = mapping      # name -> new name
        self.direct = direct        # name -> expression (substituted on load)

    def visit_Name(self, node):
        if node.id in self.direct and isinstance(node.ctx, ast.Load):
            return copy.deepcopy(self.direct[node.id])
        if node.id in self.mapping:
            return ast.copy_location(ast.Name(id=self.mapping[node.id], ctx=node.ctx), node)
        return node

    def visit_arg(self, node):
        return node

    def visit_UnaryOp(self, node):
        self.generic_visit(node)
        # fold the double negation that substituting a literal -1 for a parameter produces
        if isinstance(node.op, ast.USub) and isinstance(node.operand, ast.UnaryOp) and \
                isinstance(node.operand.op, ast.USub) and isinstance(node.operand.operand, ast.Constant) and \
                isinstance(node.operand.operand.value, (int, float)):
            return ast.copy_location(node.operand.operand, node)
        return node


def _body(fn_node):
    b = fn_node.body
    if b and isinstance(b[0], ast.Expr) and isinstance(b[0].value, ast.Constant) and isinstance(b[0].value.value, str):
        return b[1:]
    return b


def _returns(stmts, in_loop=False):
    """[(Return node, inside a loop of the helper?)]"""
    out = []
    for s in stmts:
        if isinstance(s, ast.Return):
            out.append((s, in_loop))
        elif isinstance(s, (ast.FunctionDef, ast.AsyncFunctionDef, ast.ClassDef, ast.Lambda)):
            continue
        else:
            for fld in ('body', 'orelse', 'finalbody'):
                sub = getattr(s, fld, None)
                if isinstance(sub, list):
                    out += _returns(sub, in_loop or isinstance(s, (ast.For, ast.While)))
            for h in getattr(s, 'handlers', []):
                out += _returns(h.body, in_loop)
    return out


class Inliner:
    def __init__(self, repo):
        self.repo = repo
        self.counter = 0
        self.inlined_sites = {}      # helper fq -> count
        self.failed_sites = {}       # helper fq -> count (call sites that could not be inlined)

    # ------------------------------------------------------------------ helper lookup
    def helper_for(self, fi, call):
        """-> (helper FuncInfo, skip_self) or None"""
        f = call.func
        if isinstance(f, ast.Attribute) and isinstance(f.value, ast.Name) and _is_private(f.attr):
            if f.value.id == 'self' and fi.cls is not None:
                h = self.repo.resolve_method(fi.cls, f.attr)
                if h is not None:
                    if self._overridden_below(fi.cls, f.attr):
                        return None          # dynamic dispatch: a subclass may run its own version
                    return h, self._has_self(h)
            else:
                r = self.repo.resolve_name(fi.module, f.value.id)
                if r is not None and hasattr(r, 'methods') and f.attr in r.methods:
                    h = r.methods[f.attr]
                    # Cls._h(x, ..): a static helper, or an instance helper with the receiver
                    # passed explicitly -- either way all parameters are bound positionally
                    return h, False
        if isinstance(f, ast.Attribute) and _is_private(f.attr) and _simple_arg(f.value) and \
                not isinstance(f.value, ast.Constant) and not (isinstance(f.value, ast.Name) and f.value.id == 'self'):
            # obj._h(..): a private method name that exactly one class of the package defines -- whatever
            # the class of obj, this is the function that runs (or the call fails)
            hs = self._unique_private().get(f.attr)
            if hs is not None and self._has_self(hs):
                call._recv = f.value
                return hs, True
        if isinstance(f, ast.Name) and f.id in getattr(self, '_nested', {}):
            return self._nested[f.id], False          # a local (nested) helper of the function being expanded
        if isinstance(f, ast.Name):
            r = self.repo.resolve_name(fi.module, f.id)
            if r is not None and hasattr(r, 'params') and r.cls is None and \
                    (_is_private(f.id) or self._guard_only(r)):
                return r, False
        return None

    def _overridden_below(self, ci, name):
        for m in self.repo.modules.values():
            for c in m.classes.values():
                if c is not ci and ci in self.repo.mro(c) and (name in c.methods or name in c.class_attrs):
                    return True
        return False

    def _unique_private(self):
        if not hasattr(self, '_uniq'):
            seen = {}
            for m in self.repo.modules.values():
                for c in m.classes.values():
                    for name, h in c.methods.items():
                        if _is_private(name):
                            seen.setdefault(name, []).append(h)
                    for name in c.class_attrs:
                        if _is_private(name):
                            seen.setdefault(name, []).append(None)
                for name in m.functions:
                    if _is_private(name):
                        seen.setdefault(name, []).append(None)
            # an instance attribute of the same name anywhere would shadow the method
            stored = set()
            for m in self.repo.modules.values():
                for n in ast.walk(m.tree):
                    if isinstance(n, ast.Attribute) and isinstance(n.ctx, (ast.Store, ast.Del)):
                        stored.add(n.attr)
            self._uniq = {k: v[0] for k, v in seen.items() if len(v) == 1 and v[0] is not None and k not in stored}
        return self._uniq

    @staticmethod
    def _guard_only(h):
        """a module-level function whose whole body is `if <test>: raise ..` statements: a validation
        helper; inlining it is what makes the guard visible at the call site, whatever its name"""
        b = _body(h.raw_node)
        return bool(b) and all(isinstance(st, ast.If) and not st.orelse and len(st.body) == 1 and
                               isinstance(st.body[0], ast.Raise) for st in b)

    @staticmethod
    def _has_self(h):
        for d in h.raw_node.decorator_list:
            if isinstance(d, ast.Name) and d.id in ('staticmethod', 'classmethod'):
                return False
        return bool(h.params) and h.params[0] == 'self'

    def usable_from(self, h, fi):
        """super() inside the helper means the helper's class: only keep that meaning when the
        helper is inlined into a method of the same class"""
        uses_super = any(isinstance(x, ast.Call) and isinstance(x.func, ast.Name) and x.func.id == 'super'
                         for x in ast.walk(h.raw_node))
        return (not uses_super) or (h.cls is not None and h.cls is fi.cls)

    def inlinable(self, h):
        n = h.raw_node
        a = n.args
        if a.kwarg:
            return False
        for x in ast.walk(n):
            if isinstance(x, (ast.Yield, ast.YieldFrom, ast.Await, ast.Global, ast.Nonlocal, ast.Lambda)):
                return False
            if x is not n and isinstance(x, (ast.FunctionDef, ast.AsyncFunctionDef, ast.ClassDef)):
                return False
            if isinstance(x, ast.Call) and isinstance(x.func, ast.Attribute) and x.func.attr == h.name \
                    and isinstance(x.func.value, ast.Name) and x.func.value.id == 'self':
                return False        # recursion
            if isinstance(x, ast.Call) and isinstance(x.func, ast.Name) and x.func.id == h.name:
                return False
        if any(loop for _r, loop in _returns(_body(n))):
            return False
        return True

    # ------------------------------------------------------------------ instantiation
    def instantiate(self, h, call, skip_self):
        """-> (prelude statements, renamed body statements, direct-substitution ok)"""
        va = h.raw_node.args.vararg
        if va is not None:
            # *names: the surplus positional arguments as a tuple display
            if any(isinstance(x, ast.Starred) for x in call.args) or any(k.arg is None for k in call.keywords):
                return None
            npos = len(h.raw_node.args.posonlyargs + h.raw_node.args.args) - (1 if skip_self else 0)
            trimmed = ast.Call(func=call.func, args=call.args[:npos], keywords=call.keywords)
            env = bind_args(_Fake(h), trimmed, skip_self=skip_self)
            if env is not None:
                env[va.arg] = ast.Tuple(elts=list(call.args[npos:]), ctx=ast.Load())
        else:
            env = bind_args(_Fake(h), call, skip_self=skip_self)
        if env is None or any(v is MISSING for v in env.values()):
            return None
        self.counter += 1
        tag = '__h%d' % self.counter
        body = copy.deepcopy(_body(h.raw_node))
        assigned = set()
        for s in body:
            for x in ast.walk(s):
                if isinstance(x, ast.Name) and isinstance(x.ctx, (ast.Store, ast.Del)):
                    assigned.add(x.id)
        params = [p.arg for p in h.raw_node.args.posonlyargs + h.raw_node.args.args + h.raw_node.args.kwonlyargs]
        if skip_self and params and params[0] == 'self':
            params = params[1:]
        if va is not None:
            params.append(va.arg)
        mapping, direct, prelude = {}, {}, []
        recv = getattr(call, '_recv', None)
        if recv is not None:
            if 'self' in assigned:
                return None
            direct['self'] = recv
        for p in params:
            arg = env.get(p)
            if arg is None:
                return None
            if (_simple_arg(arg) or (va is not None and p == va.arg and all(_simple_arg(x) for x in arg.elts))) \
                    and p not in assigned:
                direct[p] = arg
            else:
                mapping[p] = p + tag
                prelude.append(ast.Assign(targets=[ast.Name(id=p + tag, ctx=ast.Store())], value=copy.deepcopy(arg),
                                          lineno=call.lineno, col_offset=call.col_offset))
        for nm in assigned:
            if nm not in mapping and nm != 'self':
                mapping[nm] = nm + tag
        rn = _Rename(mapping, direct)
        body = [rn.visit(s) for s in body]
        for s in prelude + body:
            ast.fix_missing_locations(s)
        return prelude, body, tag

    # ------------------------------------------------------------------ expansion of one function
    def _nested_helpers(self, fi, node):
        """nested defs of `node` that read, besides their own parameters and locals, only names the enclosing
        function never rebinds: they can be spliced in like private module-level helpers"""
        from .loader import FuncInfo
        out = {}
        stores = {}
        nested = [st for st in node.body if isinstance(st, ast.FunctionDef) and not st.decorator_list]
        if not nested:
            return out
        for n in ast.walk(node):
            if isinstance(n, ast.Name) and isinstance(n.ctx, (ast.Store, ast.Del)):
                stores.setdefault(n.id, []).append(n)
        for g in nested:
            own = {a.arg for a in g.args.posonlyargs + g.args.args + g.args.kwonlyargs}
            own |= {x.id for x in ast.walk(g) if isinstance(x, ast.Name) and isinstance(x.ctx, (ast.Store, ast.Del))}
            free = {x.id for x in ast.walk(g) if isinstance(x, ast.Name) and isinstance(x.ctx, ast.Load)} - own
            inside = {id(x) for x in ast.walk(g)}
            # a free name may be bound by the enclosing function only in top-level statements *before* the nested def
            # (its value is then the same at every call)
            pos = node.body.index(g)
            early = set()
            for st_ in node.body[:pos]:
                if isinstance(st_, (ast.Assign, ast.AnnAssign, ast.AugAssign)):
                    early |= {id(x) for x in ast.walk(st_) if isinstance(x, ast.Name)}

            def late_store(v):
                return any(id(s_) not in inside and id(s_) not in early for s_ in stores.get(v, []))
            if any(late_store(v) for v in free) or g.name in stores:
                continue
            # only plain calls may refer to it
            refs = [x for x in ast.walk(node) if isinstance(x, ast.Name) and x.id == g.name and id(x) not in inside]
            calls = [x for x in ast.walk(node) if isinstance(x, ast.Call) and isinstance(x.func, ast.Name) and
                     x.func.id == g.name and id(x) not in inside]
            if len(refs) != len(calls) or not calls:
                continue
            out[g.name] = FuncInfo(fi.module, None, g)
        return out

    def expand(self, fi, depth=0):
        node = copy.deepcopy(fi.raw_node)
        changed = [False]
        self._nested = self._nested_helpers(fi, node)
        if self._nested:
            try:
                return self._expand_with_nested(fi, node, changed)
            finally:
                self._nested = {}
        return self._expand_plain(fi, node, changed)

    def _expand_with_nested(self, fi, node, changed):
        names = set(self._nested)
        defs_ = [st for st in node.body if isinstance(st, ast.FunctionDef) and st.name in names]
        node.body = [st for st in node.body if st not in defs_]
        out, any_change = self._expand_plain(fi, node, changed)
        # a nested helper that is still referred to (a call that could not be inlined) stays defined
        left = {x.id for x in ast.walk(out) if isinstance(x, ast.Name) and x.id in names}
        if left:
            keep = [d for d in defs_ if d.name in left]
            doc = 1 if out.body and isinstance(out.body[0], ast.Expr) and isinstance(out.body[0].value, ast.Constant) else 0
            out.body[doc:doc] = keep
        if len(left) < len(names):
            any_change = True
        ast.fix_missing_locations(out)
        return out, any_change

    def _expand_plain(self, fi, node, changed):
        node.body = self._expand_block(fi, node.body, changed)
        any_change = changed[0]
        rounds = 0
        while changed[0] and rounds < 4:        # helpers calling helpers
            rounds += 1
            changed = [False]
            tmp = _Fake2(fi, node)
            node.body = self._expand_block(tmp, node.body, changed)
        ast.fix_missing_locations(node)
        return node, any_change

    def _note(self, h, ok):
        d = self.inlined_sites if ok else self.failed_sites
        d[h.fq] = d.get(h.fq, 0) + 1

    def _expand_block(self, fi, stmts, changed):
        out = []
        for s in stmts:
            out.extend(self._expand_stmt(fi, s, changed))
        return out

    def _expand_stmt(self, fi, s, changed):
        # recurse into compound statements
        for fld in ('body', 'orelse', 'finalbody'):
            sub = getattr(s, fld, None)
            if isinstance(sub, list) and not isinstance(s, (ast.FunctionDef, ast.AsyncFunctionDef, ast.ClassDef)):
                setattr(s, fld, self._expand_block(fi, sub, changed))
        for h in getattr(s, 'handlers', []):
            h.body = self._expand_block(fi, h.body, changed)
        if isinstance(s, (ast.FunctionDef, ast.AsyncFunctionDef, ast.ClassDef)):
            return [s]
        # 1. statement-level helper call
        call = None
        form = None
        if isinstance(s, ast.Expr) and isinstance(s.value, ast.Call):
            call, form = s.value, 'expr'
        elif isinstance(s, ast.Assign) and len(s.targets) == 1 and isinstance(s.value, ast.Call):
            call, form = s.value, 'assign'
        elif isinstance(s, ast.Return) and isinstance(s.value, ast.Call):
            call, form = s.value, 'return'
        if call is not None:
            hit = self.helper_for(fi, call)
            if hit is not None and hit[1] is not None:
                h, skip_self = hit
                if self.inlinable(h) and not self._is_expr_helper(h) and self.usable_from(h, fi):
                    inst = self.instantiate(h, call, skip_self)
                    if inst is not None:
                        changed[0] = True
                        self._note(h, True)
                        return self._splice(s, form, inst, h)
                    self._note(h, False)
                elif not self.inlinable(h):
                    self._note(h, False)
        # 2. statement helpers called inside a larger expression of a simple statement: bind the
        #    result to a temporary first (only where the call is evaluated unconditionally)
        if isinstance(s, (ast.Assign, ast.AugAssign, ast.AnnAssign, ast.Return, ast.Expr, ast.If)):
            pre = []
            for c in self._unconditional_calls(s.test if isinstance(s, ast.If) else s):
                if c is call:
                    continue
                hit = self.helper_for(fi, c)
                if hit is None or hit[1] is None:
                    continue
                h, skip_self = hit
                if not self.inlinable(h) or self._is_expr_helper(h) or not self.usable_from(h, fi):
                    continue
                self.counter += 1
                tmp = 'tmp__h%d' % self.counter
                asg = ast.copy_location(ast.Assign(targets=[ast.Name(id=tmp, ctx=ast.Store())],
                                                   value=copy.deepcopy(c)), s)
                ast.fix_missing_locations(asg)
                pre.append((c, tmp, asg))
            if pre:
                class _Rep(ast.NodeTransformer):
                    def visit_Call(self_inner, node):
                        for c, tmp, _a in pre:
                            if node is c:
                                return ast.copy_location(ast.Name(id=tmp, ctx=ast.Load()), node)
                        self_inner.generic_visit(node)
                        return node
                if isinstance(s, ast.If):
                    s.test = _Rep().visit(s.test)
                else:
                    s = _Rep().visit(s)
                out = []
                for _c, _t, asg in pre:
                    out.extend(self._expand_stmt(fi, asg, changed))
                out.extend(self._expand_stmt(fi, s, changed))
                return out
        # 3. expression helpers anywhere inside the statement
        s2 = _ExprInline(self, fi, changed).visit(s)
        return [s2]

    @staticmethod
    def _unconditional_calls(stmt):
        """Call nodes evaluated on every execution of the simple statement (not under a lambda,
        comprehension, conditional expression or short-circuit operator), innermost first"""
        out = []

        def rec(n):
            if isinstance(n, (ast.Lambda, ast.ListComp, ast.SetComp, ast.DictComp, ast.GeneratorExp)):
                return
            if isinstance(n, ast.BoolOp):
                rec(n.values[0])          # the first operand is always evaluated
                return
            if isinstance(n, ast.IfExp):
                rec(n.test)
                return
            for ch in ast.iter_child_nodes(n):
                rec(ch)
            if isinstance(n, ast.Call):
                out.append(n)
        rec(stmt)
        return out

    @staticmethod
    def _is_expr_helper(h):
        b = _body(h.raw_node)
        return len(b) == 1 and isinstance(b[0], ast.Return) and b[0].value is not None

    def _splice(self, s, form, inst, h):
        prelude, body, tag = inst
        rets = _returns(body)
        ret_name = 'ret' + tag

        def tail(value_expr):
            if form == 'assign':
                return [ast.copy_location(ast.Assign(targets=s.targets, value=value_expr), s)]
            if form == 'return':
                return [ast.copy_location(ast.Return(value=value_expr), s)]
            return []
        if not rets:
            res = prelude + body + tail(ast.Constant(value=None))
        elif len(rets) == 1 and body and rets[0][0] is body[-1]:
            val = body[-1].value if body[-1].value is not None else ast.Constant(value=None)
            res = prelude + body[:-1] + tail(val)
        else:
            # general early returns: one-iteration loop, return -> (ret = v; break)
            class _R(ast.NodeTransformer):
                def visit_Return(self_inner, node):
                    v = node.value if node.value is not None else ast.Constant(value=None)
                    return [ast.copy_location(ast.Assign(targets=[ast.Name(id=ret_name, ctx=ast.Store())], value=v), node),
                            ast.copy_location(ast.Break(), node)]

                def visit_FunctionDef(self_inner, node):
                    return node
            new_body = []
            for st in body:
                r = _R().visit(st)
                new_body.extend(r if isinstance(r, list) else [r])
            init = ast.Assign(targets=[ast.Name(id=ret_name, ctx=ast.Store())], value=ast.Constant(value=None))
            loop = ast.For(target=ast.Name(id='once' + tag, ctx=ast.Store()),
                           iter=ast.Tuple(elts=[ast.Constant(value=0)], ctx=ast.Load()),
                           body=new_body or [ast.Pass()], orelse=[])
            res = prelude + [ast.copy_location(init, s), ast.copy_location(loop, s)] + \
                tail(ast.Name(id=ret_name, ctx=ast.Load()))
        for r in res:
            ast.fix_missing_locations(r)
        return res or [ast.copy_location(ast.Pass(), s)]


class _ExprInline(ast.NodeTransformer):
    def __init__(self, inl, fi, changed):
        self.inl = inl
        self.fi = fi
        self.changed = changed

    def visit_FunctionDef(self, node):
        return node

    def visit_Lambda(self, node):
        return node

    def visit_Attribute(self, node):
        self.generic_visit(node)
        # a private read-only property with a one-expression body:  self._formulated
        if isinstance(node.ctx, ast.Load) and isinstance(node.value, ast.Name) and node.value.id == 'self' \
                and _is_private(node.attr) and self.fi.cls is not None:
            h = self.inl.repo.resolve_method(self.fi.cls, node.attr)
            if h is not None and any(isinstance(d, ast.Name) and d.id == 'property' for d in h.raw_node.decorator_list) \
                    and self.inl._is_expr_helper(h) and self.inl.inlinable(h) and self.inl.usable_from(h, self.fi):
                self.changed[0] = True
                self.inl._note(h, True)
                return ast.copy_location(copy.deepcopy(_body(h.raw_node)[0].value), node)
        return node

    def visit_Call(self, node):
        self.generic_visit(node)
        hit = self.inl.helper_for(self.fi, node)
        if hit is None or hit[1] is None:
            return node
        h, skip_self = hit
        if not (self.inl.inlinable(h) and self.inl._is_expr_helper(h) and self.inl.usable_from(h, self.fi)):
            if hit is not None:
                self.inl._note(h, False)
            return node
        env = bind_args(_Fake(h), node, skip_self=skip_self)
        if env is None or any(v is MISSING for v in env.values()) or not all(_simple_arg(v) or True for v in env.values()):
            self.inl._note(h, False)
            return node
        expr = copy.deepcopy(_body(h.raw_node)[0].value)
        # parameters used more than once with a non-simple argument would duplicate evaluation; the
        # analyses only read the structure, so this is acceptable for analysis purposes
        direct = {k: v for k, v in env.items()}
        if getattr(node, '_recv', None) is not None:
            direct['self'] = node._recv
        rn = _Rename({}, direct)
        out = rn.visit(expr)
        self.changed[0] = True
        self.inl._note(h, True)
        return ast.copy_location(out, node)


class _Fake:
    """adapter so that ctor.bind_args can be used on the raw (un-expanded) node"""

    def __init__(self, h):
        self.node = h.raw_node


class _Fake2:
    def __init__(self, fi, node):
        self.module = fi.module
        self.cls = fi.cls
        self.raw_node = node
        self.node = node
        self.fq = fi.fq
        self.name = fi.name
        self.params = fi.params


# ----------------------------------------------------------------------------- desugaring
def _pure_expr(e):
    """comparisons / arithmetic over attribute paths and constants: evaluating it twice gives the same value"""
    if isinstance(e, (ast.Constant, ast.Name)):
        return True
    if isinstance(e, ast.Attribute):
        return _pure_expr(e.value)
    if isinstance(e, ast.Compare):
        return _pure_expr(e.left) and all(_pure_expr(c) for c in e.comparators)
    if isinstance(e, ast.BinOp):
        return _pure_expr(e.left) and _pure_expr(e.right)
    if isinstance(e, ast.UnaryOp):
        return _pure_expr(e.operand)
    return False


class _SubstName(ast.NodeTransformer):
    def __init__(self, name, value):
        self.name = name
        self.value = value

    def visit_Name(self, node):
        if node.id == self.name and isinstance(node.ctx, ast.Load):
            return ast.copy_location(copy.deepcopy(self.value), node)
        return node


class Desugar(ast.NodeTransformer):
    """Reflection with literal names written out as attribute access, so that every rule sees one
    spelling:   setattr(o, 'f', v) -> o.f = v ;  getattr(o, 'f') -> o.f ;
    for a in ('f', 'g'): <body using a only as such a literal name>  ->  body unrolled."""

    def __init__(self, consts=None, cls_consts=None):
        self.changed = False
        self.consts = consts or {}
        self.cls_consts = cls_consts or {}

    def visit_FunctionDef(self, node):
        self.generic_visit(node)
        return node

    def set_locals(self, fn):
        """local names bound once to a display and only ever iterated over by a for statement"""
        stores, loads, iters = {}, {}, {}
        for n in ast.walk(fn):
            if isinstance(n, ast.Name):
                if isinstance(n.ctx, ast.Load):
                    loads[n.id] = loads.get(n.id, 0) + 1
                else:
                    stores[n.id] = stores.get(n.id, 0) + 1
            if isinstance(n, ast.For) and isinstance(n.iter, ast.Name):
                iters[n.iter.id] = iters.get(n.iter.id, 0) + 1
            if isinstance(n, ast.Call) and isinstance(n.func, ast.Attribute) and n.func.attr == 'extend' and \
                    len(n.args) == 1 and isinstance(n.args[0], ast.Name) and not n.keywords:
                iters[n.args[0].id] = iters.get(n.args[0].id, 0) + 1
        args = {a.arg for a in fn.args.args + fn.args.kwonlyargs + fn.args.posonlyargs}
        self.local_seqs = {}
        for n in ast.walk(fn):
            if isinstance(n, ast.Assign) and len(n.targets) == 1 and isinstance(n.targets[0], ast.Name) and \
                    isinstance(n.value, (ast.Tuple, ast.List)):
                k = n.targets[0].id
                if stores.get(k) == 1 and k not in args and loads.get(k, 0) == iters.get(k, 0) and \
                        all(isinstance(e, ast.Constant) or
                            (isinstance(e, ast.Name) and stores.get(e.id, 0) == 1 and e.id not in args) or
                            (isinstance(e, (ast.Tuple, ast.List)) and all(isinstance(c, ast.Constant) for c in e.elts))
                            for e in n.value.elts):
                    self.local_seqs[k] = n.value

    def _seq(self, it, depth=0):
        """the literal display an iterable expression denotes: a display, a module-level / class-level constant
        display, a concatenation of those, tuple(..) / list(..) / sorted-free wrappers of one"""
        if depth > 6:
            return None
        if isinstance(it, (ast.Tuple, ast.List)):
            return it
        if isinstance(it, ast.Name) and it.id in getattr(self, 'local_seqs', {}):
            return self.local_seqs[it.id]
        if isinstance(it, ast.Name) and it.id in self.consts:
            return self._seq(self.consts[it.id], depth + 1)
        if isinstance(it, ast.Attribute) and isinstance(it.value, ast.Name) and it.value.id in ('self', 'cls') and \
                it.attr in self.cls_consts:
            return self._seq(self.cls_consts[it.attr], depth + 1)
        if isinstance(it, ast.Attribute) and isinstance(it.value, ast.Call) and ast.unparse(it.value) in \
                ('type(self)', 'self.__class__') and it.attr in self.cls_consts:
            return self._seq(self.cls_consts[it.attr], depth + 1)
        if isinstance(it, ast.Attribute) and isinstance(it.value, ast.Name) and \
                it.value.id in self.cls_consts.get('#classes', ()) and it.attr in self.cls_consts:
            return self._seq(self.cls_consts[it.attr], depth + 1)
        if isinstance(it, ast.BinOp) and isinstance(it.op, ast.Add):
            a, b = self._seq(it.left, depth + 1), self._seq(it.right, depth + 1)
            if a is not None and b is not None and type(a) is type(b):
                return ast.copy_location(type(a)(elts=list(a.elts) + list(b.elts), ctx=ast.Load()), it)
            return None
        if isinstance(it, ast.Call) and isinstance(it.func, ast.Name) and it.func.id in ('tuple', 'list') and \
                len(it.args) == 1 and not it.keywords:
            return self._seq(it.args[0], depth + 1)
        return None

    def visit_For(self, node):
        it = self._seq(node.iter)
        if it is None:
            it = node.iter
        # for h in (left, right): h.attr = v  -- a loop over a literal tuple of (at most 4) plain names is
        # unrolled when the loop variable is only read in the body
        def _path(e):
            while isinstance(e, ast.Attribute):
                e = e.value
            return isinstance(e, ast.Name)
        if isinstance(node.target, ast.Name) and isinstance(it, (ast.Tuple, ast.List)) and 1 <= len(it.elts) <= 4 and \
                not node.orelse and all(isinstance(e, ast.Attribute) and _path(e) for e in it.elts) and \
                not any(isinstance(x, (ast.Break, ast.Continue, ast.Return, ast.For, ast.While, ast.Lambda,
                                       ast.ListComp, ast.GeneratorExp, ast.DictComp, ast.SetComp))
                        for s in node.body for x in ast.walk(s)) and \
                not any(isinstance(x, ast.Name) and x.id == node.target.id and isinstance(x.ctx, (ast.Store, ast.Del))
                        for s in node.body for x in ast.walk(s)) and len(node.body) <= 4 and \
                not any(isinstance(x, (ast.Attribute, ast.Name)) and isinstance(x.ctx, (ast.Store, ast.Del)) and
                        any((ast.unparse(e) + '.').startswith(ast.unparse(x) + '.') for e in it.elts)
                        for s in node.body for x in ast.walk(s)):
            out = []
            for e in it.elts:
                for s in node.body:
                    out.append(_SubstName(node.target.id, e).visit(copy.deepcopy(s)))
            self.changed = True
            res = []
            for s in out:
                r = self.visit(s)
                res.extend(r if isinstance(r, list) else [r])
            return res
        if isinstance(node.target, ast.Name) and isinstance(it, (ast.Tuple, ast.List)) and 2 <= len(it.elts) <= 4 and \
                not node.orelse and all(isinstance(e, ast.Name) for e in it.elts) and \
                not any(isinstance(x, (ast.Break, ast.Continue, ast.Return, ast.For, ast.While, ast.Lambda,
                                       ast.ListComp, ast.GeneratorExp, ast.DictComp, ast.SetComp))
                        for s in node.body for x in ast.walk(s)) and \
                not any(isinstance(x, ast.Name) and x.id == node.target.id and isinstance(x.ctx, (ast.Store, ast.Del))
                        for s in node.body for x in ast.walk(s)) and \
                not any(isinstance(x, ast.Name) and isinstance(x.ctx, ast.Store) and x.id in {e.id for e in it.elts}
                        for s in node.body for x in ast.walk(s)) and len(node.body) <= 4 and \
                getattr(self, 'unroll_names', True):
            out = []
            for e in it.elts:
                for s in node.body:
                    out.append(_SubstName(node.target.id, e).visit(copy.deepcopy(s)))
            self.changed = True
            res = []
            for s in out:
                r = self.visit(s)
                res.extend(r if isinstance(r, list) else [r])
            return res
        # for a, b in (('f', x), ('g', y)): unroll over the literal tuples (each name substituted)
        if isinstance(node.target, ast.Tuple) and isinstance(it, (ast.Tuple, ast.List)) and it.elts and \
                len(it.elts) <= 12 and not node.orelse and all(isinstance(t, ast.Name) for t in node.target.elts) and \
                all(isinstance(e, (ast.Tuple, ast.List)) and len(e.elts) == len(node.target.elts) and
                    all(isinstance(c, (ast.Constant, ast.Name)) or _pure_expr(c) or
                        (isinstance(c, (ast.List, ast.Dict, ast.Tuple)) and not ast.unparse(c).strip('[]{}()') and
                         sum(1 for s in node.body for x in ast.walk(s)
                             if isinstance(x, ast.Name) and x.id == t.id) <= 1)
                        for c, t in zip(e.elts, node.target.elts)) for e in it.elts) and \
                not any(isinstance(x, ast.Name) and isinstance(x.ctx, (ast.Store, ast.Del)) and
                        x.id in {c.id for e in it.elts for c in e.elts if isinstance(c, ast.Name)} |
                        {t.id for t in node.target.elts}
                        for s in node.body for x in ast.walk(s)) and \
                not any(isinstance(x, (ast.Break, ast.Continue)) for s in node.body for x in ast.walk(s)) and \
                (any(isinstance(x, ast.Call) and isinstance(x.func, ast.Name) and x.func.id in ('setattr', 'getattr')
                     for s in node.body for x in ast.walk(s)) or
                 (len(it.elts) <= 4 and sum(1 for s in node.body for _x in ast.walk(s)
                                            if isinstance(_x, ast.stmt)) <= 8)):
            out = []
            for e in it.elts:
                for s in node.body:
                    s2 = copy.deepcopy(s)
                    for t, c in zip(node.target.elts, e.elts):
                        s2 = _SubstName(t.id, c).visit(s2)
                    out.append(s2)
            self.changed = True
            res = []
            for s in out:
                r = self.visit(s)
                res.extend(r if isinstance(r, list) else [r])
            return res
        if isinstance(node.target, ast.Name) and isinstance(it, (ast.Tuple, ast.List)) and it.elts and \
                len(it.elts) <= 40 and not node.orelse and \
                all(isinstance(e, ast.Constant) and isinstance(e.value, str) for e in it.elts) and \
                not any(isinstance(x, (ast.Break, ast.Continue)) for s in node.body for x in ast.walk(s)) and \
                any(isinstance(x, ast.Call) and isinstance(x.func, ast.Name) and x.func.id in ('setattr', 'getattr')
                    for s in node.body for x in ast.walk(s)):
            out = []
            for e in it.elts:
                for s in node.body:
                    s2 = _SubstName(node.target.id, e).visit(copy.deepcopy(s))
                    out.append(s2)
            self.changed = True
            res = []
            for s in out:
                r = self.visit(s)
                res.extend(r if isinstance(r, list) else [r])
            return res
        self.generic_visit(node)
        return node

    def visit_IfExp(self, node):
        self.generic_visit(node)
        if isinstance(node.test, ast.Constant) and isinstance(node.test.value, bool):
            self.changed = True
            return node.body if node.test.value else node.orelse
        return node

    def visit_If(self, node):
        self.generic_visit(node)
        if isinstance(node.test, ast.Constant) and isinstance(node.test.value, bool):
            self.changed = True
            return (node.body if node.test.value else node.orelse) or [ast.copy_location(ast.Pass(), node)]
        return node

    def visit_Assign(self, node):
        self.generic_visit(node)
        # (a, b, c) = ([] for _ in range(3))   /  a, b = [[] for _ in range(2)]  ->  one assignment each
        if len(node.targets) == 1 and isinstance(node.targets[0], (ast.Tuple, ast.List)) and \
                isinstance(node.value, (ast.GeneratorExp, ast.ListComp)) and len(node.value.generators) == 1:
            g = node.value.generators[0]
            n = len(node.targets[0].elts)
            if isinstance(g.iter, ast.Call) and isinstance(g.iter.func, ast.Name) and g.iter.func.id == 'range' and \
                    len(g.iter.args) == 1 and isinstance(g.iter.args[0], ast.Constant) and g.iter.args[0].value == n \
                    and not g.ifs and isinstance(g.target, ast.Name) and \
                    not any(isinstance(x, ast.Name) and x.id == g.target.id for x in ast.walk(node.value.elt)) and \
                    not any(isinstance(t, ast.Starred) for t in node.targets[0].elts):
                self.changed = True
                return [ast.copy_location(ast.Assign(targets=[t], value=copy.deepcopy(node.value.elt)), node)
                        for t in node.targets[0].elts]
        return node

    def visit_Expr(self, node):
        self.generic_visit(node)
        c = node.value
        # self.__dict__.update(f=v, g=w) / vars(self).update(f=v)  ->  self.f = v ; self.g = w
        if isinstance(c, ast.Call) and isinstance(c.func, ast.Attribute) and c.func.attr == 'update' and \
                not c.args and c.keywords and all(k.arg is not None for k in c.keywords):
            recv = c.func.value
            obj = None
            if isinstance(recv, ast.Attribute) and recv.attr == '__dict__':
                obj = recv.value
            elif isinstance(recv, ast.Call) and isinstance(recv.func, ast.Name) and recv.func.id == 'vars' and \
                    len(recv.args) == 1 and not recv.keywords:
                obj = recv.args[0]
            if obj is not None and _simple_arg(obj) and not isinstance(obj, ast.Constant):
                self.changed = True
                return [ast.copy_location(ast.Assign(
                    targets=[ast.Attribute(value=copy.deepcopy(obj), attr=k.arg, ctx=ast.Store())], value=k.value), node)
                    for k in c.keywords]
        if isinstance(c, ast.Call) and isinstance(c.func, ast.Name) and c.func.id == 'setattr' and \
                len(c.args) == 3 and not c.keywords and isinstance(c.args[1], ast.Constant) and \
                isinstance(c.args[1].value, str) and c.args[1].value.isidentifier():
            self.changed = True
            tgt = ast.Attribute(value=c.args[0], attr=c.args[1].value, ctx=ast.Store())
            return ast.copy_location(ast.Assign(targets=[tgt], value=c.args[2]), node)
        return node

    def visit_Call(self, node):
        self.generic_visit(node)
        # lst.extend(halves) with  halves = [a, b]  a local display that is only iterated / extended from
        if isinstance(node.func, ast.Attribute) and node.func.attr == 'extend' and len(node.args) == 1 and \
                isinstance(node.args[0], ast.Name) and node.args[0].id in getattr(self, 'local_seqs', {}) and \
                not node.keywords:
            self.changed = True
            node.args = [copy.deepcopy(self.local_seqs[node.args[0].id])]
            return node
        if isinstance(node.func, ast.Name) and node.func.id == 'getattr' and len(node.args) in (2, 3) and \
                not node.keywords and isinstance(node.args[1], ast.Constant) and \
                isinstance(node.args[1].value, str) and node.args[1].value.isidentifier():
            self.changed = True
            return ast.copy_location(ast.Attribute(value=node.args[0], attr=node.args[1].value, ctx=ast.Load()), node)
        return node


def _inline_nested_defs(fn):
    """def f(..): <local def g(a): return E>  ... g(x) ...   ->  ... E[a := x] ...
    for a nested one-expression function that reads, besides its parameters, only names the enclosing function
    never rebinds (self, parameters, imports); the nested def is dropped when no reference is left"""
    changed = False
    stores = {}
    for n in ast.walk(fn):
        if isinstance(n, ast.Name) and isinstance(n.ctx, (ast.Store, ast.Del)):
            stores[n.id] = stores.get(n.id, 0) + 1
    for st in list(fn.body):
        if not isinstance(st, ast.FunctionDef) or st.decorator_list:
            continue
        body = st.body
        if body and isinstance(body[0], ast.Expr) and isinstance(body[0].value, ast.Constant):
            body = body[1:]
        a = st.args
        if len(body) != 1 or not isinstance(body[0], ast.Return) or body[0].value is None or a.vararg or a.kwarg or \
                a.kwonlyargs or a.defaults or a.posonlyargs:
            continue
        params = [x.arg for x in a.args]
        expr = body[0].value
        if any(isinstance(x, (ast.Lambda, ast.Yield, ast.YieldFrom, ast.Await, ast.NamedExpr, ast.ListComp, ast.SetComp,
                              ast.DictComp, ast.GeneratorExp)) for x in ast.walk(expr)):
            continue
        free = {x.id for x in ast.walk(expr) if isinstance(x, ast.Name)} - set(params)
        if any(stores.get(v, 0) > 0 for v in free) or st.name in free:
            continue
        if stores.get(st.name, 0) > 0:
            continue
        # all references must be plain calls with positional simple arguments
        refs = [n for n in ast.walk(fn) if isinstance(n, ast.Name) and n.id == st.name]
        calls = [n for n in ast.walk(fn) if isinstance(n, ast.Call) and isinstance(n.func, ast.Name) and
                 n.func.id == st.name]
        if len(refs) != len(calls) or not calls or any(
                c.keywords or len(c.args) != len(params) or not all(_simple_arg(x) for x in c.args) for c in calls):
            continue

        class _Rep(ast.NodeTransformer):
            def visit_Call(self, node):
                self.generic_visit(node)
                if isinstance(node.func, ast.Name) and node.func.id == st.name:
                    env = dict(zip(params, node.args))
                    return ast.copy_location(_Rename({}, env).visit(copy.deepcopy(expr)), node)
                return node
        fn.body = [s_ for s_ in fn.body if s_ is not st]
        fn.body = [_Rep().visit(s_) for s_ in fn.body]
        changed = True
    return changed


def desugar(fn_node, consts=None, cls_consts=None):
    d = Desugar(consts, cls_consts)
    new = copy.deepcopy(fn_node)
    if _inline_nested_defs(new):
        d.changed = True
    d.set_locals(new)
    new.body = [y for s in new.body for y in (lambda r: r if isinstance(r, list) else [r])(d.visit(s))]
    if not d.changed:
        return fn_node, False
    ast.fix_missing_locations(new)
    return new, True



class SuperCalls(ast.NodeTransformer):
    """Base.method(self, args) inside a method of a subclass of Base, where super().method would
    resolve to the same function  ->  super().method(args)   (one spelling for rules)"""

    def __init__(self, repo, fi):
        self.repo = repo
        self.fi = fi
        self.changed = False

    def visit_Call(self, node):
        self.generic_visit(node)
        f = node.func
        # super(Cls, self) inside a method of Cls  ->  super()
        if isinstance(f, ast.Name) and f.id == 'super' and len(node.args) == 2 and self.fi.cls is not None and \
                isinstance(node.args[0], ast.Name) and isinstance(node.args[1], ast.Name) and node.args[1].id == 'self':
            c = self.repo.resolve_name(self.fi.module, node.args[0].id)
            if c is self.fi.cls:
                self.changed = True
                return ast.copy_location(ast.Call(func=f, args=[], keywords=[]), node)
        if isinstance(f, ast.Attribute) and isinstance(f.value, ast.Name) and node.args and \
                isinstance(node.args[0], ast.Name) and node.args[0].id == 'self' and self.fi.cls is not None:
            base = self.repo.resolve_name(self.fi.module, f.value.id)
            if base is not None and hasattr(base, 'methods') and base is not self.fi.cls and \
                    base in self.repo.mro(self.fi.cls):
                viasuper = self.repo.resolve_method(self.fi.cls, f.attr, after=self.fi.cls)
                direct = self.repo.resolve_method(base, f.attr)
                if viasuper is not None and viasuper is direct:
                    self.changed = True
                    new = ast.Call(func=ast.Attribute(value=ast.Call(func=ast.Name(id='super', ctx=ast.Load()),
                                                                     args=[], keywords=[]),
                                                      attr=f.attr, ctx=ast.Load()),
                                   args=node.args[1:], keywords=node.keywords)
                    return ast.copy_location(new, node)
        return node
