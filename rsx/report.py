"""E9: findings, rule results, known-findings matching, evidence and replay files."""
import json
import os

from .loader import AnalysisError

VERIF = os.path.dirname(os.path.dirname(os.path.abspath(__file__)))


class Finding:
    def __init__(self, rule, function, construct, message, where='', detail=None):
        self.rule = rule              # 'R01'
        self.function = function      # 'socp.Model.reset'
        self.construct = construct    # normalised text naming the construct / obligation
        self.message = message
        self.where = where            # file:line (informational; never part of the key)
        self.detail = detail or {}

    @property
    def key(self):
        return '%s|%s|%s' % (self.rule, self.function, self.construct)

    def as_dict(self):
        return {'rule': self.rule, 'function': self.function, 'construct': self.construct,
                'message': self.message, 'where': self.where, 'detail': self.detail,
                'key': self.key}


class RuleResult:
    def __init__(self, rule, title, text):
        self.rule = rule
        self.title = title
        self.text = text
        self.instances = []           # what was examined (dicts or strings)
        self.obligations = 0
        self.discharged = 0
        self.findings = []
        self.floor = 0
        self.notes = []
        self.functions = set()        # functions consulted

    def inst(self, desc, ok=True):
        self.instances.append(desc)
        self.obligations += 1
        if ok:
            self.discharged += 1

    def fail(self, finding):
        self.findings.append(finding)

    def check_opaque(self, repo):
        """A finding states that a construct is missing or wrong in a function.  If that function still contains
        reflection the analysis could not write out (a computed attribute name, __dict__ access) after
        desugaring, the construct may be there unseen: the rule is blind on it, it has no finding."""
        import ast
        for f in self.findings:
            try:
                fi = repo.func(f.function)
            except Exception:      # noqa: BLE001  (class-level or synthetic function names)
                continue
            nm0 = fi.name
            if nm0.startswith('_') and not (nm0.startswith('__') and nm0.endswith('__')) and \
                    not getattr(fi, 'absorbed', False):
                raise AnalysisError('%s: %s is a private helper that is analysed on its own (some call site could not '
                                    'be inlined): what its callers establish before the call is not visible, `%s` '
                                    'cannot be decided there' % (self.rule, f.function, f.construct[:60]))
            for n in ast.walk(fi.node):
                why = None
                if isinstance(n, ast.Call) and isinstance(n.func, ast.Name) and \
                        n.func.id in ('setattr', 'getattr', 'delattr') and len(n.args) >= 2 and \
                        not isinstance(n.args[1], ast.Constant):
                    why = '%s with a computed name' % n.func.id
                elif isinstance(n, ast.Attribute) and n.attr in ('__dict__', '__setattr__', '__getattribute__'):
                    why = 'access to %s' % n.attr
                elif isinstance(n, ast.Call) and isinstance(n.func, ast.Name) and n.func.id in ('vars', 'locals', 'globals'):
                    why = '%s()' % n.func.id
                elif isinstance(n, ast.Call):
                    # a call to a private helper of the package that could not be inlined (dynamic dispatch,
                    # recursion, a return inside a loop): its body is part of this function's behaviour
                    nm = n.func.attr if isinstance(n.func, ast.Attribute) else n.func.id if isinstance(n.func, ast.Name) else ''
                    if nm.startswith('_') and not (nm.startswith('__') and nm.endswith('__')) and nm != fi.name and \
                            _package_defines(repo, nm):
                        why = 'a call to the private helper %s(), which was not inlined,' % nm
                if why:
                    raise AnalysisError('%s: %s contains %s not written out in the analysed body; `%s` cannot be decided there'
                                        % (self.rule, f.function, why, f.construct[:60]))

    def check_floor(self):
        if len(self.instances) < self.floor:
            raise AnalysisError('%s matched %d instances, fewer than the %d confirmed by hand '
                                '(rule would pass vacuously)' %
                                (self.rule, len(self.instances), self.floor))


def _package_defines(repo, name):
    for m in repo.modules.values():
        if name in m.functions:
            return True
        for c in m.classes.values():
            if name in c.methods:
                return True
    return False


def load_known():
    path = os.path.join(VERIF, 'known_findings.json')
    if not os.path.exists(path):
        return []
    with open(path) as fh:
        data = json.load(fh)
    return data.get('findings', [])


def match_known(finding, prop, known):
    for k in known:
        if k.get('status') != 'known':
            continue
        if k.get('rule') != finding.rule or k.get('function') != finding.function:
            continue
        if k.get('construct') != finding.construct:
            continue
        props = k.get('properties') or ([k['property']] if 'property' in k else [])
        if props and prop not in props:
            continue
        return k
    return None


def write_replay(prop, finding, rule_text):
    d = os.path.join(VERIF, 'replays', prop)
    os.makedirs(d, exist_ok=True)
    import hashlib
    name = hashlib.sha1(finding.key.encode()).hexdigest()[:12] + '.json'
    path = os.path.join(d, name)
    with open(path, 'w') as fh:
        json.dump({'property': prop, 'rule_text': rule_text, **finding.as_dict()}, fh, indent=1)
    return path


def write_evidence(prop, tier, seed, coverage, assumptions, wall, violations):
    d = os.path.join(VERIF, 'evidence')
    os.makedirs(d, exist_ok=True)
    path = os.path.join(d, prop + '.json')
    doc = {'property_id': prop, 'tier': tier, 'seed': seed, 'level': 'other',
           'coverage': coverage, 'assumptions': assumptions, 'wall_s': round(wall, 3),
           'violations': violations}
    tmp = path + '.tmp'
    with open(tmp, 'w') as fh:
        json.dump(doc, fh, indent=1, default=str)
    os.replace(tmp, path)
    return path
