"""N21  live-range (web) splitting of local names.

A local name that is reused for unrelated values -- `formula` in the primal arm and in the dual arm of
do_math, a temporary `ub` unpacked in one arm and rebuilt in another -- is one variable to every
name-keyed, flow-insensitive analysis (may-alias bindings, single definitions), which then mixes the
facts of the two values.  This pass computes reaching definitions over the structured syntax tree,
joins the definitions that reach a common use into webs, and gives every web but the first its own
name (`<name>__w<k>`); the program is unchanged up to renaming of locals.

Conservative where the structure is not modelled: names that are parameters keep their name for the
web of the parameter; names used by nested functions / lambdas / classes / comprehension targets,
declared global / nonlocal, bound by import or `except .. as`, or deleted, are never split.
"""
import ast

_SUFFIX = '__w'


class _UF:
    def __init__(self):
        self.p = {}

    def find(self, x):
        self.p.setdefault(x, x)
        while self.p[x] != x:
            self.p[x] = self.p[self.p[x]]
            x = self.p[x]
        return x

    def union(self, a, b):
        a, b = self.find(a), self.find(b)
        if a != b:
            self.p[b] = a


def _join(a, b):
    if a is None:
        return b
    if b is None:
        return a
    out = dict(a)
    for k, v in b.items():
        out[k] = out.get(k, frozenset()) | v
    return out


class _Reach:
    def __init__(self, fn):
        self.fn = fn
        self.uf = _UF()
        self.use_defs = {}       # id(Name load node) -> set of def keys
        self.def_nodes = {}      # def key -> Name node (Store) ; order of creation = document order
        self.order = []
        self.frozen = set()      # names never split
        self.loops = []          # stack of [break_states, continue_states]

    # -- expressions ---------------------------------------------------------------------------
    def expr(self, e, st):
        """uses in evaluation order are not needed: definitions inside expressions (walrus) are rare;
        handle NamedExpr by defining after its value"""
        if e is None:
            return st
        for n in self._walk_expr(e):
            if isinstance(n, ast.Name):
                if isinstance(n.ctx, ast.Load):
                    self._use(n, st)
            elif isinstance(n, ast.NamedExpr):
                st = self._define(n.target, st)
        return st

    def _walk_expr(self, e):
        """post-order-ish walk that does not enter nested scopes (their free names freeze the name)"""
        stack = [e]
        out = []
        while stack:
            n = stack.pop()
            if isinstance(n, (ast.Lambda, ast.FunctionDef, ast.AsyncFunctionDef, ast.ClassDef)):
                for x in ast.walk(n):
                    if isinstance(x, ast.Name):
                        self.frozen.add(x.id)
                continue
            if isinstance(n, (ast.ListComp, ast.SetComp, ast.DictComp, ast.GeneratorExp)):
                for g in n.generators:
                    for x in ast.walk(g.target):
                        if isinstance(x, ast.Name):
                            self.frozen.add(x.id)
            out.append(n)
            stack.extend(reversed(list(ast.iter_child_nodes(n))))
        return out

    def _use(self, n, st):
        ds = st.get(n.id) if st is not None else None
        if ds:
            self.use_defs[id(n)] = (n, ds)
            first = None
            for d in ds:
                if first is None:
                    first = d
                else:
                    self.uf.union(first, d)

    def _define(self, target, st):
        if st is None:
            return st
        st = dict(st)
        for x in self._targets(target, st):
            key = (x.id, id(x))
            if key not in self.def_nodes:
                self.order.append(key)
                self.def_nodes[key] = x
            self.uf.find(key)
            st[x.id] = frozenset([key])
        return st

    def _targets(self, t, st):
        if isinstance(t, ast.Name):
            return [t]
        if isinstance(t, (ast.Tuple, ast.List)):
            return [x for e in t.elts for x in self._targets(e, st)]
        if isinstance(t, ast.Starred):
            return self._targets(t.value, st)
        # attribute / subscript store: the base is used
        self.expr_loads(t, st)
        return []

    def expr_loads(self, t, st):
        for n in self._walk_expr(t):
            if isinstance(n, ast.Name) and isinstance(n.ctx, ast.Load):
                self._use(n, st)

    # -- statements ----------------------------------------------------------------------------
    def block(self, stmts, st):
        for s in stmts:
            st = self.stmt(s, st)
        return st

    def stmt(self, s, st):
        if st is None:
            # unreachable code: still visit, with an empty state, so that nothing is renamed wrongly
            st = {}
        if isinstance(s, ast.Assign):
            st = self.expr(s.value, st)
            for t in s.targets:
                st = self._define(t, st)
            return st
        if isinstance(s, ast.AnnAssign):
            st = self.expr(s.value, st)
            if s.value is not None:
                st = self._define(s.target, st)
            return st
        if isinstance(s, ast.AugAssign):
            st = self.expr(s.value, st)
            if isinstance(s.target, ast.Name):
                # a use and a definition of the same variable: keep them in one web
                ds = st.get(s.target.id)
                st = self._define(s.target, st)
                new = next(iter(st[s.target.id]))
                for d in ds or ():
                    self.uf.union(d, new)
                return st
            self.expr_loads(s.target, st)
            return st
        if isinstance(s, (ast.Expr, ast.Return, ast.Raise, ast.Assert, ast.Delete)):
            if isinstance(s, ast.Delete):
                for x in ast.walk(s):
                    if isinstance(x, ast.Name):
                        self.frozen.add(x.id)
            for c in ast.iter_child_nodes(s):
                st = self.expr(c, st)
            return None if isinstance(s, (ast.Return, ast.Raise)) else st
        if isinstance(s, ast.If):
            st = self.expr(s.test, st)
            a = self.block(s.body, st)
            b = self.block(s.orelse, st)
            return _join(a, b)
        if isinstance(s, (ast.For, ast.AsyncFor, ast.While)):
            is_while = isinstance(s, ast.While)
            head = st if is_while else self.expr(s.iter, st)
            entry = head
            brk = []
            for _ in range(6):
                self.loops.append([[], []])
                cur = self.expr(s.test, entry) if is_while else self._define(s.target, entry)
                body_out = self.block(s.body, cur)
                brk, cont = self.loops.pop()
                for c in cont:
                    body_out = _join(body_out, c)
                new_entry = _join(head, body_out)
                if new_entry == entry:
                    break
                entry = new_entry
            out = self.expr(s.test, entry) if is_while else entry
            out = self.block(s.orelse, out)
            for b in brk:
                out = _join(out, b)
            return out
        if isinstance(s, ast.Break):
            if self.loops:
                self.loops[-1][0].append(st)
            return None
        if isinstance(s, ast.Continue):
            if self.loops:
                self.loops[-1][1].append(st)
            return None
        if isinstance(s, (ast.With, ast.AsyncWith)):
            for it in s.items:
                st = self.expr(it.context_expr, st)
                if it.optional_vars is not None:
                    st = self._define(it.optional_vars, st)
            return self.block(s.body, st)
        if isinstance(s, ast.Try) or s.__class__.__name__ == 'TryStar':
            # every name touched inside a try statement keeps its name
            for x in ast.walk(s):
                if isinstance(x, ast.Name):
                    self.frozen.add(x.id)
                elif isinstance(x, ast.ExceptHandler) and x.name:
                    self.frozen.add(x.name)
            may = st
            cur = st
            for b in s.body:
                cur = self.stmt(b, cur)
                may = _join(may, cur)
            outs = [self.block(s.orelse, cur)]
            for h in s.handlers:
                outs.append(self.block(h.body, may))
            res = None
            for o in outs:
                res = _join(res, o)
            if s.finalbody:
                res = self.block(s.finalbody, _join(res, may))
            return res
        if isinstance(s, (ast.FunctionDef, ast.AsyncFunctionDef, ast.ClassDef)):
            self.frozen.add(s.name)
            for x in ast.walk(s):
                if isinstance(x, ast.Name):
                    self.frozen.add(x.id)
            return st
        if isinstance(s, (ast.Global, ast.Nonlocal)):
            self.frozen.update(s.names)
            return st
        if isinstance(s, (ast.Import, ast.ImportFrom)):
            for a in s.names:
                self.frozen.add((a.asname or a.name).split('.')[0])
            return st
        if isinstance(s, ast.Match):
            for x in ast.walk(s):
                if isinstance(x, ast.Name):
                    self.frozen.add(x.id)
                for fld in ('name', 'rest'):
                    if isinstance(getattr(x, fld, None), str):
                        self.frozen.add(getattr(x, fld))
            return st
        # Pass and anything else without bindings
        for c in ast.iter_child_nodes(s):
            if isinstance(c, ast.expr):
                st = self.expr(c, st)
        return st


def split_webs(fn):
    """rename in place; -> number of names split"""
    r = _Reach(fn)
    st = {}
    a = fn.args
    for p in a.posonlyargs + a.args + a.kwonlyargs + ([a.vararg] if a.vararg else []) + ([a.kwarg] if a.kwarg else []):
        key = (p.arg, id(p))
        r.order.append(key)
        r.def_nodes[key] = None          # parameter: its web keeps the name
        st[p.arg] = frozenset([key])
    for d in a.defaults + [d for d in a.kw_defaults if d is not None]:
        for x in ast.walk(d):
            if isinstance(x, ast.Name):
                r.frozen.add(x.id)
    r.block(fn.body, st)
    by_name = {}
    for key in r.order:
        by_name.setdefault(key[0], []).append(key)
    renamed = 0
    for name, keys in by_name.items():
        if name in r.frozen or name.startswith('__'):
            continue
        roots = []
        for k in keys:
            rt = r.uf.find(k)
            if rt not in roots:
                roots.append(rt)
        if len(roots) < 2:
            continue
        # the web of the parameter, else of the first definition, keeps the name
        keep = None
        for k in keys:
            if r.def_nodes[k] is None:
                keep = r.uf.find(k)
        if keep is None:
            keep = r.uf.find(keys[0])
        names = {}
        n = 0
        for rt in roots:
            if rt == keep:
                names[rt] = name
            else:
                n += 1
                names[rt] = '%s%s%d' % (name, _SUFFIX, n)
        for k in keys:
            node = r.def_nodes[k]
            if node is not None:
                node.id = names[r.uf.find(k)]
        for _i, (node, ds) in r.use_defs.items():
            if node.id == name or node.id.split(_SUFFIX)[0] == name:
                d = next(iter(ds))
                if d[0] == name:
                    node.id = names[r.uf.find(d)]
        renamed += 1
    return renamed


def display(text):
    """drop web suffixes from a text shown to the user / used as a finding key"""
    import re
    return re.sub(r'(\w)__w\d+\b', r'\1', text)


def reaching_values(fn):
    """id(Name load node) -> list of the value expressions of the plain assignments `name = value` that may
    reach that read (None in the list for a parameter, a loop / with target, an augmented or unpacking
    assignment: a definition without a value expression of its own)"""
    r = _Reach(fn)
    st = {}
    a = fn.args
    for p in a.posonlyargs + a.args + a.kwonlyargs + ([a.vararg] if a.vararg else []) + ([a.kwarg] if a.kwarg else []):
        key = (p.arg, id(p))
        r.order.append(key)
        r.def_nodes[key] = None
        st[p.arg] = frozenset([key])
    r.block(fn.body, st)
    value_of = {}
    for n in ast.walk(fn):
        if isinstance(n, ast.Assign) and len(n.targets) == 1 and isinstance(n.targets[0], ast.Name):
            value_of[id(n.targets[0])] = n.value
    out = {}
    for _i, (node, ds) in r.use_defs.items():
        vals = []
        for d in ds:
            dn = r.def_nodes.get(d)
            vals.append(value_of.get(id(dn)) if dn is not None else None)
        out[id(node)] = vals
    return out
