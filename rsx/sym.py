"""E8: abstract interpreter for the operator methods of the expression classes.

The interpreter evaluates the *source* (AST) of small methods on a numeric model of the
objects: an array/affine quantity is modelled by one real number (a 1x1 instance), a model by
an object with `mtype` / `top`, NumPy / SciPy helpers by their scalar meaning (np.zeros -> 0,
np.ones -> 1, np.sign, abs, `@` -> `*`, reshape/flatten -> identity ...).  Nothing of rsome is
imported or executed by Python itself: every statement is interpreted here, and anything outside
the interpreted language raises Unknown (the rule that needed the value then ends with
ANALYSIS-ERROR, never with a verdict).

This is what lets the rules enumerate the finite sign domain {-1, 0, +1} x operator x class
completely, following super() calls, reflected operators and constructor chains exactly as
written in the tree under analysis.
"""
import ast
import math

from .loader import AnalysisError, ClassInfo, FuncInfo, ntext, body_stmts


class Unknown(Exception):
    """The construct cannot be interpreted on the numeric model."""


class Raised(Exception):
    """The interpreted code executed a `raise`."""

    def __init__(self, exc='Exception', msg=''):
        super().__init__(exc)
        self.exc = exc
        self.msg = msg


class _Break(Exception):
    pass


class _Continue(Exception):
    pass


class _Return(Exception):
    def __init__(self, value):
        self.value = value


class Obj:
    def __init__(self, cls, fields=None):
        self.cls = cls
        self.fields = dict(fields or {})

    def __repr__(self):
        return '<%s %s>' % (self.cls.name, {k: v for k, v in self.fields.items()
                                            if k in ('sign', 'multiplier', 'affine_out', 'xtype', 'const',
                                                     'linear', 'ctype', 'sense')})


class Opaque:
    def __init__(self, tag=''):
        self.tag = tag

    def __repr__(self):
        return '<?%s>' % self.tag


class Marker:
    """A name standing for a module or an abstract type (np, sp, Real, Iterable ...)."""

    def __init__(self, name):
        self.name = name

    def __repr__(self):
        return '<marker %s>' % self.name


NUM = (int, float, bool)
ABSTRACT_TYPES = {'Real': lambda v: isinstance(v, NUM) and not isinstance(v, bool) or isinstance(v, bool),
                  'int': lambda v: isinstance(v, int) and not isinstance(v, bool),
                  'float': lambda v: isinstance(v, float),
                  'str': lambda v: isinstance(v, str),
                  'Iterable': lambda v: isinstance(v, (list, tuple)),
                  'Sized': lambda v: isinstance(v, (list, tuple, str)),
                  'list': lambda v: isinstance(v, list),
                  'tuple': lambda v: isinstance(v, tuple),
                  'np.ndarray': lambda v: False, 'pd.Series': lambda v: False,
                  'np.number': lambda v: isinstance(v, NUM)}
IDENTITY_METHODS = {'reshape', 'flatten', 'astype', 'copy', 'item', 'sum', 'ravel', 'todense', 'toarray',
                    'round', 'squeeze', 'tolist'}


class Interp:
    def __init__(self, repo, max_depth=40):
        self.repo = repo
        self.max_depth = max_depth
        self.depth = 0
        self.trace = []

    # --------------------------------------------------------------------------- objects
    def construct(self, cls, args=(), kwargs=None):
        obj = Obj(cls)
        init = self.repo.resolve_method(cls, '__init__')
        if init is not None:
            self.call_func(init, [obj] + list(args), kwargs or {}, owner=init.cls)
        return obj

    def call_method(self, obj, name, args=(), kwargs=None, after=None):
        if not isinstance(obj, Obj):
            raise Unknown('method %s on %r' % (name, obj))
        fi = self.repo.resolve_method(obj.cls, name, after=after)
        if fi is None:
            raise Raised('AttributeError', name)
        if fi.is_property:
            raise Unknown('property called as method')
        return self.call_func(fi, [obj] + list(args), kwargs or {}, owner=fi.cls)

    def has_method(self, obj, name):
        return isinstance(obj, Obj) and self.repo.resolve_method(obj.cls, name) is not None

    def call_func(self, fi, args, kwargs, owner=None):
        self.depth += 1
        if self.depth > self.max_depth:
            self.depth -= 1
            # unbounded mutual recursion: Python itself would raise RecursionError here
            raise Raised('RecursionError', fi.fq)
        try:
            env = self._bind(fi, args, kwargs)
            frame = {'env': env, 'fi': fi, 'owner': owner}
            try:
                self.exec_block(body_stmts(fi), frame)
            except _Return as r:
                return r.value
            return None
        finally:
            self.depth -= 1

    def _bind(self, fi, args, kwargs):
        a = fi.node.args
        names = [p.arg for p in a.posonlyargs + a.args]
        env = {}
        defaults = a.defaults
        for i, d in enumerate(defaults):
            env[names[len(names) - len(defaults) + i]] = ('__default__', d)
        for p, d in zip(a.kwonlyargs, a.kw_defaults):
            if d is not None:
                env[p.arg] = ('__default__', d)
        if len(args) > len(names):
            if a.vararg is None:
                raise Unknown('too many arguments for %s' % fi.fq)
            env[a.vararg.arg] = tuple(args[len(names):])
            args = args[:len(names)]
        elif a.vararg is not None:
            env[a.vararg.arg] = ()
        for n, v in zip(names, args):
            env[n] = v
        for k, v in kwargs.items():
            env[k] = v
        frame = {'env': env, 'fi': fi, 'owner': None}
        for n in names + [p.arg for p in a.kwonlyargs]:
            if n not in env:
                raise Raised('TypeError', 'missing argument %s of %s' % (n, fi.fq))
            v = env[n]
            if isinstance(v, tuple) and len(v) == 2 and v[0] == '__default__':
                env[n] = self.eval(v[1], frame)
        return env

    # ------------------------------------------------------------------------ statements
    def exec_block(self, stmts, frame):
        for st in stmts:
            self.exec_stmt(st, frame)

    def exec_stmt(self, st, frame):
        env = frame['env']
        if isinstance(st, ast.Return):
            raise _Return(self.eval(st.value, frame) if st.value is not None else None)
        if isinstance(st, ast.Raise):
            name = 'Exception'
            if st.exc is not None:
                e = st.exc
                name = ntext(e.func) if isinstance(e, ast.Call) else ntext(e)
            raise Raised(name)
        if isinstance(st, ast.Assign):
            val = self.eval(st.value, frame)
            for t in st.targets:
                self.assign(t, val, frame)
            return
        if isinstance(st, ast.AugAssign):
            cur = self.eval(_load(st.target), frame)
            val = self.binop(st.op, cur, self.eval(st.value, frame))
            self.assign(st.target, val, frame)
            return
        if isinstance(st, ast.Expr):
            self.eval(st.value, frame)
            return
        if isinstance(st, ast.If):
            if self.truth(self.eval(st.test, frame)):
                self.exec_block(st.body, frame)
            else:
                self.exec_block(st.orelse, frame)
            return
        if isinstance(st, ast.For):
            it = self.eval(st.iter, frame)
            if not isinstance(it, (list, tuple)):
                raise Unknown('for over %r' % (it,))
            for v in it:
                self.assign(st.target, v, frame)
                try:
                    self.exec_block(st.body, frame)
                except _Break:
                    break
                except _Continue:
                    continue
            else:
                self.exec_block(st.orelse, frame)
            return
        if isinstance(st, ast.Break):
            raise _Break()
        if isinstance(st, ast.Continue):
            raise _Continue()
        if isinstance(st, ast.Pass):
            return
        raise Unknown('statement %s' % type(st).__name__)

    def assign(self, t, val, frame):
        if isinstance(t, ast.Name):
            frame['env'][t.id] = val
        elif isinstance(t, ast.Attribute):
            o = self.eval(t.value, frame)
            if isinstance(o, Obj):
                o.fields[t.attr] = val
            elif isinstance(o, Opaque):
                return
            else:
                raise Unknown('attribute store on %r' % (o,))
        elif isinstance(t, (ast.Tuple, ast.List)):
            if not isinstance(val, (list, tuple)) or len(val) != len(t.elts):
                raise Unknown('unpacking')
            for tt, vv in zip(t.elts, val):
                self.assign(tt, vv, frame)
        elif isinstance(t, ast.Subscript):
            o = self.eval(t.value, frame)
            if isinstance(o, list):
                o[self.eval(t.slice, frame)] = val
            elif isinstance(o, Opaque):
                return
            else:
                raise Unknown('subscript store')
        else:
            raise Unknown('assignment target')

    # ----------------------------------------------------------------------- expressions
    def truth(self, v):
        if isinstance(v, Opaque):
            raise Unknown('truth value of %r' % v)
        if isinstance(v, Obj):
            return True
        return bool(v)

    def lookup(self, name, frame):
        env = frame['env']
        if name in env:
            return env[name]
        fi = frame['fi']
        r = self.repo.resolve_name(fi.module, name)
        if r is not None:
            return r
        g = self.repo.modules[fi.module].globals_assigned.get(name) if fi.module in self.repo.modules else None
        if isinstance(g, ast.Constant) or (isinstance(g, (ast.Tuple, ast.List)) and
                                           all(isinstance(x, ast.Constant) for x in g.elts)):
            return self.eval(g, frame)            # a module-level literal constant
        if name in ('np', 'sp', 'pd', 'warnings'):
            return Marker(name)
        if name in ABSTRACT_TYPES:
            return Marker(name)
        if name in ('True', 'False', 'None'):
            return {'True': True, 'False': False, 'None': None}[name]
        return Marker(name)

    def eval(self, e, frame):
        if isinstance(e, ast.Constant):
            return e.value
        if isinstance(e, ast.Name):
            return self.lookup(e.id, frame)
        if isinstance(e, ast.Attribute):
            return self.getattr(self.eval(e.value, frame), e.attr, frame)
        if isinstance(e, ast.UnaryOp):
            v = self.eval(e.operand, frame)
            if isinstance(e.op, ast.Not):
                return not self.truth(v)
            if isinstance(e.op, ast.USub):
                if isinstance(v, Obj):
                    return self.call_method(v, '__neg__')
                if isinstance(v, NUM):
                    return -v
                if isinstance(v, Opaque):
                    return v
            if isinstance(e.op, ast.UAdd):
                return v
            raise Unknown('unary %s on %r' % (type(e.op).__name__, v))
        if isinstance(e, ast.BinOp):
            return self.binop(e.op, self.eval(e.left, frame), self.eval(e.right, frame))
        if isinstance(e, ast.BoolOp):
            if isinstance(e.op, ast.And):
                v = True
                for x in e.values:
                    v = self.eval(x, frame)
                    if not self.truth(v):
                        return v
                return v
            v = False
            for x in e.values:
                v = self.eval(x, frame)
                if self.truth(v):
                    return v
            return v
        if isinstance(e, ast.Compare):
            left = self.eval(e.left, frame)
            for op, c in zip(e.ops, e.comparators):
                right = self.eval(c, frame)
                r = self.compare(op, left, right)
                if not isinstance(r, bool):
                    return r          # rich comparison producing an object
                if not r:
                    return False
                left = right
            return True
        if isinstance(e, ast.IfExp):
            return self.eval(e.body if self.truth(self.eval(e.test, frame)) else e.orelse, frame)
        if isinstance(e, (ast.Tuple, ast.List)):
            vals = [self.eval(x, frame) for x in e.elts]
            return tuple(vals) if isinstance(e, ast.Tuple) else vals
        if isinstance(e, (ast.ListComp, ast.GeneratorExp)) and len(e.generators) == 1 and not e.generators[0].ifs:
            g = e.generators[0]
            it = self.eval(g.iter, frame)
            if not isinstance(it, (list, tuple)):
                raise Unknown('comprehension over %r' % (it,))
            out = []
            sub = {'env': dict(frame['env']), 'fi': frame['fi'], 'owner': frame['owner']}
            for v in it:
                self.assign(g.target, v, sub)
                out.append(self.eval(e.elt, sub))
            return out
        if isinstance(e, ast.Subscript):
            base = self.eval(e.value, frame)
            if isinstance(base, (list, tuple, str)):
                idx = self.eval(e.slice, frame) if not isinstance(e.slice, ast.Slice) else slice(
                    self.eval(e.slice.lower, frame) if e.slice.lower else None,
                    self.eval(e.slice.upper, frame) if e.slice.upper else None)
                try:
                    return base[idx]
                except Exception:
                    raise Unknown('index')
            if isinstance(base, NUM):
                return base
            if isinstance(base, Obj) and self.has_method(base, '__getitem__'):
                return base        # element of a 1x1 model object is the object itself
            return Opaque('subscript')
        if isinstance(e, ast.JoinedStr):
            return 'str'
        if isinstance(e, ast.Call):
            return self.call(e, frame)
        if isinstance(e, ast.Slice):
            return slice(None)
        raise Unknown('expression %s' % type(e).__name__)

    def getattr(self, o, attr, frame):
        if isinstance(o, Obj):
            if attr in o.fields:
                return o.fields[attr]
            fi = self.repo.resolve_method(o.cls, attr)
            if fi is not None:
                if fi.is_property:
                    return self.call_func(fi, [o], {}, owner=fi.cls)
                return ('bound', o, fi)
            for c in self.repo.mro(o.cls):
                if attr in c.class_attrs and isinstance(c.class_attrs[attr], (ast.Constant, ast.Tuple, ast.List)):
                    return self.eval(c.class_attrs[attr], frame)     # class-level literal
            if attr in ('shape',):
                return ()
            raise Raised('AttributeError', '%s.%s' % (o.cls.name, attr))
        if isinstance(o, ClassInfo):
            fi = self.repo.resolve_method(o, attr)
            if fi is not None:
                return ('unbound', fi)
            for c in self.repo.mro(o):
                if attr in c.class_attrs and isinstance(c.class_attrs[attr], (ast.Constant, ast.Tuple, ast.List)):
                    return self.eval(c.class_attrs[attr], frame)
            raise Unknown('attribute %s of %r' % (attr, o))
        if isinstance(o, NUM):
            if attr == 'shape':
                return ()
            if attr in ('size', 'ndim'):
                return 1 if attr == 'size' else 0
            if attr == 'T':
                return o
            return ('nummethod', o, attr)
        if isinstance(o, Marker):
            return Marker(o.name + '.' + attr)
        if isinstance(o, (list, tuple)):
            return ('seqmethod', o, attr)
        if isinstance(o, Opaque) or o is None:
            return Opaque(attr)
        if isinstance(o, str):
            return ('strmethod', o, attr)
        raise Unknown('attribute %s of %r' % (attr, o))

    def binop(self, op, a, b):
        dunder = {ast.Add: ('__add__', '__radd__'), ast.Sub: ('__sub__', '__rsub__'),
                  ast.Mult: ('__mul__', '__rmul__'), ast.MatMult: ('__matmul__', '__rmatmul__')}
        for k, (f, r) in dunder.items():
            if isinstance(op, k):
                if isinstance(a, Obj):
                    # python would try the reflected method of a *subclass* right operand first
                    if isinstance(b, Obj) and b.cls is not a.cls and self.repo.is_subclass(b.cls, a.cls) \
                            and self.has_method(b, r):
                        return self.call_method(b, r, [a])
                    if self.has_method(a, f):
                        return self.call_method(a, f, [b])
                    if isinstance(b, Obj) and self.has_method(b, r):
                        return self.call_method(b, r, [a])
                    raise Raised('TypeError', 'unsupported operand')
                if isinstance(b, Obj):
                    if self.has_method(b, r):
                        return self.call_method(b, r, [a])
                    raise Raised('TypeError', 'unsupported operand')
        if isinstance(a, Opaque) or isinstance(b, Opaque):
            return Opaque('binop')
        if isinstance(a, NUM) and isinstance(b, NUM):
            if isinstance(op, ast.Add):
                return a + b
            if isinstance(op, ast.Sub):
                return a - b
            if isinstance(op, (ast.Mult, ast.MatMult)):
                return a * b
            if isinstance(op, ast.Div):
                return a / b
            if isinstance(op, ast.Pow):
                return a ** b
            if isinstance(op, ast.Mod):
                return a % b
            if isinstance(op, ast.FloorDiv):
                return a // b
        if isinstance(op, ast.Add) and isinstance(a, (list, tuple)) and isinstance(b, type(a)):
            return a + b
        if isinstance(op, ast.Add) and isinstance(a, str) and isinstance(b, str):
            return a + b
        if isinstance(op, ast.Mult) and isinstance(a, list) and isinstance(b, int):
            return a * b
        raise Unknown('binop %s on %r, %r' % (type(op).__name__, a, b))

    def compare(self, op, a, b):
        rich = {ast.LtE: ('__le__', '__ge__'), ast.GtE: ('__ge__', '__le__'), ast.Eq: ('__eq__', '__eq__')}
        for k, (f, r) in rich.items():
            if isinstance(op, k):
                if isinstance(a, Obj) and self.has_method(a, f):
                    return self.call_method(a, f, [b])
                if isinstance(b, Obj) and self.has_method(b, r):
                    return self.call_method(b, r, [a])
        if isinstance(op, ast.Is):
            return a is b
        if isinstance(op, ast.IsNot):
            return a is not b
        if isinstance(a, Opaque) or isinstance(b, Opaque):
            raise Unknown('comparison with unknown value')
        if isinstance(op, ast.Eq):
            return a == b
        if isinstance(op, ast.NotEq):
            return a != b
        if isinstance(op, ast.In):
            return a in b
        if isinstance(op, ast.NotIn):
            return a not in b
        if isinstance(a, NUM) and isinstance(b, NUM):
            if isinstance(op, ast.Lt):
                return a < b
            if isinstance(op, ast.LtE):
                return a <= b
            if isinstance(op, ast.Gt):
                return a > b
            if isinstance(op, ast.GtE):
                return a >= b
        raise Unknown('compare %s on %r, %r' % (type(op).__name__, a, b))

    # ----------------------------------------------------------------------------- calls
    def isinstance_(self, v, spec):
        specs = spec if isinstance(spec, tuple) else (spec,)
        for s in specs:
            if isinstance(s, ClassInfo):
                if isinstance(v, Obj) and self.repo.is_subclass(v.cls, s):
                    return True
            elif isinstance(s, Marker):
                fn = ABSTRACT_TYPES.get(s.name)
                if fn is None:
                    raise Unknown('isinstance against %s' % s.name)
                if fn(v):
                    return True
            else:
                raise Unknown('isinstance spec %r' % (s,))
        return False

    def call(self, e, frame):
        f = e.func
        # super().m(...)
        if isinstance(f, ast.Attribute) and isinstance(f.value, ast.Call) and \
                isinstance(f.value.func, ast.Name) and f.value.func.id == 'super':
            selfobj = frame['env'].get('self')
            owner = frame['owner']
            args = [self.eval(a, frame) for a in e.args]
            kwargs = {k.arg: self.eval(k.value, frame) for k in e.keywords}
            fi = self.repo.resolve_method(selfobj.cls, f.attr, after=owner)
            if fi is None:
                raise Raised('AttributeError', f.attr)
            if fi.is_property:
                raise Unknown('super() property')
            return self.call_func(fi, [selfobj] + args, kwargs, owner=fi.cls)
        if isinstance(f, ast.Attribute) and isinstance(f.value, ast.Call) and \
                isinstance(f.value.func, ast.Name) and f.value.func.id == 'super' and False:
            pass
        fn = self.eval(f, frame)
        args = []
        for a in e.args:
            if isinstance(a, ast.Starred):
                v = self.eval(a.value, frame)
                if not isinstance(v, (list, tuple)):
                    raise Unknown('star-arg')
                args.extend(v)
            else:
                args.append(self.eval(a, frame))
        kwargs = {k.arg: self.eval(k.value, frame) for k in e.keywords if k.arg}
        if isinstance(fn, ClassInfo):
            return self.construct(fn, args, kwargs)
        if isinstance(fn, FuncInfo):
            return self.builtin_or_func(fn, args, kwargs)
        if isinstance(fn, tuple) and fn and fn[0] == 'bound':
            return self.call_func(fn[2], [fn[1]] + args, kwargs, owner=fn[2].cls)
        if isinstance(fn, tuple) and fn and fn[0] == 'unbound':
            return self.call_func(fn[1], args, kwargs, owner=fn[1].cls)      # Cls.method(obj, ..)
        if isinstance(fn, tuple) and fn and fn[0] == 'nummethod':
            if fn[2] in IDENTITY_METHODS:
                return fn[1]
            if fn[2] in ('any', 'all'):
                return bool(fn[1])
            if fn[2] == 'to_affine':
                return fn[1]
            raise Unknown('method %s on a number' % fn[2])
        if isinstance(fn, tuple) and fn and fn[0] == 'seqmethod':
            if fn[2] == 'copy':
                return list(fn[1])
            if fn[2] == 'append' and isinstance(fn[1], list):
                fn[1].append(args[0])
                return None
            if fn[2] == 'extend' and isinstance(fn[1], list):
                fn[1].extend(args[0])
                return None
            raise Unknown('sequence method %s' % fn[2])
        if isinstance(fn, tuple) and fn and fn[0] == 'strmethod':
            if fn[2] == 'upper':
                return fn[1].upper()
            raise Unknown('str method')
        if isinstance(fn, Marker):
            return self.marker_call(fn.name, args, kwargs)
        if isinstance(fn, Opaque):
            return Opaque('call')
        raise Unknown('call of %r' % (fn,))

    SUBROUTINE_MODELS = {
        'check_numeric': lambda s, a, k: a[0],
        'add_linear': lambda s, a, k: s.binop(ast.Add(), a[0], a[1]),
        'sparse_mul': lambda s, a, k: a[0],
        'sp_matmul': lambda s, a, k: a[0],
        'sp_lmatmul': lambda s, a, k: a[0],
        'sp_trans': lambda s, a, k: 1.0,
        'comb_set': lambda s, a, k: ('comb', _freeze(a[0]), _freeze(a[1])) if _freeze(a[0]) != _freeze(a[1]) else a[0],
        'index_array': lambda s, a, k: 0,
        'sv_to_csr': lambda s, a, k: 1.0,
        'array_to_sparse': lambda s, a, k: 1.0,
        'event_dict': lambda s, a, k: Opaque('event_dict'),
    }

    def builtin_or_func(self, fi, args, kwargs):
        if fi.module == 'subroutines' and fi.name in self.SUBROUTINE_MODELS:
            return self.SUBROUTINE_MODELS[fi.name](self, args, kwargs)
        if fi.module == 'subroutines' and fi.name == 'flat':
            out = []

            def rec(x):
                for i in x:
                    if isinstance(i, (list, tuple)):
                        rec(i)
                    else:
                        out.append(i)
            rec(args[0])
            return out
        return self.call_func(fi, args, kwargs, owner=None)

    def marker_call(self, name, args, kwargs):
        if name == 'isinstance':
            return self.isinstance_(args[0], args[1])
        if name == 'abs':
            if isinstance(args[0], Obj):
                return self.call_method(args[0], '__abs__')
            return abs(args[0])
        if name in ('len',):
            if isinstance(args[0], (list, tuple, str)):
                return len(args[0])
            raise Unknown('len')
        if name in ('list', 'tuple'):
            if not args:
                return [] if name == 'list' else ()
            if isinstance(args[0], (list, tuple)):
                return list(args[0]) if name == 'list' else tuple(args[0])
            raise Unknown(name)
        if name == 'range':
            return list(range(*[int(a) for a in args]))
        if name in ('int', 'float'):
            return (int if name == 'int' else float)(args[0]) if isinstance(args[0], NUM) else args[0]
        if name == 'sum':
            tot = 0
            for v in args[0]:
                tot = self.binop(ast.Add(), tot, v)
            return tot
        if name in ('max', 'min'):
            vals = args[0] if len(args) == 1 else args
            return (max if name == 'max' else min)(vals)
        if name == 'np.sign':
            v = args[0]
            return (v > 0) - (v < 0) if isinstance(v, NUM) else Opaque('sign')
        if name in ('np.zeros', 'np.float64') and name == 'np.zeros':
            return 0.0
        if name == 'np.float64':
            return float(args[0])
        if name in ('np.ones', 'np.ones_like'):
            return 1.0
        if name == 'np.zeros_like':
            return 0.0
        if name in ('np.full', 'np.full_like') and len(args) >= 2 and isinstance(args[1], NUM):
            return float(args[1])          # np.full(shape, v): the scalar v on the 1x1 model
        if name in ('np.array', 'np.asarray'):
            v = args[0]
            if isinstance(v, (list, tuple)) and len(v) == 1:
                return v[0]
            return v
        if name == 'np.prod':
            v = args[0]
            if isinstance(v, (list, tuple)):
                p = 1
                for x in v:
                    p *= x
                return p
            return v
        if name in ('np.abs', 'np.absolute'):
            return abs(args[0])
        if name in ('sp.issparse',):
            return False
        if name in ('np.isnan',):
            return isinstance(args[0], float) and math.isnan(args[0])
        if name in ('np.tile', 'np.concatenate', 'np.arange', 'csr_matrix', 'lil_matrix', 'coo_matrix',
                    'np.broadcast', 'np.triu_indices', 'np.where', 'np.unique', 'np.tril', 'np.triu',
                    'np.diag', 'sp.vstack', 'sp.hstack', 'sqrtm', 'eigh', 'np.real', 'np.log2', 'np.ceil',
                    'warnings.warn', 'print', 'np.cumsum', 'np.argmax'):
            return Opaque(name)
        raise Unknown('call of %s' % name)


def _freeze(v):
    if isinstance(v, list):
        return tuple(_freeze(x) for x in v)
    if isinstance(v, tuple):
        return tuple(_freeze(x) for x in v)
    return v


def _load(target):
    t = ast.parse(ntext(target), mode='eval').body
    return t
