"""Source normalisation: one spelling for equivalent code, applied to every function before any
rule sees it (and again after helper inlining).

  N1  annotated assignment with a value        x: T = v                 ->  x = v
  N2  parallel assignment of displays          a, b = p, q              ->  a = p; b = q
      (only when no target of an earlier pair is read by a later value)
  N3  chained assignment of a simple value     a = b = v                ->  a = v; b = v
  N4  negated comparisons in tests             not (a is b)             ->  a is not b   (is/==/in)
                                               not not t                ->  t            (in tests)
  N5  pure aliases                             m = self.model ... m.x   ->  self.model.x
      (a local bound exactly once to a name / attribute / constant-subscript path whose
      attributes are not stored to anywhere in the function)
  N6  named conditions                         bad = <bool expr>; if bad:  ->  if <bool expr>:
      (a local bound exactly once to a comparison / boolean combination / isinstance / any / all,
      read only in tests, whose free names are not rebound in the function)
  N7  keyword arguments of resolvable callees (package classes and functions, a table of numpy
      helpers) moved to their positional slots where that leaves no gap.

Every rewrite is an equivalence of Python semantics under the stated side conditions; anything
that does not meet them is left as written.  The pinned tree is changed only by N5 (a handful of
`formula.x` aliases in the solver interfaces); rules are written against the normal form.
"""
import ast
import copy

NUMPY_SIGS = {
    'tile': ['A', 'reps'], 'repeat': ['a', 'repeats', 'axis'], 'zeros': ['shape', 'dtype'],
    'ones': ['shape', 'dtype'], 'full': ['shape', 'fill_value', 'dtype'], 'arange': None,
    'concatenate': ['arrays', 'axis'], 'hstack': ['tup'], 'vstack': ['tup'], 'minimum': ['x1', 'x2'],
    'maximum': ['x1', 'x2'], 'where': ['condition', 'x', 'y'], 'array': ['object', 'dtype'],
    'reshape': ['a', 'newshape'], 'append': ['arr', 'values', 'axis'],
}
FLIP = {ast.Is: ast.IsNot, ast.IsNot: ast.Is, ast.Eq: ast.NotEq, ast.NotEq: ast.Eq,
        ast.In: ast.NotIn, ast.NotIn: ast.In}


def _names(node, ctx=None):
    return {n.id for n in ast.walk(node) if isinstance(n, ast.Name) and (ctx is None or isinstance(n.ctx, ctx))}


def _walk_scope(fn):
    """nodes of the function's own scope (nested defs / lambdas excluded, comprehensions included)"""
    stack = list(fn.body)
    while stack:
        n = stack.pop()
        yield n
        if isinstance(n, (ast.FunctionDef, ast.AsyncFunctionDef, ast.ClassDef, ast.Lambda)):
            continue
        stack.extend(ast.iter_child_nodes(n))


def _is_path(e):
    """name / attribute / constant-subscript path:  self.model, self.vars[-1], sol['z'], sup.st"""
    if isinstance(e, ast.Name):
        return True
    if isinstance(e, ast.Call) and isinstance(e.func, ast.Name) and e.func.id == 'super' and not e.args and \
            not e.keywords:
        return True
    if isinstance(e, ast.Attribute):
        return _is_path(e.value)
    if isinstance(e, ast.Subscript):
        s = e.slice
        if isinstance(s, ast.UnaryOp) and isinstance(s.op, ast.USub):
            s = s.operand
        return isinstance(s, ast.Constant) and _is_path(e.value)
    return False


def _is_widthdiff(e):
    """A - B over paths / len(..) / constants: a named difference that tests compare with 0"""
    def atom(x):
        return _is_path(x) or isinstance(x, ast.Constant) or \
            (isinstance(x, ast.Call) and isinstance(x.func, ast.Name) and x.func.id == 'len' and len(x.args) == 1
             and _is_path(x.args[0]))
    return isinstance(e, ast.BinOp) and isinstance(e.op, ast.Sub) and atom(e.left) and atom(e.right)


def _is_boolish(e):
    if isinstance(e, ast.Compare) or _is_widthdiff(e):
        return True
    if isinstance(e, ast.BoolOp):
        return all(_is_boolish(v) for v in e.values)
    if isinstance(e, ast.UnaryOp) and isinstance(e.op, ast.Not):
        return True
    if isinstance(e, ast.Call):
        f = e.func
        if isinstance(f, ast.Name) and f.id in ('isinstance', 'any', 'all', 'callable', 'hasattr', 'issubclass'):
            return True
        if isinstance(f, ast.Attribute) and f.attr in ('any', 'all', 'issparse', 'isnan', 'isinf', 'isfinite'):
            return True
    return False


class _Stmts(ast.NodeTransformer):
    """N1-N3: statement-level splitting"""

    def __init__(self):
        self.changed = False

    def visit_FunctionDef(self, node):
        return node           # nested scopes are left alone

    visit_AsyncFunctionDef = visit_Lambda = visit_ClassDef = visit_FunctionDef

    list_names = frozenset()     # locals known to be python lists in this function
    empty_started = frozenset()  # those of them with an assignment `name = []`
    list_attrs = frozenset()     # attributes of self known to be python lists (set in __init__)

    def visit_AugAssign(self, node):
        # N9 for augmented assignments:  s += A if c else B  ->  if c: s += A  else: s += B
        if isinstance(node.value, ast.IfExp) and isinstance(node.target, ast.Name):
            r = self._split_ifexp(node, node.value, lambda v: ast.copy_location(
                ast.AugAssign(target=copy.deepcopy(node.target), op=node.op, value=v), node))
            if r is not None:
                return r
        return self._aug_list(node)

    def _aug_list(self, node):
        """N12  lst += [x]  ->  lst.append(x) ;  lst += [x, y]  ->  lst.extend([x, y])   (python lists only)"""
        t = node.target
        is_list = (isinstance(t, ast.Name) and t.id in self.list_names) or \
            (isinstance(t, ast.Attribute) and isinstance(t.value, ast.Name) and t.value.id == 'self'
             and t.attr in self.list_attrs)
        if is_list and isinstance(node.op, ast.Add) and isinstance(node.value, ast.List) and \
                not any(isinstance(e, ast.Starred) for e in node.value.elts) and node.value.elts:
            self.changed = True
            recv = copy.deepcopy(t)
            for x in ast.walk(recv):
                if hasattr(x, 'ctx'):
                    x.ctx = ast.Load()
            return self._appends(recv, node.value.elts, node)
        return node

    def _is_list_ref(self, t):
        return (isinstance(t, ast.Name) and t.id in self.list_names) or \
            (isinstance(t, ast.Attribute) and isinstance(t.value, ast.Name) and t.value.id == 'self'
             and t.attr in self.list_attrs)

    def _appends(self, recv, elts, node):
        out = []
        for e in elts:
            r = copy.deepcopy(recv)
            for x in ast.walk(r):
                if hasattr(x, 'ctx'):
                    x.ctx = ast.Load()
            call = ast.Call(func=ast.Attribute(value=r, attr='append', ctx=ast.Load()), args=[e], keywords=[])
            out.append(ast.copy_location(ast.Expr(value=call), node))
        return out

    def visit_Expr(self, node):
        v = node.value
        # lst.extend([a, b])  ->  lst.append(a); lst.append(b)
        if isinstance(v, ast.Call) and isinstance(v.func, ast.Attribute) and v.func.attr == 'extend' and \
                len(v.args) == 1 and isinstance(v.args[0], (ast.List, ast.Tuple)) and v.args[0].elts and \
                not any(isinstance(e, ast.Starred) for e in v.args[0].elts) and not v.keywords and \
                (self._is_list_ref(v.func.value) or isinstance(v.func.value, (ast.Name, ast.Attribute))):
            self.changed = True
            return self._appends(v.func.value, v.args[0].elts, node)
        # P and f(..)  as a statement  ->  if P: f(..)          (P or f(..)  ->  if not P: f(..))
        if isinstance(v, ast.BoolOp) and len(v.values) == 2 and isinstance(v.values[1], ast.Call):
            self.changed = True
            test = v.values[0] if isinstance(v.op, ast.And) else ast.UnaryOp(op=ast.Not(), operand=v.values[0])
            body = ast.copy_location(ast.Expr(value=v.values[1]), node)
            return ast.copy_location(ast.If(test=test, body=_flat([self.visit(body)]), orelse=[]), node)
        r = self._split_ifexp(node, node.value, lambda val: ast.copy_location(ast.Expr(value=val), node))
        return r if r is not None else node

    def visit_AnnAssign(self, node):
        if node.value is not None and node.simple and isinstance(node.target, ast.Name) or \
                (node.value is not None and isinstance(node.target, (ast.Attribute, ast.Subscript))):
            self.changed = True
            return ast.copy_location(ast.Assign(targets=[node.target], value=node.value), node)
        return node

    def _split_ifexp(self, node, value, rebuild):
        """N9  x = A if C else B  ->  if C: x = A  else: x = B   (also return / expression statements);
        x = P or B with P a plain path  ->  if P: x = P else: x = B"""
        if isinstance(value, ast.IfExp):
            test, a, b = value.test, value.body, value.orelse
        elif isinstance(value, ast.BoolOp) and isinstance(value.op, ast.Or) and len(value.values) == 2 and \
                _is_path(value.values[0]):
            test, a, b = copy.deepcopy(value.values[0]), value.values[0], value.values[1]
        else:
            # a conditional deeper in the expression, with nothing but plain paths evaluated before it:
            #   (A if c else B).reshape(s)  ->  A.reshape(s) if c else B.reshape(s) ;   f(p, A if c else B)
            h = _hoist_cond(value)
            if h is None:
                return None
            test, a, b = h
        self.changed = True
        t = rebuild(a)
        f = rebuild(b)
        new = ast.If(test=test, body=_flat([self.visit(t)]), orelse=_flat([self.visit(f)]))
        return ast.copy_location(new, node)

    def visit_Return(self, node):
        if node.value is not None:
            r = self._split_ifexp(node, node.value, lambda v: ast.copy_location(ast.Return(value=v), node))
            if r is not None:
                return r
        return node

    def visit_If(self, node):
        self.generic_visit(node)
        return node

    def visit_Assign(self, node):
        if len(node.targets) == 1:
            t, v = node.targets[0], node.value
            # lst = lst + [a, b]  (a python list held in a local / self attribute)  ->  appends
            if self._is_list_ref(t) and isinstance(v, ast.BinOp) and isinstance(v.op, ast.Add) and \
                    ast.unparse(v.left) == ast.unparse(t) and isinstance(v.right, ast.List) and v.right.elts and \
                    not any(isinstance(e, ast.Starred) for e in v.right.elts):
                self.changed = True
                return self._appends(t, v.right.elts, node)
            # lst = [a]  where lst is a local list that another statement starts empty (`lst = []`):
            # a fresh list with these elements  ->  lst = [] ; lst.append(a)   (one spelling of "a goes into lst")
            if isinstance(t, ast.Name) and t.id in self.list_names and t.id in self.empty_started and \
                    isinstance(v, ast.List) and 1 <= len(v.elts) <= 4 and \
                    not any(isinstance(e, ast.Starred) for e in v.elts):
                self.changed = True
                first = ast.copy_location(ast.Assign(targets=[t], value=ast.List(elts=[], ctx=ast.Load())), node)
                return [first] + self._appends(t, v.elts, node)
            # lst[len(lst):] = [a, b]  ->  appends
            if isinstance(t, ast.Subscript) and isinstance(t.slice, ast.Slice) and t.slice.upper is None and \
                    t.slice.step is None and isinstance(t.slice.lower, ast.Call) and \
                    ast.unparse(t.slice.lower) == 'len(%s)' % ast.unparse(t.value) and \
                    isinstance(v, (ast.List, ast.Tuple)) and v.elts and not any(isinstance(e, ast.Starred) for e in v.elts):
                self.changed = True
                return self._appends(t.value, v.elts, node)
            r = self._split_ifexp(node, node.value,
                                  lambda v: ast.copy_location(ast.Assign(targets=copy.deepcopy(node.targets), value=v), node))
            if r is not None:
                return r
        # N3b  a = self.x = E   ->   self.x = E ; a = self.x     (one evaluation of E; both names hold the object)
        if len(node.targets) == 2 and not isinstance(node.value, (ast.Name, ast.Constant)) and \
                not _is_path(node.value):
            names_ = [t for t in node.targets if isinstance(t, ast.Name)]
            paths_ = [t for t in node.targets if isinstance(t, ast.Attribute) and _is_path(t)]
            if len(names_) == 1 and len(paths_) == 1 and names_[0].id not in _names(node.value) and \
                    names_[0].id not in _names(paths_[0]):
                self.changed = True
                first = ast.copy_location(ast.Assign(targets=[paths_[0]], value=node.value), node)
                load = copy.deepcopy(paths_[0])
                for x in ast.walk(load):
                    if hasattr(x, 'ctx'):
                        x.ctx = ast.Load()
                second = ast.copy_location(ast.Assign(targets=[names_[0]], value=load), node)
                second.after_store = True
                return [first, second]
        # N3
        if len(node.targets) > 1 and isinstance(node.value, (ast.Name, ast.Constant)) or \
                (len(node.targets) > 1 and _is_path(node.value) and
                 not any(isinstance(t, (ast.Tuple, ast.List)) for t in node.targets)):
            self.changed = True
            out = []
            for t in node.targets:
                out.append(ast.copy_location(ast.Assign(targets=[t], value=copy.deepcopy(node.value)), node))
            res = []
            for o in out:
                r = self.visit_Assign(o)
                res.extend(r if isinstance(r, list) else [r])
            return res
        # N10  r, c = X.shape  ->  r = X.shape[0]; c = X.shape[1]
        if len(node.targets) == 1 and isinstance(node.targets[0], (ast.Tuple, ast.List)) and \
                isinstance(node.value, ast.Attribute) and node.value.attr == 'shape' and _is_path(node.value.value) \
                and all(isinstance(t, ast.Name) for t in node.targets[0].elts):
            self.changed = True
            out = []
            for i, t in enumerate(node.targets[0].elts):
                sub = ast.Subscript(value=copy.deepcopy(node.value), slice=ast.Constant(value=i), ctx=ast.Load())
                out.append(ast.copy_location(ast.Assign(targets=[t], value=sub), node))
            return out
        # a, b = pair   with  pair = (x, y)  a display of plain paths bound once, right before, and read only here
        if len(node.targets) == 1 and isinstance(node.targets[0], (ast.Tuple, ast.List)) and \
                isinstance(node.value, ast.Name) and node.value.id in getattr(self, 'tuple_temps', {}):
            disp = self.tuple_temps[node.value.id]
            if len(disp.elts) == len(node.targets[0].elts):
                node.value = copy.deepcopy(disp)
                self.changed = True
                return self.visit_Assign(node)
        # a starred display inside a display is its elements:  [], *([], [])  ->  [], [], []
        if isinstance(node.value, (ast.Tuple, ast.List)) and any(
                isinstance(e, ast.Starred) and isinstance(e.value, (ast.Tuple, ast.List)) for e in node.value.elts):
            flat = []
            for e in node.value.elts:
                if isinstance(e, ast.Starred) and isinstance(e.value, (ast.Tuple, ast.List)):
                    flat.extend(e.value.elts)
                else:
                    flat.append(e)
            node.value.elts = flat
            self.changed = True
            return self.visit_Assign(node)
        # N2
        if len(node.targets) == 1 and isinstance(node.targets[0], (ast.Tuple, ast.List)) and \
                isinstance(node.value, (ast.Tuple, ast.List)) and \
                len(node.targets[0].elts) == len(node.value.elts) and \
                not any(isinstance(x, ast.Starred) for x in node.targets[0].elts + node.value.elts):
            ts, vs = node.targets[0].elts, node.value.elts
            ok = True
            stored = set()
            for i, (t, v) in enumerate(zip(ts, vs)):
                if i and _names(v) & stored:
                    ok = False
                elif i and any(isinstance(x, ast.Attribute) for x in ast.walk(t)):
                    # a value that reads an attribute an earlier pair stored could see the new value -- unless that
                    # earlier pair stored this very attribute read (P.a = Q.a writes Q.a's own value even when P is Q)
                    for x in ast.walk(v):
                        if isinstance(x, ast.Attribute) and x.attr in _attrs_stored(ts[:i]):
                            for tj, vj in zip(ts[:i], vs[:i]):
                                if isinstance(tj, ast.Attribute) and tj.attr == x.attr and \
                                        ast.unparse(vj) != ast.unparse(x):
                                    ok = False
                                elif not isinstance(tj, (ast.Attribute, ast.Name)):
                                    ok = False
                stored |= _names(t)
            # a value that reads an attribute stored by an earlier pair would see the new value
            if ok:
                self.changed = True
                return [ast.copy_location(ast.Assign(targets=[t], value=v), node) for t, v in zip(ts, vs)]
        return node


def _hoist_cond(value, depth=0):
    """-> (test, value with the first arm, value with the second arm) for a conditional expression (or `P or B`
    with P a path) that is the first thing with an effect that `value` evaluates; None otherwise"""
    if depth > 3:
        return None

    def cond_of(e):
        if isinstance(e, ast.IfExp):
            return e.test, e.body, e.orelse
        if isinstance(e, ast.BoolOp) and isinstance(e.op, ast.Or) and len(e.values) == 2 and _is_path(e.values[0]):
            return copy.deepcopy(e.values[0]), e.values[0], e.values[1]
        return None

    def pure(e):
        return isinstance(e, ast.Constant) or _is_path(e) or \
            (isinstance(e, ast.UnaryOp) and pure(e.operand)) or \
            (isinstance(e, (ast.Tuple, ast.List)) and all(pure(x) for x in e.elts))

    def rebuild(parent, field, index, new):
        cp = copy.copy(parent)
        if index is None:
            setattr(cp, field, new)
        else:
            lst = list(getattr(parent, field))
            lst[index] = new
            setattr(cp, field, lst)
        return cp

    # the evaluation order of the direct sub-expressions
    slots = []
    if isinstance(value, ast.Call):
        if isinstance(value.func, ast.Attribute):
            slots.append((value.func, 'value', None, value.func.value, 'func'))
        elif not pure(value.func):
            return None
        for i, a_ in enumerate(value.args):
            slots.append((value, 'args', i, a_, None))
        for i, k_ in enumerate(value.keywords):
            slots.append((k_, 'value', None, k_.value, ('kw', i)))
    elif isinstance(value, ast.BinOp):
        slots = [(value, 'left', None, value.left, None), (value, 'right', None, value.right, None)]
    elif isinstance(value, ast.UnaryOp):
        slots = [(value, 'operand', None, value.operand, None)]
    elif isinstance(value, ast.Attribute):
        slots = [(value, 'value', None, value.value, None)]
    elif isinstance(value, ast.Subscript):
        slots = [(value, 'value', None, value.value, None)]
    else:
        return None
    for parent, field, index, sub, how in slots:
        if isinstance(sub, ast.Starred):
            return None
        c = cond_of(sub)
        inner = None if c is not None else _hoist_cond(sub, depth + 1)
        if c is None and inner is None:
            if pure(sub):
                continue
            return None             # something with a possible effect is evaluated first
        test, a, b = c if c is not None else inner
        outs = []
        for arm in (a, b):
            if how == 'func':
                f2 = copy.copy(value.func)
                f2.value = arm
                v2 = copy.copy(value)
                v2.func = f2
            elif isinstance(how, tuple):
                k2 = copy.copy(parent)
                k2.value = arm
                v2 = copy.copy(value)
                kws = list(value.keywords)
                kws[how[1]] = k2
                v2.keywords = kws
            else:
                v2 = rebuild(value, field, index, arm)
            outs.append(copy.deepcopy(v2))
        return test, outs[0], outs[1]
    return None


def _attrs_stored(targets):
    out = set()
    for t in targets:
        for x in ast.walk(t):
            if isinstance(x, ast.Attribute) and isinstance(x.ctx, ast.Store):
                out.add(x.attr)
    return out


class _Tests(ast.NodeTransformer):
    """N4 inside test positions"""

    def __init__(self):
        self.changed = False

    def visit_FunctionDef(self, node):
        return node

    visit_AsyncFunctionDef = visit_Lambda = visit_ClassDef = visit_FunctionDef

    def _test(self, t):
        # 0 == x / 'U' == b.btype / None is not x: the constant goes right (comparison mirrored for < >)
        if isinstance(t, ast.Compare) and len(t.ops) == 1 and isinstance(t.left, ast.Constant) and \
                not isinstance(t.comparators[0], ast.Constant):
            mir = {ast.Eq: ast.Eq, ast.NotEq: ast.NotEq, ast.Is: ast.Is, ast.IsNot: ast.IsNot, ast.Lt: ast.Gt,
                   ast.Gt: ast.Lt, ast.LtE: ast.GtE, ast.GtE: ast.LtE}.get(type(t.ops[0]))
            if mir is not None:
                self.changed = True
                return ast.copy_location(ast.Compare(left=t.comparators[0], ops=[mir()], comparators=[t.left]), t)
        # (a, b) != (c, d)  ->  a != c or b != d ;   (a, b) == (c, d)  ->  a == c and b == d
        if isinstance(t, ast.Compare) and len(t.ops) == 1 and isinstance(t.ops[0], (ast.Eq, ast.NotEq)) and \
                isinstance(t.left, ast.Tuple) and isinstance(t.comparators[0], ast.Tuple) and \
                len(t.left.elts) == len(t.comparators[0].elts) and 2 <= len(t.left.elts) <= 4 and \
                not any(isinstance(e, ast.Starred) for e in t.left.elts + t.comparators[0].elts):
            self.changed = True
            parts = [ast.Compare(left=a, ops=[type(t.ops[0])()], comparators=[b])
                     for a, b in zip(t.left.elts, t.comparators[0].elts)]
            op = ast.And() if isinstance(t.ops[0], ast.Eq) else ast.Or()
            return ast.copy_location(ast.BoolOp(op=op, values=[self._test(p_) for p_ in parts]), t)
        # A - B <op> 0  ->  A <op> B
        if isinstance(t, ast.Compare) and len(t.ops) == 1 and isinstance(t.left, ast.BinOp) and \
                isinstance(t.left.op, ast.Sub) and isinstance(t.comparators[0], ast.Constant) and \
                t.comparators[0].value == 0 and not isinstance(t.comparators[0].value, bool) and \
                isinstance(t.ops[0], (ast.Lt, ast.Gt, ast.LtE, ast.GtE, ast.Eq, ast.NotEq)):
            self.changed = True
            return ast.copy_location(ast.Compare(left=t.left.left, ops=t.ops, comparators=[t.left.right]), t)
        if isinstance(t, ast.UnaryOp) and isinstance(t.op, ast.Not):
            inner = t.operand
            if isinstance(inner, ast.UnaryOp) and isinstance(inner.op, ast.Not):
                self.changed = True
                return self._test(inner.operand)
            if isinstance(inner, ast.Compare) and len(inner.ops) == 1 and type(inner.ops[0]) in FLIP:
                self.changed = True
                new = ast.Compare(left=inner.left, ops=[FLIP[type(inner.ops[0])]()], comparators=inner.comparators)
                return ast.copy_location(new, t)
            t.operand = self._test(inner) if isinstance(inner, ast.BoolOp) else inner
            return t
        if isinstance(t, ast.BoolOp):
            t.values = [self._test(v) for v in t.values]
        return t

    def visit_If(self, node):
        self.generic_visit(node)
        node.test = self._test(node.test)
        # if not C: A else: B   ->   if C: B else: A      (both arms present: one polarity for every rule)
        if isinstance(node, ast.If) and node.orelse and isinstance(node.test, ast.UnaryOp) and \
                isinstance(node.test.op, ast.Not):
            self.changed = True
            node.test = node.test.operand
            node.body, node.orelse = node.orelse, node.body
        return node

    visit_While = visit_If

    def visit_IfExp(self, node):
        self.generic_visit(node)
        node.test = self._test(node.test)
        return node

    def visit_Assert(self, node):
        self.generic_visit(node)
        node.test = self._test(node.test)
        return node


class _Subst(ast.NodeTransformer):
    def __init__(self, table, only_tests=False):
        self.table = table
        self.changed = False

    def visit_FunctionDef(self, node):
        return node

    visit_AsyncFunctionDef = visit_Lambda = visit_ClassDef = visit_FunctionDef

    def visit_Name(self, node):
        if isinstance(node.ctx, ast.Load) and node.id in self.table:
            self.changed = True
            return ast.copy_location(copy.deepcopy(self.table[node.id]), node)
        return node


def _binding_counts(fn):
    counts = {}
    simple = {}

    def bump(name, k=2):
        counts[name] = counts.get(name, 0) + k
    for a in fn.args.posonlyargs + fn.args.args + fn.args.kwonlyargs:
        bump(a.arg)
    if fn.args.vararg:
        bump(fn.args.vararg.arg)
    if fn.args.kwarg:
        bump(fn.args.kwarg.arg)
    for n in _walk_scope(fn):
        if isinstance(n, ast.Assign):
            for t in n.targets:
                if isinstance(t, ast.Name) and len(n.targets) == 1:
                    bump(t.id, 1)
                    simple.setdefault(t.id, []).append(n)
                else:
                    for x in ast.walk(t):
                        if isinstance(x, ast.Name) and isinstance(x.ctx, ast.Store):
                            bump(x.id)
        elif isinstance(n, (ast.AugAssign, ast.AnnAssign)):
            if isinstance(n.target, ast.Name):
                bump(n.target.id)
        elif isinstance(n, (ast.For, ast.AsyncFor, ast.comprehension)):
            for x in ast.walk(n.target):
                if isinstance(x, ast.Name) and isinstance(x.ctx, ast.Store):
                    bump(x.id)
        elif isinstance(n, ast.withitem) and n.optional_vars is not None:
            for x in ast.walk(n.optional_vars):
                if isinstance(x, ast.Name):
                    bump(x.id)
        elif isinstance(n, ast.NamedExpr):
            bump(n.target.id)
        elif isinstance(n, (ast.Global, ast.Nonlocal)):
            for nm in n.names:
                bump(nm)
        elif isinstance(n, ast.ExceptHandler) and n.name:
            bump(n.name)
        elif isinstance(n, ast.Delete):
            for x in ast.walk(n):
                if isinstance(x, ast.Name):
                    bump(x.id)
        elif isinstance(n, (ast.Import, ast.ImportFrom)):
            for a in n.names:
                bump((a.asname or a.name).split('.')[0])
    single = {k: simple[k][0] for k, c in counts.items() if c == 1 and k in simple}
    return counts, single


def _attrs_written(fn):
    out = set()
    for n in _walk_scope(fn):
        if isinstance(n, ast.Attribute) and isinstance(n.ctx, (ast.Store, ast.Del)):
            out.add(n.attr)
        elif isinstance(n, ast.AugAssign) and isinstance(n.target, ast.Attribute):
            out.add(n.target.attr)
        elif isinstance(n, ast.Call) and isinstance(n.func, ast.Name) and n.func.id in ('setattr', 'delattr'):
            out.add('*')
    return out


def _dominates_uses(fn, assign, name):
    """every read of `name` lies in a statement that follows the (single) definition inside the
    definition's own block, at any nesting depth -- so the definition has always been executed, in
    the same iteration, when the name is read"""
    found = []

    def find(stmts):
        for i, s in enumerate(stmts):
            if s is assign:
                found.append((stmts, i))
                return
            if isinstance(s, (ast.FunctionDef, ast.AsyncFunctionDef, ast.ClassDef)):
                continue
            for fld in ('body', 'orelse', 'finalbody'):
                sub = getattr(s, fld, None)
                if isinstance(sub, list):
                    find(sub)
            for h in getattr(s, 'handlers', []):
                find(h.body)
    find(fn.body)
    if not found:
        return False
    block, i = found[0]
    total = sum(1 for n in ast.walk(fn) if isinstance(n, ast.Name) and n.id == name and isinstance(n.ctx, ast.Load))
    later = sum(1 for s in block[i + 1:] for n in ast.walk(s)
                if isinstance(n, ast.Name) and n.id == name and isinstance(n.ctx, ast.Load))
    return total == later and total > 0


def _writes_all_before(fn, assign, attrs):
    """every store to one of `attrs` in fn lies textually before the alias definition, which is not
    inside a loop (so no store can run between the definition and a later use)"""
    if _in_loop(fn, assign):
        return False
    order = {}

    def rec(n):
        order[id(n)] = len(order)
        for c in ast.iter_child_nodes(n):
            rec(c)
    rec(fn)
    pos = order.get(id(assign))
    if pos is None:
        return False
    for n in _walk_scope(fn):
        tgt = None
        if isinstance(n, ast.Attribute) and isinstance(n.ctx, (ast.Store, ast.Del)) and n.attr in attrs:
            tgt = n
        elif isinstance(n, ast.AugAssign) and isinstance(n.target, ast.Attribute) and n.target.attr in attrs:
            tgt = n.target
        if tgt is not None and not (order.get(id(tgt), 10 ** 9) < pos):
            return False
    return True


def _bound_by_enclosing_loop(fn, name, assign):
    """`assign` lies in the body of a for loop whose target binds `name`"""
    for n in _walk_scope(fn):
        if isinstance(n, ast.For) and name in _names(n.target) and \
                any(x is assign for b in n.body for x in ast.walk(b)):
            return True
    return False


def _only_loop_bound(fn, name):
    """every binding of `name` in the function is a for / comprehension target (never a parameter,
    an assignment, an import ...)"""
    if name in _params(fn):
        return False
    for n in _walk_scope(fn):
        if isinstance(n, ast.Name) and n.id == name and isinstance(n.ctx, (ast.Store, ast.Del)):
            pass
    loop_ids = set()
    for n in _walk_scope(fn):
        if isinstance(n, (ast.For, ast.AsyncFor, ast.comprehension)):
            for x in ast.walk(n.target):
                if isinstance(x, ast.Name) and x.id == name:
                    loop_ids.add(id(x))
    for n in _walk_scope(fn):
        if isinstance(n, ast.Name) and n.id == name and isinstance(n.ctx, (ast.Store, ast.Del)) and id(n) not in loop_ids:
            return False
        if isinstance(n, (ast.Global, ast.Nonlocal)) and name in n.names:
            return False
    return bool(loop_ids)


def _in_loop(fn, assign):
    for n in _walk_scope(fn):
        if isinstance(n, (ast.For, ast.While, ast.AsyncFor)):
            for x in ast.walk(n):
                if x is assign:
                    return True
    return False


def _list_locals(fn):
    """locals every plain assignment of which is a list display / list(..) / list comprehension"""
    vals = {}
    for n in _walk_scope(fn):
        if isinstance(n, ast.Assign):
            for t in n.targets:
                if isinstance(t, ast.Name):
                    vals.setdefault(t.id, []).append(n.value)
                else:
                    for x in ast.walk(t):
                        if isinstance(x, ast.Name) and isinstance(x.ctx, ast.Store):
                            vals.setdefault(x.id, []).append(None)
        elif isinstance(n, (ast.For, ast.comprehension)):
            for x in ast.walk(n.target):
                if isinstance(x, ast.Name):
                    vals.setdefault(x.id, []).append(None)

    def listy(v, k=None):
        if isinstance(v, (ast.List, ast.ListComp)):
            return True
        if isinstance(v, ast.Call) and isinstance(v.func, ast.Name) and v.func.id in ('list', 'sorted', 'flat'):
            return True
        # k = k + [..]: stays a list if it was one
        return k is not None and isinstance(v, ast.BinOp) and isinstance(v.op, ast.Add) and \
            isinstance(v.left, ast.Name) and v.left.id == k and isinstance(v.right, (ast.List, ast.ListComp))
    return frozenset(k for k, vs in vals.items() if vs and all(v is not None and listy(v, k) for v in vs)
                     and any(listy(v) for v in vs) and k not in _params(fn))


def normalize_function(fn, resolver=None, list_attrs=frozenset(), consts=None, class_consts=None):
    """-> (new FunctionDef, changed)"""
    new = copy.deepcopy(fn)
    changed = False
    # N1-N3
    st = _Stmts()
    st.list_names = _list_locals(new)
    # tuple temporaries:  duals = a.pi, b.pi   immediately followed by   x, y = duals   (single use)
    st.tuple_temps = {}
    for blk_owner in _walk_scope(new):
        for fld in ('body', 'orelse', 'finalbody'):
            blk = getattr(blk_owner, fld, None)
            if not isinstance(blk, list):
                continue
            for s1_, s2_ in zip(blk, blk[1:]):
                if isinstance(s1_, ast.Assign) and len(s1_.targets) == 1 and isinstance(s1_.targets[0], ast.Name) and \
                        isinstance(s1_.value, ast.Tuple) and all(_is_path(e) for e in s1_.value.elts) and \
                        isinstance(s2_, ast.Assign) and isinstance(s2_.value, ast.Name) and \
                        s2_.value.id == s1_.targets[0].id:
                    nm = s1_.targets[0].id
                    uses = sum(1 for n in _walk_scope(new) if isinstance(n, ast.Name) and n.id == nm)
                    if uses == 2:
                        st.tuple_temps[nm] = s1_.value
    for blk in [new.body]:
        for s1_, s2_ in zip(blk, blk[1:]):
            if isinstance(s1_, ast.Assign) and len(s1_.targets) == 1 and isinstance(s1_.targets[0], ast.Name) and \
                    isinstance(s1_.value, ast.Tuple) and all(_is_path(e) for e in s1_.value.elts) and \
                    isinstance(s2_, ast.Assign) and isinstance(s2_.value, ast.Name) and s2_.value.id == s1_.targets[0].id:
                nm = s1_.targets[0].id
                if sum(1 for n in _walk_scope(new) if isinstance(n, ast.Name) and n.id == nm) == 2:
                    st.tuple_temps[nm] = s1_.value
    st.empty_started = frozenset(
        n.targets[0].id for n in _walk_scope(new)
        if isinstance(n, ast.Assign) and len(n.targets) == 1 and isinstance(n.targets[0], ast.Name) and
        isinstance(n.value, ast.List) and not n.value.elts)
    st.list_attrs = list_attrs
    new.body = _flat([st.visit(s) for s in new.body])
    changed |= st.changed
    # N4
    tt = _Tests()
    new.body = _flat([tt.visit(s) for s in new.body])
    changed |= tt.changed
    changed |= _walrus(new)
    # N5 / N6 (iterate: an alias of an alias)
    for _round in range(4):
        counts, single = _binding_counts(new)
        written = _attrs_written(new)
        comp_targets = set()
        for n in _walk_scope(new):
            if isinstance(n, ast.comprehension):
                comp_targets |= _names(n.target)
        table = {}
        # a name that a nested function / lambda reads keeps its definition (the substitution does not enter nested scopes)
        nested_names = set()
        for n in ast.walk(new):
            if n is not new and isinstance(n, (ast.FunctionDef, ast.AsyncFunctionDef, ast.Lambda, ast.ClassDef)):
                nested_names |= {x.id for x in ast.walk(n) if isinstance(x, ast.Name)}
        for name, asg in single.items():
            if name in comp_targets or name == 'self' or name in nested_names:
                continue
            v = asg.value
            vc = v.operand if isinstance(v, ast.UnaryOp) and isinstance(v.op, ast.USub) else v
            if isinstance(vc, ast.Constant) and (vc.value is None or isinstance(vc.value, (bool, int, float, str))) \
                    and vc.value is not Ellipsis:
                # a local name for a constant
                if _dominates_uses(new, asg, name):
                    table[name] = v          # (also inside a loop: a constant is the same in every iteration)
                continue
            if not _is_path(v) or (isinstance(v, ast.Name) and v.id == name):
                continue
            # attributes along the path must not be written in this function
            attrs = {x.attr for x in ast.walk(v) if isinstance(x, ast.Attribute)}
            if '*' in written:
                continue
            if attrs & written and not _writes_all_before(new, asg, attrs & written):
                continue
            params = _params(new)
            ok = True
            for r in _names(v):
                c = counts.get(r, 0)
                if c == 0:
                    continue                      # a global / builtin name that the function never binds
                if r in params and c == 2:
                    continue                      # a parameter that is never rebound
                if c == 1 and r in single and r != name:
                    continue                      # a local bound exactly once
                if _only_loop_bound(new, r) and _bound_by_enclosing_loop(new, r, asg):
                    continue                      # the loop variable of a loop around the definition
                if r != name and not _in_loop(new, asg) and _dominates_uses(new, asg, name) and \
                        not _rebound_between(new, asg, name, {r}):
                    continue                      # bound several times, but not between this definition and its uses
                ok = False
            if not ok:
                continue
            if any(isinstance(x, ast.Subscript) for x in ast.walk(v)) and _container_mutated(new, v):
                continue
            if not _dominates_uses(new, asg, name):
                continue
            table[name] = v
        if not table:
            break
        # aliases that are themselves targets of stores through subscripts stay valid (same object)
        sb = _Subst(table)
        new.body = _flat([sb.visit(s) for s in new.body])
        # drop the now-unused definitions
        new.body = _drop_defs(new.body, {id(single[k]) for k in table})
        changed = True
    # N17, N15 / N16
    changed |= _fold_extends(new, st.list_names)
    changed |= _field_readback(new)
    changed |= _paired_temps(new)
    changed |= _sink_consumer(new)
    ch15 = _return_temps(new)
    changed |= ch15
    ex = _Exprs(consts, class_consts)
    new.body = _flat([ex.visit(s_) for s_ in new.body])
    changed |= ex.changed
    # N6
    counts, single = _binding_counts(new)
    table = {}
    nested_names = set()
    for n in ast.walk(new):
        if n is not new and isinstance(n, (ast.FunctionDef, ast.AsyncFunctionDef, ast.Lambda, ast.ClassDef)):
            nested_names |= {x.id for x in ast.walk(n) if isinstance(x, ast.Name)}
    for name, asg in single.items():
        v = asg.value
        if not _is_boolish(v) or name in nested_names:
            continue
        free = _names(v)
        if _rebound_between(new, asg, name, free):
            continue
        if _calls_between_may_change(new, asg, name):
            continue
        if not _only_in_tests(new, name) or not _dominates_uses(new, asg, name):
            continue
        table[name] = v
    if table:
        sb = _Subst(table)
        new.body = _flat([sb.visit(s) for s in new.body])
        new.body = _drop_defs(new.body, {id(single[k]) for k in table})
        tt = _Tests()
        new.body = _flat([tt.visit(s) for s in new.body])
        changed = True
    # N7
    if resolver is not None:
        kw = _Keywords(resolver)
        new.body = _flat([kw.visit(s) for s in new.body])
        changed |= kw.changed
    if changed:
        ast.fix_missing_locations(new)
        return new, True
    return fn, False


def _walrus(fn):
    """N19  if (x := E) <cmp> ..:   ->   x = E; if x <cmp> ..:   (the walrus is the first thing the test evaluates)"""
    changed = [False]

    def first_eval(t):
        # the sub-expression evaluated first, unconditionally
        while True:
            if isinstance(t, ast.BoolOp):
                t = t.values[0]
            elif isinstance(t, ast.UnaryOp):
                t = t.operand
            elif isinstance(t, ast.Compare):
                t = t.left
            else:
                return t

    def block(stmts):
        i = 0
        while i < len(stmts):
            s_ = stmts[i]
            if isinstance(s_, ast.If):
                fe = first_eval(s_.test)
                if isinstance(fe, ast.NamedExpr):
                    asg = ast.copy_location(ast.Assign(targets=[ast.Name(id=fe.target.id, ctx=ast.Store())],
                                                       value=fe.value), s_)

                    class _R(ast.NodeTransformer):
                        def visit_NamedExpr(self, node):
                            if node is fe:
                                return ast.copy_location(ast.Name(id=fe.target.id, ctx=ast.Load()), node)
                            return node
                    s_.test = _R().visit(s_.test)
                    stmts.insert(i, asg)
                    changed[0] = True
                    i += 1
            for fld in ('body', 'orelse', 'finalbody'):
                sub = getattr(s_, fld, None)
                if isinstance(sub, list) and not isinstance(s_, (ast.FunctionDef, ast.AsyncFunctionDef, ast.ClassDef)):
                    block(sub)
            for h in getattr(s_, 'handlers', []):
                block(h.body)
            i += 1
    block(fn.body)
    return changed[0]


def _paired_temps(fn):
    """N17  a temporary whose every read sits in the statement right after one of its (plain) definitions
    --  t = E1; use(t) ... t = E2; use(t)  -- is folded into those statements (also when the name is
    re-used in several branches)."""
    changed = [False]
    params = _params(fn)
    cands = {}
    for n in _walk_scope(fn):
        if isinstance(n, ast.Name):
            cands.setdefault(n.id, [0, 0])
            cands[n.id][0 if isinstance(n.ctx, ast.Load) else 1] += 1
    pairs = {}      # name -> [(block, index)]
    bad = set()

    def simple_stmt(s_):
        return isinstance(s_, (ast.Assign, ast.AugAssign, ast.Expr, ast.Return)) or \
            (isinstance(s_, ast.If) and True)

    def loads_in(node, name):
        return [x for x in ast.walk(node) if isinstance(x, ast.Name) and x.id == name and isinstance(x.ctx, ast.Load)]

    def block(stmts):
        for i, s_ in enumerate(stmts):
            if isinstance(s_, ast.Assign) and len(s_.targets) == 1 and isinstance(s_.targets[0], ast.Name):
                t = s_.targets[0].id
                if i + 1 < len(stmts):
                    nxt = stmts[i + 1]
                    # the next statement's own expressions (for an If: its test only)
                    parts = [nxt.test] if isinstance(nxt, (ast.If, ast.While)) else \
                        [nxt] if isinstance(nxt, (ast.Assign, ast.AugAssign, ast.Expr, ast.Return)) else []
                    ls = [x for p_ in parts for x in loads_in(p_, t)]
                    inner = [x for p_ in parts for c in ast.walk(p_)
                             if isinstance(c, (ast.Lambda, ast.ListComp, ast.GeneratorExp, ast.SetComp, ast.DictComp))
                             for x in loads_in(c, t)]
                    if len(ls) == 1 and not inner and not loads_in(s_.value, t):
                        pairs.setdefault(t, []).append((stmts, i, ls[0]))
                        continue
                bad.add(t)
            for fld in ('body', 'orelse', 'finalbody'):
                sub = getattr(s_, fld, None)
                if isinstance(sub, list) and not isinstance(s_, (ast.FunctionDef, ast.AsyncFunctionDef, ast.ClassDef)):
                    block(sub)
            for h in getattr(s_, 'handlers', []):
                block(h.body)
    block(fn.body)
    for t, lst in pairs.items():
        if t in bad or t in params or len(lst) < 2:
            continue                       # single definitions are N5 / N15 / expand_locals territory
        loads, stores = cands.get(t, [0, 0])
        if loads != len(lst) or stores != len(lst):
            continue                       # some other read or binding of the name exists
        for stmts, i, use in lst:
            pass
        # substitute (from the back so that indices stay valid per block)
        todo = [(stmts, stmts[i], use) for stmts, i, use in lst]
        for stmts, asg, use in todo:
            where = [k for k, x in enumerate(stmts) if x is asg]
            if not where or where[0] + 1 >= len(stmts) or \
                    not any(x is use for x in ast.walk(stmts[where[0] + 1])):
                continue

            class _S(ast.NodeTransformer):
                def visit_Name(self, node):
                    if node is use:
                        return ast.copy_location(copy.deepcopy(asg.value), node)
                    return node
            stmts[where[0] + 1] = _S().visit(stmts[where[0] + 1])
            del stmts[where[0]]
            changed[0] = True
    return changed[0]


def _sink_consumer(fn):
    """N24  if c: ..; t = A  else: ..; t = B        if c: ..; if A == -1: raise     (t read nowhere else: the one
            if t == -1: raise                  ->   else: ..; if B == -1: raise      statement that reads it is
                                                                                     duplicated into the arms)"""
    changed = [False]
    params = _params(fn)

    def count(name, ctx):
        return sum(1 for n in _walk_scope(fn) if isinstance(n, ast.Name) and n.id == name and isinstance(n.ctx, ctx))

    def last_def(stmts):
        if stmts and isinstance(stmts[-1], ast.Assign) and len(stmts[-1].targets) == 1 and \
                isinstance(stmts[-1].targets[0], ast.Name):
            return stmts[-1].targets[0].id
        return None

    def block(stmts):
        i = 0
        while i + 1 < len(stmts):
            s1, s2 = stmts[i], stmts[i + 1]
            if isinstance(s1, ast.If) and s1.orelse and last_def(s1.body) is not None and \
                    last_def(s1.body) == last_def(s1.orelse):
                t = last_def(s1.body)
                part = s2.test if isinstance(s2, ast.If) else s2 if isinstance(s2, (ast.Assign, ast.Expr, ast.Return)) \
                    else None
                small = isinstance(s2, (ast.Assign, ast.Expr, ast.Return)) or \
                    (isinstance(s2, ast.If) and not s2.orelse and len(s2.body) == 1 and isinstance(s2.body[0], ast.Raise))
                if part is not None and small and t not in params and count(t, ast.Store) == 2 and \
                        count(t, ast.Load) == 1 and \
                        sum(1 for n in ast.walk(part) if isinstance(n, ast.Name) and n.id == t) == 1 and \
                        not any(isinstance(n, (ast.Lambda, ast.ListComp, ast.GeneratorExp, ast.SetComp, ast.DictComp))
                                for n in ast.walk(part)) and \
                        ((_pure_value(s1.body[-1].value) and _pure_value(s1.orelse[-1].value)) or
                         (isinstance(s2, (ast.Assign, ast.Return)) and isinstance(s2.value, ast.Name) and
                          s2.value.id == t)):
                    for arm in (s1.body, s1.orelse):
                        val = arm[-1].value
                        cons = _Subst({t: val}).visit(copy.deepcopy(s2))
                        arm[-1:] = [cons]
                    del stmts[i + 1]
                    changed[0] = True
                    continue
            i += 1
        for s_ in stmts:
            if isinstance(s_, (ast.FunctionDef, ast.AsyncFunctionDef, ast.ClassDef)):
                continue
            for fld in ('body', 'orelse', 'finalbody'):
                sub = getattr(s_, fld, None)
                if isinstance(sub, list):
                    block(sub)
            for h in getattr(s_, 'handlers', []):
                block(h.body)
    block(fn.body)
    return changed[0]


def _pure_value(e):
    """a value whose evaluation can be moved past nothing at all: constants and attribute paths"""
    if isinstance(e, ast.UnaryOp) and isinstance(e.op, ast.USub):
        e = e.operand
    return isinstance(e, ast.Constant) or _is_path(e)


def _fold_extends(fn, list_names):
    """N26  x = list(A); x.extend(B)   ->   x = list(A) + list(B)      (x a local python list, B a plain path)"""
    changed = [False]

    def block(stmts):
        i = 0
        while i + 1 < len(stmts):
            s1, s2 = stmts[i], stmts[i + 1]
            if isinstance(s1, ast.Assign) and len(s1.targets) == 1 and isinstance(s1.targets[0], ast.Name) and \
                    s1.targets[0].id in list_names and isinstance(s2, ast.Expr) and isinstance(s2.value, ast.Call) and \
                    isinstance(s2.value.func, ast.Attribute) and s2.value.func.attr == 'extend' and \
                    isinstance(s2.value.func.value, ast.Name) and s2.value.func.value.id == s1.targets[0].id and \
                    len(s2.value.args) == 1 and not s2.value.keywords and _is_path(s2.value.args[0]) and \
                    not (isinstance(s1.value, ast.List) and not s1.value.elts):
                more = ast.Call(func=ast.Name(id='list', ctx=ast.Load()), args=[s2.value.args[0]], keywords=[])
                s1.value = ast.BinOp(left=s1.value, op=ast.Add(), right=more)
                del stmts[i + 1]
                changed[0] = True
                continue
            i += 1
        for s_ in stmts:
            if isinstance(s_, (ast.FunctionDef, ast.AsyncFunctionDef, ast.ClassDef)):
                continue
            for fld in ('body', 'orelse', 'finalbody'):
                sub = getattr(s_, fld, None)
                if isinstance(sub, list):
                    block(sub)
            for h in getattr(s_, 'handlers', []):
                block(h.body)
    block(fn.body)
    return changed[0]


def _field_readback(fn):
    """N25  self.f = p ... self.f   ->  ... p      in the straight-line top level of a method, where p is a
    parameter that is never rebound (the constructor idiom  self.shape = self.const.shape)"""
    a = fn.args.posonlyargs + fn.args.args
    if not a or a[0].arg != 'self':
        return False
    counts, _single = _binding_counts(fn)
    params = {x.arg for x in a[1:] + fn.args.kwonlyargs if counts.get(x.arg) == 2}
    if not params:
        return False
    known = {}
    changed = [False]

    class _R(ast.NodeTransformer):
        def visit_FunctionDef(self, node):
            return node
        visit_AsyncFunctionDef = visit_Lambda = visit_ClassDef = visit_FunctionDef

        def visit_Attribute(self, node):
            if isinstance(node.ctx, ast.Load) and isinstance(node.value, ast.Name) and node.value.id == 'self' and \
                    node.attr in known:
                changed[0] = True
                return ast.copy_location(ast.Name(id=known[node.attr], ctx=ast.Load()), node)
            self.generic_visit(node)
            return node

    for i, st in enumerate(fn.body):
        stored = {n.attr for n in ast.walk(st) if isinstance(n, ast.Attribute) and isinstance(n.ctx, (ast.Store, ast.Del))
                  and isinstance(n.value, ast.Name) and n.value.id == 'self'}
        if isinstance(st, ast.Assign) and len(st.targets) == 1:
            st.value = _R().visit(st.value)
            t = st.targets[0]
            if isinstance(t, ast.Attribute) and isinstance(t.value, ast.Name) and t.value.id == 'self':
                if isinstance(st.value, ast.Name) and st.value.id in params:
                    known[t.attr] = st.value.id
                else:
                    known.pop(t.attr, None)
                continue
        elif isinstance(st, (ast.Expr, ast.Return)) and not stored:
            fn.body[i] = _R().visit(st)
            continue
        # anything else: forget what it may store, and everything if it may call back into the object
        for k in stored:
            known.pop(k, None)
        if not isinstance(st, (ast.Assign, ast.AugAssign, ast.Expr, ast.Pass)):
            known.clear()
    return changed[0]


def _return_temps(fn):
    """N15  t = E; return f(t)            ->  return f(E)          (t read nowhere else)
       N16  if c: t = A else: t = B; return t  ->  if c: return A else: return B   (likewise)"""
    changed = [False]

    def loads(name):
        return sum(1 for n in _walk_scope(fn) if isinstance(n, ast.Name) and n.id == name and isinstance(n.ctx, ast.Load))

    def stores(name):
        return sum(1 for n in _walk_scope(fn) if isinstance(n, ast.Name) and n.id == name and
                   isinstance(n.ctx, (ast.Store, ast.Del)))

    def sink(stmts, name, wrap=None):
        """replace the trailing `name = V` of every path through stmts by `return V` (`return wrap[V]`);
        None if impossible"""
        if not stmts:
            return None
        last = stmts[-1]
        if isinstance(last, ast.Assign) and len(last.targets) == 1 and isinstance(last.targets[0], ast.Name) and \
                last.targets[0].id == name:
            val = last.value if wrap is None else _Subst({name: last.value}).visit(copy.deepcopy(wrap))
            return stmts[:-1] + [ast.copy_location(ast.Return(value=val), last)]
        if isinstance(last, ast.If) and last.orelse:
            a, b = sink(last.body, name, wrap), sink(last.orelse, name, wrap)
            if a is None or b is None:
                return None
            return stmts[:-1] + [ast.copy_location(ast.If(test=last.test, body=a, orelse=b), last)]
        if isinstance(last, (ast.Raise, ast.Return)):
            return stmts            # this path never reaches the statement that reads the temporary
        return None

    def block(stmts):
        i = 0
        while i + 1 < len(stmts):
            s1, s2 = stmts[i], stmts[i + 1]
            # N15b  t = E; P = t   ->  P = E      (t read nowhere else)
            if isinstance(s1, ast.Assign) and len(s1.targets) == 1 and isinstance(s1.targets[0], ast.Name) and \
                    isinstance(s2, ast.Assign) and len(s2.targets) == 1 and isinstance(s2.value, ast.Name) and \
                    s2.value.id == s1.targets[0].id and isinstance(s2.targets[0], (ast.Attribute, ast.Name)) and \
                    not isinstance(s1.value, (ast.Name, ast.Constant)):
                t = s1.targets[0].id
                if loads(t) == 1 and stores(t) == 1 and t not in _params(fn):
                    s2.value = s1.value
                    del stmts[i]
                    changed[0] = True
                    continue
            if isinstance(s2, ast.Return) and s2.value is not None:
                # N15
                if isinstance(s1, ast.Assign) and len(s1.targets) == 1 and isinstance(s1.targets[0], ast.Name):
                    t = s1.targets[0].id
                    uses = [n for n in ast.walk(s2.value) if isinstance(n, ast.Name) and n.id == t]
                    if len(uses) == 1 and loads(t) == 1 and stores(t) == 1 and \
                            not any(isinstance(x, (ast.Lambda, ast.ListComp, ast.GeneratorExp, ast.SetComp, ast.DictComp))
                                    for x in ast.walk(s2.value)):
                        s2.value = _Subst({t: s1.value}).visit(s2.value)
                        del stmts[i]
                        changed[0] = True
                        continue
                # N16b  if c: t = A  elif d: t = B  else: raise ..;  return t + k   ->  return A + k / return B + k
                if isinstance(s1, ast.If) and not isinstance(s2.value, ast.Name):
                    ts = [n.id for n in ast.walk(s2.value) if isinstance(n, ast.Name)]
                    stored_in_s1 = {n.id for n in ast.walk(s1) if isinstance(n, ast.Name) and isinstance(n.ctx, ast.Store)}
                    cand = [t for t in set(ts) if t in stored_in_s1]
                    def _arm_values(stmts_, t_):
                        out_ = []
                        for x_ in ast.walk(ast.Module(body=stmts_, type_ignores=[])):
                            if isinstance(x_, ast.Assign) and len(x_.targets) == 1 and \
                                    isinstance(x_.targets[0], ast.Name) and x_.targets[0].id == t_:
                                out_.append(x_.value)
                        return out_
                    has_call = any(isinstance(x, ast.Call) for x in ast.walk(s2.value))
                    if len(cand) == 1 and ts.count(cand[0]) == 1 and loads(cand[0]) == 1 and cand[0] not in _params(fn) \
                            and not any(isinstance(x, (ast.Lambda, ast.ListComp, ast.GeneratorExp, ast.SetComp,
                                                       ast.DictComp)) for x in ast.walk(s2.value)) \
                            and (not has_call or all(_pure_value(v_) for v_ in _arm_values([s1], cand[0]))):
                        t = cand[0]
                        new_if = sink([s1], t, s2.value)
                        n_store = sum(1 for n in ast.walk(s1) if isinstance(n, ast.Name) and n.id == t and
                                      isinstance(n.ctx, ast.Store))
                        if new_if is not None and stores(t) == n_store:
                            stmts[i:i + 2] = new_if
                            changed[0] = True
                            continue
                # N16
                if isinstance(s2.value, ast.Name) and isinstance(s1, ast.If):
                    t = s2.value.id
                    if loads(t) == 1 and t not in _params(fn):
                        new_if = sink([s1], t)
                        n_store = sum(1 for n in ast.walk(s1) if isinstance(n, ast.Name) and n.id == t and
                                      isinstance(n.ctx, ast.Store))
                        if new_if is not None and stores(t) == n_store:
                            stmts[i:i + 2] = new_if
                            changed[0] = True
                            continue
            i += 1
        for s_ in stmts:
            if isinstance(s_, (ast.FunctionDef, ast.AsyncFunctionDef, ast.ClassDef)):
                continue
            for fld in ('body', 'orelse', 'finalbody'):
                sub = getattr(s_, fld, None)
                if isinstance(sub, list):
                    block(sub)
            for h in getattr(s_, 'handlers', []):
                block(h.body)
    block(fn.body)
    return changed[0]


def _params(fn):
    return {a.arg for a in fn.args.posonlyargs + fn.args.args + fn.args.kwonlyargs}


def _container_mutated(fn, path):
    """is the container of a subscript path updated in place (item store / list method) in fn?"""
    base = path
    while isinstance(base, ast.Subscript):
        base = base.value
    key = ast.unparse(base)
    for n in _walk_scope(fn):
        if isinstance(n, ast.Subscript) and isinstance(n.ctx, (ast.Store, ast.Del)) and ast.unparse(n.value) == key:
            return True
        if isinstance(n, ast.Call) and isinstance(n.func, ast.Attribute) and ast.unparse(n.func.value) == key and \
                n.func.attr in ('append', 'extend', 'insert', 'pop', 'remove', 'clear', 'sort', 'reverse', 'update'):
            return True
        if isinstance(n, ast.AugAssign) and ast.unparse(n.target) == key:
            return True
    return False


def _calls_between_may_change(fn, asg, name):
    """a named condition over attributes (self.x is None) must not be separated from its uses by a
    statement that could change those attributes: any attribute store or call on the same root"""
    attrs = {x.attr for x in ast.walk(asg.value) if isinstance(x, ast.Attribute)}
    if not attrs:
        return False
    body = None

    def find(stmts):
        nonlocal body
        for s in stmts:
            if s is asg:
                body = stmts
                return
            for fld in ('body', 'orelse', 'finalbody'):
                sub = getattr(s, fld, None)
                if isinstance(sub, list):
                    find(sub)
            for h in getattr(s, 'handlers', []):
                find(h.body)
    find(fn.body)
    if body is None:
        return True
    i = [k for k, s in enumerate(body) if s is asg][0]
    last_use = i
    for k in range(i + 1, len(body)):
        if any(isinstance(x, ast.Name) and x.id == name for x in ast.walk(body[k])):
            last_use = k
    for s in body[i + 1:last_use]:
        for x in ast.walk(s):
            if isinstance(x, ast.Attribute) and isinstance(x.ctx, ast.Store) and x.attr in attrs:
                return True
            if isinstance(x, ast.Call):
                return True
    return False


def _rebound_between(fn, asg, name, free):
    """is one of the names the condition reads re-bound between the definition of the flag and its
    last use (in the block of the definition)?"""
    found = []

    def find(stmts):
        for i, s_ in enumerate(stmts):
            if s_ is asg:
                found.append((stmts, i))
                return
            for fld in ('body', 'orelse', 'finalbody'):
                sub = getattr(s_, fld, None)
                if isinstance(sub, list) and not isinstance(s_, (ast.FunctionDef, ast.AsyncFunctionDef, ast.ClassDef)):
                    find(sub)
            for h in getattr(s_, 'handlers', []):
                find(h.body)
    find(fn.body)
    if not found:
        return True
    block, i = found[0]
    last = i
    for k in range(i + 1, len(block)):
        if any(isinstance(x, ast.Name) and x.id == name for x in ast.walk(block[k])):
            last = k
    for s_ in block[i + 1:last + 1]:
        for x in ast.walk(s_):
            if isinstance(x, ast.Name) and isinstance(x.ctx, (ast.Store, ast.Del)) and x.id in free:
                return True
    # inside a loop the names must not be re-bound anywhere in the loop (next iteration reads the flag anew,
    # which is fine) -- only the window above matters
    return False


def _only_in_tests(fn, name):
    in_test = set()
    for n in _walk_scope(fn):
        t = None
        if isinstance(n, (ast.If, ast.While, ast.IfExp, ast.Assert)):
            t = n.test
        if t is not None:
            for x in ast.walk(t):
                if isinstance(x, ast.Name) and x.id == name:
                    in_test.add(id(x))
    for n in _walk_scope(fn):
        if isinstance(n, ast.Name) and n.id == name and isinstance(n.ctx, ast.Load) and id(n) not in in_test:
            return False
    return bool(in_test)


def _drop_defs(stmts, ids):
    out = []
    for s in stmts:
        if id(s) in ids:
            continue
        for fld in ('body', 'orelse', 'finalbody'):
            sub = getattr(s, fld, None)
            if isinstance(sub, list) and not isinstance(s, (ast.FunctionDef, ast.AsyncFunctionDef, ast.ClassDef)):
                new = _drop_defs(sub, ids)
                if not new and fld == 'body':
                    new = [ast.copy_location(ast.Pass(), s)]
                setattr(s, fld, new)
        for h in getattr(s, 'handlers', []):
            h.body = _drop_defs(h.body, ids) or [ast.Pass()]
        out.append(s)
    return out


def _flat(items):
    out = []
    for r in items:
        if isinstance(r, list):
            out.extend(r)
        elif r is not None:
            out.append(r)
    return out


class _Exprs(ast.NodeTransformer):
    """N18  np.negative(x) -> -x ; np.transpose(x) -> x.T ; x.transpose() -> x.T ; np.sum(x, axis=a) -> x.sum(axis=a) ;
       +k -> k for a literal k;  N20 module-level / class-level literal constants read through their name"""

    def __init__(self, consts=None, class_consts=None):
        self.changed = False
        self.consts = consts or {}
        self.class_consts = class_consts or {}

    def visit_FunctionDef(self, node):
        return node

    visit_AsyncFunctionDef = visit_Lambda = visit_ClassDef = visit_FunctionDef

    def visit_Compare(self, node):
        self.generic_visit(node)
        # N8  np.count_nonzero(E) > 0 / != 0 / >= 1  ->  E.any()     ( == 0 / < 1  ->  not E.any() )
        if len(node.ops) == 1 and isinstance(node.left, ast.Call) and \
                ast.unparse(node.left.func) in ('np.count_nonzero', 'numpy.count_nonzero') and \
                len(node.left.args) == 1 and not node.left.keywords and isinstance(node.comparators[0], ast.Constant) \
                and not isinstance(node.comparators[0].value, bool) and node.comparators[0].value in (0, 1):
            k, op = node.comparators[0].value, type(node.ops[0])
            pos = (k == 0 and op in (ast.Gt, ast.NotEq)) or (k == 1 and op is ast.GtE)
            neg = (k == 0 and op in (ast.Eq, ast.LtE)) or (k == 1 and op is ast.Lt)
            if pos or neg:
                self.changed = True
                call = ast.Call(func=ast.Attribute(value=node.left.args[0], attr='any', ctx=ast.Load()), args=[],
                                keywords=[])
                return ast.copy_location(call if pos else ast.UnaryOp(op=ast.Not(), operand=call), node)
        # 0 == x.ub  ->  x.ub == 0  (also outside tests: element-wise comparisons mirror exactly)
        if len(node.ops) == 1 and isinstance(node.left, ast.Constant) and \
                not isinstance(node.comparators[0], ast.Constant):
            mir = {ast.Eq: ast.Eq, ast.NotEq: ast.NotEq, ast.Lt: ast.Gt, ast.Gt: ast.Lt, ast.LtE: ast.GtE,
                   ast.GtE: ast.LtE}.get(type(node.ops[0]))
            if mir is not None:
                self.changed = True
                return ast.copy_location(ast.Compare(left=node.comparators[0], ops=[mir()], comparators=[node.left]),
                                         node)
        return node

    def visit_UnaryOp(self, node):
        self.generic_visit(node)
        if isinstance(node.op, ast.UAdd) and isinstance(node.operand, ast.Constant) and \
                isinstance(node.operand.value, (int, float)):
            self.changed = True
            return ast.copy_location(node.operand, node)
        return node

    def visit_Name(self, node):
        if isinstance(node.ctx, ast.Load) and node.id in self.consts:
            self.changed = True
            return ast.copy_location(copy.deepcopy(self.consts[node.id]), node)
        return node

    def visit_Attribute(self, node):
        self.generic_visit(node)
        if isinstance(node.ctx, ast.Load) and isinstance(node.value, ast.Name) and node.value.id == 'self' and \
                node.attr in self.class_consts:
            self.changed = True
            return ast.copy_location(copy.deepcopy(self.class_consts[node.attr]), node)
        return node

    def visit_Call(self, node):
        self.generic_visit(node)
        f = node.func
        if isinstance(f, ast.Attribute) and isinstance(f.value, ast.Name) and f.value.id in ('np', 'numpy'):
            if f.attr == 'negative' and len(node.args) == 1 and not node.keywords:
                self.changed = True
                return ast.copy_location(ast.UnaryOp(op=ast.USub(), operand=node.args[0]), node)
            if f.attr == 'transpose' and len(node.args) == 1 and not node.keywords:
                self.changed = True
                return ast.copy_location(ast.Attribute(value=node.args[0], attr='T', ctx=ast.Load()), node)
            if f.attr in ('sum',) and len(node.args) >= 1 and isinstance(node.args[0], (ast.Name, ast.Attribute, ast.Subscript)):
                self.changed = True
                new = ast.Call(func=ast.Attribute(value=node.args[0], attr=f.attr, ctx=ast.Load()),
                               args=node.args[1:], keywords=node.keywords)
                return ast.copy_location(new, node)
        if isinstance(f, ast.Attribute) and f.attr == 'transpose' and not node.args and not node.keywords:
            self.changed = True
            return ast.copy_location(ast.Attribute(value=f.value, attr='T', ctx=ast.Load()), node)
        return node


class _Keywords(ast.NodeTransformer):
    """N7"""

    def __init__(self, resolver):
        self.resolver = resolver          # call node -> list of parameter names (receiver excluded) or None
        self.changed = False

    def visit_FunctionDef(self, node):
        return node

    visit_AsyncFunctionDef = visit_Lambda = visit_ClassDef = visit_FunctionDef

    def visit_Call(self, node):
        self.generic_visit(node)
        # N8  np.any(E) / np.all(E)  ->  E.any() / E.all()   (one spelling; E an attribute / subscript / name)
        f = node.func
        if isinstance(f, ast.Attribute) and isinstance(f.value, ast.Name) and f.value.id in ('np', 'numpy') and \
                f.attr in ('any', 'all') and len(node.args) == 1 and not node.keywords and \
                isinstance(node.args[0], (ast.Name, ast.Attribute, ast.Subscript)):
            self.changed = True
            return ast.copy_location(ast.Call(func=ast.Attribute(value=node.args[0], attr=f.attr, ctx=ast.Load()),
                                              args=[], keywords=[]), node)
        if not node.keywords or any(k.arg is None for k in node.keywords) or \
                any(isinstance(a, ast.Starred) for a in node.args):
            return node
        params = self.resolver(node)
        if not params:
            return node
        args = list(node.args)
        kws = {k.arg: k.value for k in node.keywords}
        moved = False
        while len(args) < len(params) and params[len(args)] in kws:
            args.append(kws.pop(params[len(args)]))
            moved = True
        if not moved:
            return node
        self.changed = True
        node.args = args
        node.keywords = [k for k in node.keywords if k.arg in kws]
        return node
