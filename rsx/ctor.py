"""Constructor unfolding: which expression (in terms of the caller's arguments) ends up in
each field of a newly built object.  Used by E5 (aliasing through constructors) and by the
rules that compare rebuilt objects with their source (R08, R11, R16, R25)."""
import ast
import copy

from .loader import AnalysisError, walk_no_nested, is_self_attr, body_stmts


class _Subst(ast.NodeTransformer):
    def __init__(self, env):
        self.env = env

    def visit_Name(self, node):
        if isinstance(node.ctx, ast.Load) and node.id in self.env:
            return copy.deepcopy(self.env[node.id])
        return node


def subst(expr, env):
    return ast.fix_missing_locations(_Subst(env).visit(copy.deepcopy(expr)))


MISSING = ast.Name(id='<missing-arg>', ctx=ast.Load())


def bind_args(fi, call, skip_self=True):
    """Map parameter names of `fi` to the argument expressions of `call` (defaults included).
    Returns None when the call uses *args/**kwargs (cannot be bound statically)."""
    a = fi.node.args
    params = [p.arg for p in a.posonlyargs + a.args]
    if skip_self and params and params[0] in ('self', 'cls'):
        params = params[1:]
    env = {}
    defaults = a.defaults
    npos = len(a.posonlyargs + a.args)
    all_params = [p.arg for p in a.posonlyargs + a.args]
    for i, d in enumerate(defaults):
        env[all_params[npos - len(defaults) + i]] = d
    for p, d in zip(a.kwonlyargs, a.kw_defaults):
        if d is not None:
            env[p.arg] = d
    pos = list(call.args)
    if any(isinstance(x, ast.Starred) for x in pos) or any(k.arg is None for k in call.keywords):
        return None
    for p, v in zip(params, pos):
        env[p] = v
    if len(pos) > len(params) and fi.node.args.vararg is None:
        return None
    for k in call.keywords:
        env[k.arg] = k.value
    for p in params:
        env.setdefault(p, MISSING)
    return env


def ctor_fields(repo, ci, call, _depth=0):
    """dict field -> list of expressions (over the caller's namespace) stored in that field by
    ci.__init__ when invoked as `call`.  Follows super().__init__ chains.  A field assigned
    from something that is not a pure function of the parameters (e.g. a fresh list) maps to
    that expression with parameters substituted."""
    if _depth > 6:
        raise AnalysisError('constructor chain too deep at %s' % ci.fq)
    init = repo.resolve_method(ci, '__init__')
    if init is None:
        return {}
    env = bind_args(init, call)
    if env is None:
        return None
    owner = init.cls
    fields = {}
    local_env = dict(env)
    for st in _linear(init):
        if isinstance(st, ast.Assign) and len(st.targets) == 1:
            t = st.targets[0]
            if is_self_attr(t):
                fields.setdefault(t.attr, []).append(subst(st.value, local_env))
            elif isinstance(t, ast.Name):
                local_env[t.id] = subst(st.value, local_env)
        elif isinstance(st, ast.Expr) and isinstance(st.value, ast.Call):
            c = st.value
            f = c.func
            if isinstance(f, ast.Attribute) and f.attr == '__init__' and \
                    isinstance(f.value, ast.Call) and isinstance(f.value.func, ast.Name) and \
                    f.value.func.id == 'super':
                base = owner.bases[0] if owner.bases else None
                if base is not None:
                    sub_call = ast.Call(func=ast.Name(id=base.name, ctx=ast.Load()),
                                        args=[subst(x, local_env) for x in c.args],
                                        keywords=[ast.keyword(arg=k.arg, value=subst(k.value, local_env))
                                                  for k in c.keywords])
                    sub = ctor_fields(repo, base, sub_call, _depth + 1)
                    if sub is None:
                        return None
                    for k, v in sub.items():
                        fields.setdefault(k, [])
                        # later own assignments override; base values first
                        fields[k] = v + fields[k]
    return fields


def _linear(init):
    """Statements of __init__ in source order, descending into if/for/with bodies (both
    branches): a field assigned in a branch is recorded as one of several possible values."""
    out = []

    def rec(stmts):
        for s in stmts:
            if isinstance(s, ast.If):
                rec(s.body)
                rec(s.orelse)
            elif isinstance(s, (ast.For, ast.While, ast.With, ast.Try)):
                rec(s.body)
                for h in getattr(s, 'handlers', []):
                    rec(h.body)
                rec(getattr(s, 'orelse', []))
                rec(getattr(s, 'finalbody', []))
            else:
                out.append(s)
    rec(body_stmts(init))
    return out


def ctor_field_args(repo, ci, call, attr):
    fields = ctor_fields(repo, ci, call)
    if fields is None:
        return None
    if attr not in fields:
        return None
    # the last assignment wins when straight-line; keep all (may)
    return fields[attr]


def init_field_names(repo, ci):
    """All fields assigned by __init__ along the MRO."""
    names = []
    for c in repo.mro(ci):
        init = c.methods.get('__init__')
        if init is None:
            continue
        for n in walk_no_nested(init.node):
            if isinstance(n, (ast.Assign, ast.AnnAssign)):
                ts = n.targets if isinstance(n, ast.Assign) else [n.target]
                for t in ts:
                    if is_self_attr(t) and t.attr not in names:
                        names.append(t.attr)
    return names
